#![allow(unused, non_snake_case, non_upper_case_globals)]
use vstd::prelude::*;
verus! {
// ---- include lib/stdspecs.vrs ----
// Specifications of core integer methods that vstd 0.2026.09.13 does not provide (trusted; each mirrors the std documentation).
// Included by every unit so that an edited body that starts using one of them is still decided.
pub assume_specification[ i8::div_euclid ](x: i8, y: i8) -> (r: i8) requires y != 0, !(x == i8::MIN && y == -1), ensures y > 0 ==> r as int == (x as int) / (y as int);
pub assume_specification[ i8::rem_euclid ](x: i8, y: i8) -> (r: i8) requires y != 0, !(x == i8::MIN && y == -1), ensures y > 0 ==> r as int == (x as int) % (y as int), y < 0 ==> r as int == (x as int) % (-(y as int));
pub assume_specification[ i8::abs ](x: i8) -> (r: i8) requires x != i8::MIN, ensures r as int == (if x < 0 { -(x as int) } else { x as int });
pub assume_specification[ i8::signum ](x: i8) -> (r: i8) ensures r == (if x > 0 { 1int } else if x < 0 { -1int } else { 0int });
pub assume_specification[ i8::is_positive ](x: i8) -> (r: bool) ensures r == (x > 0);
pub assume_specification[ i8::is_negative ](x: i8) -> (r: bool) ensures r == (x < 0);
pub assume_specification[ i8::checked_neg ](x: i8) -> (r: Option<i8>) ensures x == i8::MIN ==> r.is_none(), x != i8::MIN ==> r == Some((-x) as i8);
pub assume_specification[ i8::saturating_add ](x: i8, y: i8) -> (r: i8) ensures i8::MIN <= x + y <= i8::MAX ==> r == x + y, x + y > i8::MAX ==> r == i8::MAX, x + y < i8::MIN ==> r == i8::MIN;
pub assume_specification[ i8::saturating_sub ](x: i8, y: i8) -> (r: i8) ensures i8::MIN <= x - y <= i8::MAX ==> r == x - y, x - y > i8::MAX ==> r == i8::MAX, x - y < i8::MIN ==> r == i8::MIN;
pub assume_specification[ i8::saturating_neg ](x: i8) -> (r: i8) ensures x == i8::MIN ==> r == i8::MAX, x != i8::MIN ==> r == -x;
pub assume_specification[ i8::unsigned_abs ](x: i8) -> (r: u8) ensures r as int == (if x < 0 { -(x as int) } else { x as int });
pub assume_specification[ i8::checked_abs ](x: i8) -> (r: Option<i8>) ensures x == i8::MIN ==> r.is_none(), x != i8::MIN ==> r == Some((if x < 0 { -x } else { x as int }) as i8);
pub assume_specification[ i16::div_euclid ](x: i16, y: i16) -> (r: i16) requires y != 0, !(x == i16::MIN && y == -1), ensures y > 0 ==> r as int == (x as int) / (y as int);
pub assume_specification[ i16::rem_euclid ](x: i16, y: i16) -> (r: i16) requires y != 0, !(x == i16::MIN && y == -1), ensures y > 0 ==> r as int == (x as int) % (y as int), y < 0 ==> r as int == (x as int) % (-(y as int));
pub assume_specification[ i16::abs ](x: i16) -> (r: i16) requires x != i16::MIN, ensures r as int == (if x < 0 { -(x as int) } else { x as int });
pub assume_specification[ i16::signum ](x: i16) -> (r: i16) ensures r == (if x > 0 { 1int } else if x < 0 { -1int } else { 0int });
pub assume_specification[ i16::is_positive ](x: i16) -> (r: bool) ensures r == (x > 0);
pub assume_specification[ i16::is_negative ](x: i16) -> (r: bool) ensures r == (x < 0);
pub assume_specification[ i16::checked_neg ](x: i16) -> (r: Option<i16>) ensures x == i16::MIN ==> r.is_none(), x != i16::MIN ==> r == Some((-x) as i16);
pub assume_specification[ i16::saturating_add ](x: i16, y: i16) -> (r: i16) ensures i16::MIN <= x + y <= i16::MAX ==> r == x + y, x + y > i16::MAX ==> r == i16::MAX, x + y < i16::MIN ==> r == i16::MIN;
pub assume_specification[ i16::saturating_sub ](x: i16, y: i16) -> (r: i16) ensures i16::MIN <= x - y <= i16::MAX ==> r == x - y, x - y > i16::MAX ==> r == i16::MAX, x - y < i16::MIN ==> r == i16::MIN;
pub assume_specification[ i16::saturating_neg ](x: i16) -> (r: i16) ensures x == i16::MIN ==> r == i16::MAX, x != i16::MIN ==> r == -x;
pub assume_specification[ i16::unsigned_abs ](x: i16) -> (r: u16) ensures r as int == (if x < 0 { -(x as int) } else { x as int });
pub assume_specification[ i16::checked_abs ](x: i16) -> (r: Option<i16>) ensures x == i16::MIN ==> r.is_none(), x != i16::MIN ==> r == Some((if x < 0 { -x } else { x as int }) as i16);
pub assume_specification[ i32::div_euclid ](x: i32, y: i32) -> (r: i32) requires y != 0, !(x == i32::MIN && y == -1), ensures y > 0 ==> r as int == (x as int) / (y as int);
pub assume_specification[ i32::rem_euclid ](x: i32, y: i32) -> (r: i32) requires y != 0, !(x == i32::MIN && y == -1), ensures y > 0 ==> r as int == (x as int) % (y as int), y < 0 ==> r as int == (x as int) % (-(y as int));
pub assume_specification[ i32::abs ](x: i32) -> (r: i32) requires x != i32::MIN, ensures r as int == (if x < 0 { -(x as int) } else { x as int });
pub assume_specification[ i32::signum ](x: i32) -> (r: i32) ensures r == (if x > 0 { 1int } else if x < 0 { -1int } else { 0int });
pub assume_specification[ i32::is_positive ](x: i32) -> (r: bool) ensures r == (x > 0);
pub assume_specification[ i32::is_negative ](x: i32) -> (r: bool) ensures r == (x < 0);
pub assume_specification[ i32::checked_neg ](x: i32) -> (r: Option<i32>) ensures x == i32::MIN ==> r.is_none(), x != i32::MIN ==> r == Some((-x) as i32);
pub assume_specification[ i32::saturating_add ](x: i32, y: i32) -> (r: i32) ensures i32::MIN <= x + y <= i32::MAX ==> r == x + y, x + y > i32::MAX ==> r == i32::MAX, x + y < i32::MIN ==> r == i32::MIN;
pub assume_specification[ i32::saturating_sub ](x: i32, y: i32) -> (r: i32) ensures i32::MIN <= x - y <= i32::MAX ==> r == x - y, x - y > i32::MAX ==> r == i32::MAX, x - y < i32::MIN ==> r == i32::MIN;
pub assume_specification[ i32::saturating_neg ](x: i32) -> (r: i32) ensures x == i32::MIN ==> r == i32::MAX, x != i32::MIN ==> r == -x;
pub assume_specification[ i32::unsigned_abs ](x: i32) -> (r: u32) ensures r as int == (if x < 0 { -(x as int) } else { x as int });
pub assume_specification[ i32::checked_abs ](x: i32) -> (r: Option<i32>) ensures x == i32::MIN ==> r.is_none(), x != i32::MIN ==> r == Some((if x < 0 { -x } else { x as int }) as i32);
pub assume_specification[ i64::div_euclid ](x: i64, y: i64) -> (r: i64) requires y != 0, !(x == i64::MIN && y == -1), ensures y > 0 ==> r as int == (x as int) / (y as int);
pub assume_specification[ i64::rem_euclid ](x: i64, y: i64) -> (r: i64) requires y != 0, !(x == i64::MIN && y == -1), ensures y > 0 ==> r as int == (x as int) % (y as int), y < 0 ==> r as int == (x as int) % (-(y as int));
pub assume_specification[ i64::abs ](x: i64) -> (r: i64) requires x != i64::MIN, ensures r as int == (if x < 0 { -(x as int) } else { x as int });
pub assume_specification[ i64::signum ](x: i64) -> (r: i64) ensures r == (if x > 0 { 1int } else if x < 0 { -1int } else { 0int });
pub assume_specification[ i64::is_positive ](x: i64) -> (r: bool) ensures r == (x > 0);
pub assume_specification[ i64::is_negative ](x: i64) -> (r: bool) ensures r == (x < 0);
pub assume_specification[ i64::checked_neg ](x: i64) -> (r: Option<i64>) ensures x == i64::MIN ==> r.is_none(), x != i64::MIN ==> r == Some((-x) as i64);
pub assume_specification[ i64::saturating_add ](x: i64, y: i64) -> (r: i64) ensures i64::MIN <= x + y <= i64::MAX ==> r == x + y, x + y > i64::MAX ==> r == i64::MAX, x + y < i64::MIN ==> r == i64::MIN;
pub assume_specification[ i64::saturating_sub ](x: i64, y: i64) -> (r: i64) ensures i64::MIN <= x - y <= i64::MAX ==> r == x - y, x - y > i64::MAX ==> r == i64::MAX, x - y < i64::MIN ==> r == i64::MIN;
pub assume_specification[ i64::saturating_neg ](x: i64) -> (r: i64) ensures x == i64::MIN ==> r == i64::MAX, x != i64::MIN ==> r == -x;
pub assume_specification[ i64::unsigned_abs ](x: i64) -> (r: u64) ensures r as int == (if x < 0 { -(x as int) } else { x as int });
pub assume_specification[ i64::checked_abs ](x: i64) -> (r: Option<i64>) ensures x == i64::MIN ==> r.is_none(), x != i64::MIN ==> r == Some((if x < 0 { -x } else { x as int }) as i64);
pub assume_specification[ i128::div_euclid ](x: i128, y: i128) -> (r: i128) requires y != 0, !(x == i128::MIN && y == -1), ensures y > 0 ==> r as int == (x as int) / (y as int);
pub assume_specification[ i128::rem_euclid ](x: i128, y: i128) -> (r: i128) requires y != 0, !(x == i128::MIN && y == -1), ensures y > 0 ==> r as int == (x as int) % (y as int), y < 0 ==> r as int == (x as int) % (-(y as int));
pub assume_specification[ i128::abs ](x: i128) -> (r: i128) requires x != i128::MIN, ensures r as int == (if x < 0 { -(x as int) } else { x as int });
pub assume_specification[ i128::signum ](x: i128) -> (r: i128) ensures r == (if x > 0 { 1int } else if x < 0 { -1int } else { 0int });
pub assume_specification[ i128::is_positive ](x: i128) -> (r: bool) ensures r == (x > 0);
pub assume_specification[ i128::is_negative ](x: i128) -> (r: bool) ensures r == (x < 0);
pub assume_specification[ i128::checked_neg ](x: i128) -> (r: Option<i128>) ensures x == i128::MIN ==> r.is_none(), x != i128::MIN ==> r == Some((-x) as i128);
pub assume_specification[ i128::saturating_add ](x: i128, y: i128) -> (r: i128) ensures i128::MIN <= x + y <= i128::MAX ==> r == x + y, x + y > i128::MAX ==> r == i128::MAX, x + y < i128::MIN ==> r == i128::MIN;
pub assume_specification[ i128::saturating_sub ](x: i128, y: i128) -> (r: i128) ensures i128::MIN <= x - y <= i128::MAX ==> r == x - y, x - y > i128::MAX ==> r == i128::MAX, x - y < i128::MIN ==> r == i128::MIN;
pub assume_specification[ i128::saturating_neg ](x: i128) -> (r: i128) ensures x == i128::MIN ==> r == i128::MAX, x != i128::MIN ==> r == -x;
pub assume_specification[ i128::unsigned_abs ](x: i128) -> (r: u128) ensures r as int == (if x < 0 { -(x as int) } else { x as int });
pub assume_specification[ i128::checked_abs ](x: i128) -> (r: Option<i128>) ensures x == i128::MIN ==> r.is_none(), x != i128::MIN ==> r == Some((if x < 0 { -x } else { x as int }) as i128);

// ---- include lib/rangeint.vrs ----
// GENERATED by lib/gen_rangeint.py -- the rangeint model (T2).  Do not edit by hand.
use vstd::std_specs::cmp::*;
use vstd::std_specs::ops::*;
use core::cmp::Ordering;

#[derive(Clone, Copy)]
pub struct Constant(pub i64);
#[allow(non_snake_case)]
pub fn C(v: i64) -> (r: ri64) ensures r.val == v { ri64 { val: v } }
#[allow(non_snake_case)]
pub fn C128(v: i64) -> (r: ri128) ensures r.val == v { ri128 { val: v as i128 } }
impl Constant {
    pub fn value(self) -> (r: i64) ensures r == self.0 { self.0 }
    pub fn bound(self) -> (r: i128) ensures r == self.0 { self.0 as i128 }
}
pub open spec fn int_cmp(a: int, b: int) -> Ordering { if a < b { Ordering::Less } else if a > b { Ordering::Greater } else { Ordering::Equal } }
/// truncating division / remainder (Rust `/`, `%` on primitives), b != 0
pub open spec fn tdiv(a: int, b: int) -> int {
    if b > 0 { if a >= 0 { a / b } else { -((-a) / b) } } else { if a >= 0 { -(a / (-b)) } else { (-a) / (-b) } }
}
pub open spec fn trem(a: int, b: int) -> int { a - tdiv(a, b) * b }

pub trait RInto<T>: Sized {
    spec fn rinto_spec(self) -> T;
    spec fn rinto_req(self) -> bool;
    fn rinto(self) -> (r: T) requires self.rinto_req() ensures r == self.rinto_spec();
}
pub trait RFrom<T>: Sized {
    spec fn rfrom_spec(t: T) -> Self;
    spec fn rfrom_req(t: T) -> bool;
    fn rfrom(t: T) -> (r: Self) requires Self::rfrom_req(t) ensures r == Self::rfrom_spec(t);
}


// ------------------------------------------------------------------ ri8
#[derive(Clone, Copy)]
pub struct ri8 { pub val: i8 }
impl ri8 {
    pub fn new_unchecked(val: i8) -> (r: Self) ensures r.val == val { ri8 { val } }
    pub fn get(self) -> (r: i8) ensures r == self.val { self.val }
    pub fn get_unchecked(self) -> (r: i8) ensures r == self.val { self.val }
    pub fn without_bounds(self) -> (r: Self) ensures r == self { self }
    // `T::N::<VAL>()` is rewritten to `T::verif_N(VAL)`: the constant VAL (release: `Self { val: VAL }`, no bound is consulted).
    // (Not modelled with a const generic: Verus 0.2026.09.13 derives `false` from a negative const generic argument.)
    pub const fn verif_N(v: i8) -> (r: Self) ensures r.val == v { ri8 { val: v } }
    #[verifier::external_body]
    pub fn abs(self) -> (r: Self)
        requires self.val > i8::MIN,
        ensures r.val == (if self.val < 0 { -self.val } else { self.val as int })
    { unimplemented!() }
    // real: returns `riN<-1, 1>` of the SAME width
    pub fn signum(self) -> (r: Self) ensures r.val == (if self.val < 0 { -1int } else if self.val > 0 { 1int } else { 0int })
    { if self.val < 0 { ri8 { val: -1 } } else if self.val > 0 { ri8 { val: 1 } } else { ri8 { val: 0 } } }
    pub fn min<R: RInto<Self>>(self, other: R) -> (r: Self)
        requires other.rinto_req(),
        ensures r.val == (if other.rinto_spec().val < self.val { other.rinto_spec().val } else { self.val })
    { let o = other.rinto(); if o.val < self.val { o } else { self } }
    pub fn max<R: RInto<Self>>(self, other: R) -> (r: Self)
        requires other.rinto_req(),
        ensures r.val == (if other.rinto_spec().val > self.val { other.rinto_spec().val } else { self.val })
    { let o = other.rinto(); if o.val > self.val { o } else { self } }
    // truncating
    #[verifier::external_body]
    pub fn div_ceil<R: RInto<Self>>(self, rhs: R) -> (r: Self)
        requires rhs.rinto_req(), rhs.rinto_spec().val != 0, !(self.val == i8::MIN && rhs.rinto_spec().val == -1),
        ensures r.val == tdiv(self.val as int, rhs.rinto_spec().val as int)
    { unimplemented!() }
    #[verifier::external_body]
    pub fn rem_ceil<R: RInto<Self>>(self, rhs: R) -> (r: Self)
        requires rhs.rinto_req(), rhs.rinto_spec().val != 0, !(self.val == i8::MIN && rhs.rinto_spec().val == -1),
        ensures r.val == trem(self.val as int, rhs.rinto_spec().val as int)
    { unimplemented!() }
    // Euclidean (divisor > 0 required here; every use in jiff divides by a positive quantity)
    #[verifier::external_body]
    pub fn div_floor<R: RInto<Self>>(self, rhs: R) -> (r: Self)
        requires rhs.rinto_req(), rhs.rinto_spec().val > 0,
        ensures r.val == (self.val as int) / (rhs.rinto_spec().val as int)
    { unimplemented!() }
    #[verifier::external_body]
    pub fn rem_floor<R: RInto<Self>>(self, rhs: R) -> (r: Self)
        requires rhs.rinto_req(), rhs.rinto_spec().val > 0,
        ensures r.val == (self.val as int) % (rhs.rinto_spec().val as int)
    { unimplemented!() }
    #[verifier::external_body]
    pub fn saturating_mul<R: RInto<Self>>(self, rhs: R) -> (r: Self)
        requires rhs.rinto_req(),
        ensures i8::MIN <= self.val * rhs.rinto_spec().val <= i8::MAX ==> r.val == self.val * rhs.rinto_spec().val,
                self.val * rhs.rinto_spec().val > i8::MAX ==> r.val == i8::MAX,
                self.val * rhs.rinto_spec().val < i8::MIN ==> r.val == i8::MIN,
    { unimplemented!() }
    #[verifier::external_body]
    pub fn saturating_add<R: RInto<Self>>(self, rhs: R) -> (r: Self)
        requires rhs.rinto_req(),
        ensures i8::MIN <= self.val + rhs.rinto_spec().val <= i8::MAX ==> r.val == self.val + rhs.rinto_spec().val,
                self.val + rhs.rinto_spec().val > i8::MAX ==> r.val == i8::MAX,
                self.val + rhs.rinto_spec().val < i8::MIN ==> r.val == i8::MIN,
    { unimplemented!() }
}
// `type Range = ri8<{ LO }, { HI }>; Range::try_new("what", v)`: the bounds of an anonymous range are passed explicitly
#[verifier::external_body]
pub fn verif_try_new_range_8(lo: i128, hi: i128, v: i64) -> (res: Result<ri8, Error>)
    requires i8::MIN <= lo, hi <= i8::MAX,
    ensures res.is_ok() <==> lo <= v <= hi, res.is_ok() ==> res.unwrap().val == v
{ unimplemented!() }
impl RInto<ri8> for ri8 {
    open spec fn rinto_spec(self) -> ri8 { self }
    open spec fn rinto_req(self) -> bool { true }
    fn rinto(self) -> (r: ri8) { self }
}
impl RFrom<ri8> for ri8 {
    open spec fn rfrom_spec(t: ri8) -> ri8 { t }
    open spec fn rfrom_req(t: ri8) -> bool { true }
    fn rfrom(t: ri8) -> (r: ri8) { t }
}
impl RInto<ri8> for Constant {
    open spec fn rinto_spec(self) -> ri8 { ri8 { val: self.0 as i8 } }
    open spec fn rinto_req(self) -> bool { i8::MIN <= self.0 <= i8::MAX }
    #[verifier::external_body]
    fn rinto(self) -> (r: ri8) { unimplemented!() }
}
impl RFrom<Constant> for ri8 {
    open spec fn rfrom_spec(t: Constant) -> ri8 { ri8 { val: t.0 as i8 } }
    open spec fn rfrom_req(t: Constant) -> bool { i8::MIN <= t.0 <= i8::MAX }
    #[verifier::external_body]
    fn rfrom(t: Constant) -> (r: ri8) { unimplemented!() }
}
impl RInto<i8> for ri8 {
    open spec fn rinto_spec(self) -> i8 { self.val }
    open spec fn rinto_req(self) -> bool { true }
    fn rinto(self) -> (r: i8) { self.val }
}

impl PartialEqSpecImpl<ri8> for ri8 {
    open spec fn obeys_eq_spec() -> bool { true }
    open spec fn eq_spec(&self, other: &ri8) -> bool { self.val == other.val }
}
impl PartialEq<ri8> for ri8 {
    #[verifier::external_body]
    fn eq(&self, other: &ri8) -> bool { unimplemented!() }
}
impl PartialOrdSpecImpl<ri8> for ri8 {
    open spec fn obeys_partial_cmp_spec() -> bool { true }
    open spec fn partial_cmp_spec(&self, other: &ri8) -> Option<Ordering> { Some(int_cmp(self.val as int, other.val as int)) }
}
impl PartialOrd<ri8> for ri8 {
    #[verifier::external_body]
    fn partial_cmp(&self, other: &ri8) -> Option<Ordering> { unimplemented!() }
}

impl PartialEqSpecImpl<Constant> for ri8 {
    open spec fn obeys_eq_spec() -> bool { true }
    open spec fn eq_spec(&self, other: &Constant) -> bool { self.val == other.0 }
}
impl PartialEq<Constant> for ri8 {
    #[verifier::external_body]
    fn eq(&self, other: &Constant) -> bool { unimplemented!() }
}
impl PartialOrdSpecImpl<Constant> for ri8 {
    open spec fn obeys_partial_cmp_spec() -> bool { true }
    open spec fn partial_cmp_spec(&self, other: &Constant) -> Option<Ordering> { Some(int_cmp(self.val as int, other.0 as int)) }
}
impl PartialOrd<Constant> for ri8 {
    #[verifier::external_body]
    fn partial_cmp(&self, other: &Constant) -> Option<Ordering> { unimplemented!() }
}

impl PartialEqSpecImpl<ri16> for ri8 {
    open spec fn obeys_eq_spec() -> bool { true }
    open spec fn eq_spec(&self, other: &ri16) -> bool { self.val == other.val }
}
impl PartialEq<ri16> for ri8 {
    #[verifier::external_body]
    fn eq(&self, other: &ri16) -> bool { unimplemented!() }
}
impl PartialOrdSpecImpl<ri16> for ri8 {
    open spec fn obeys_partial_cmp_spec() -> bool { true }
    open spec fn partial_cmp_spec(&self, other: &ri16) -> Option<Ordering> { Some(int_cmp(self.val as int, other.val as int)) }
}
impl PartialOrd<ri16> for ri8 {
    #[verifier::external_body]
    fn partial_cmp(&self, other: &ri16) -> Option<Ordering> { unimplemented!() }
}

impl PartialEqSpecImpl<ri32> for ri8 {
    open spec fn obeys_eq_spec() -> bool { true }
    open spec fn eq_spec(&self, other: &ri32) -> bool { self.val == other.val }
}
impl PartialEq<ri32> for ri8 {
    #[verifier::external_body]
    fn eq(&self, other: &ri32) -> bool { unimplemented!() }
}
impl PartialOrdSpecImpl<ri32> for ri8 {
    open spec fn obeys_partial_cmp_spec() -> bool { true }
    open spec fn partial_cmp_spec(&self, other: &ri32) -> Option<Ordering> { Some(int_cmp(self.val as int, other.val as int)) }
}
impl PartialOrd<ri32> for ri8 {
    #[verifier::external_body]
    fn partial_cmp(&self, other: &ri32) -> Option<Ordering> { unimplemented!() }
}

impl PartialEqSpecImpl<ri64> for ri8 {
    open spec fn obeys_eq_spec() -> bool { true }
    open spec fn eq_spec(&self, other: &ri64) -> bool { self.val == other.val }
}
impl PartialEq<ri64> for ri8 {
    #[verifier::external_body]
    fn eq(&self, other: &ri64) -> bool { unimplemented!() }
}
impl PartialOrdSpecImpl<ri64> for ri8 {
    open spec fn obeys_partial_cmp_spec() -> bool { true }
    open spec fn partial_cmp_spec(&self, other: &ri64) -> Option<Ordering> { Some(int_cmp(self.val as int, other.val as int)) }
}
impl PartialOrd<ri64> for ri8 {
    #[verifier::external_body]
    fn partial_cmp(&self, other: &ri64) -> Option<Ordering> { unimplemented!() }
}

impl PartialEqSpecImpl<ri128> for ri8 {
    open spec fn obeys_eq_spec() -> bool { true }
    open spec fn eq_spec(&self, other: &ri128) -> bool { self.val == other.val }
}
impl PartialEq<ri128> for ri8 {
    #[verifier::external_body]
    fn eq(&self, other: &ri128) -> bool { unimplemented!() }
}
impl PartialOrdSpecImpl<ri128> for ri8 {
    open spec fn obeys_partial_cmp_spec() -> bool { true }
    open spec fn partial_cmp_spec(&self, other: &ri128) -> Option<Ordering> { Some(int_cmp(self.val as int, other.val as int)) }
}
impl PartialOrd<ri128> for ri8 {
    #[verifier::external_body]
    fn partial_cmp(&self, other: &ri128) -> Option<Ordering> { unimplemented!() }
}

impl AddSpecImpl<ri8> for ri8 {
    open spec fn obeys_add_spec() -> bool { true }
    open spec fn add_req(self, rhs: ri8) -> bool { i8::MIN <= self.val + rhs.val <= i8::MAX }
    open spec fn add_spec(self, rhs: ri8) -> ri8 { ri8 { val: (self.val + rhs.val) as i8 } }
}
impl core::ops::Add<ri8> for ri8 {
    type Output = ri8;
    #[verifier::external_body]
    fn add(self, rhs: ri8) -> ri8 { unimplemented!() }
}
impl AddAssignSpecImpl<ri8> for ri8 {
    open spec fn obeys_add_assign_spec() -> bool { true }
    open spec fn add_assign_req(&self, rhs: ri8) -> bool { i8::MIN <= self.val + rhs.val <= i8::MAX }
    open spec fn add_assign_spec(&self, rhs: ri8) -> &ri8 { &ri8 { val: (self.val + rhs.val) as i8 } }
}
impl core::ops::AddAssign<ri8> for ri8 {
    #[verifier::external_body]
    fn add_assign(&mut self, rhs: ri8) { unimplemented!() }
}

impl SubSpecImpl<ri8> for ri8 {
    open spec fn obeys_sub_spec() -> bool { true }
    open spec fn sub_req(self, rhs: ri8) -> bool { i8::MIN <= self.val - rhs.val <= i8::MAX }
    open spec fn sub_spec(self, rhs: ri8) -> ri8 { ri8 { val: (self.val - rhs.val) as i8 } }
}
impl core::ops::Sub<ri8> for ri8 {
    type Output = ri8;
    #[verifier::external_body]
    fn sub(self, rhs: ri8) -> ri8 { unimplemented!() }
}
impl SubAssignSpecImpl<ri8> for ri8 {
    open spec fn obeys_sub_assign_spec() -> bool { true }
    open spec fn sub_assign_req(&self, rhs: ri8) -> bool { i8::MIN <= self.val - rhs.val <= i8::MAX }
    open spec fn sub_assign_spec(&self, rhs: ri8) -> &ri8 { &ri8 { val: (self.val - rhs.val) as i8 } }
}
impl core::ops::SubAssign<ri8> for ri8 {
    #[verifier::external_body]
    fn sub_assign(&mut self, rhs: ri8) { unimplemented!() }
}

impl MulSpecImpl<ri8> for ri8 {
    open spec fn obeys_mul_spec() -> bool { true }
    open spec fn mul_req(self, rhs: ri8) -> bool { i8::MIN <= self.val * rhs.val <= i8::MAX }
    open spec fn mul_spec(self, rhs: ri8) -> ri8 { ri8 { val: (self.val * rhs.val) as i8 } }
}
impl core::ops::Mul<ri8> for ri8 {
    type Output = ri8;
    #[verifier::external_body]
    fn mul(self, rhs: ri8) -> ri8 { unimplemented!() }
}
impl MulAssignSpecImpl<ri8> for ri8 {
    open spec fn obeys_mul_assign_spec() -> bool { true }
    open spec fn mul_assign_req(&self, rhs: ri8) -> bool { i8::MIN <= self.val * rhs.val <= i8::MAX }
    open spec fn mul_assign_spec(&self, rhs: ri8) -> &ri8 { &ri8 { val: (self.val * rhs.val) as i8 } }
}
impl core::ops::MulAssign<ri8> for ri8 {
    #[verifier::external_body]
    fn mul_assign(&mut self, rhs: ri8) { unimplemented!() }
}

impl DivSpecImpl<ri8> for ri8 {
    open spec fn obeys_div_spec() -> bool { true }
    open spec fn div_req(self, rhs: ri8) -> bool { rhs.val > 0 }
    open spec fn div_spec(self, rhs: ri8) -> ri8 { ri8 { val: (self.val as int / rhs.val as int) as i8 } }
}
impl core::ops::Div<ri8> for ri8 {
    type Output = ri8;
    #[verifier::external_body]
    fn div(self, rhs: ri8) -> ri8 { unimplemented!() }
}
impl RemSpecImpl<ri8> for ri8 {
    open spec fn obeys_rem_spec() -> bool { true }
    open spec fn rem_req(self, rhs: ri8) -> bool { rhs.val > 0 }
    open spec fn rem_spec(self, rhs: ri8) -> ri8 { ri8 { val: (self.val as int % rhs.val as int) as i8 } }
}
impl core::ops::Rem<ri8> for ri8 {
    type Output = ri8;
    #[verifier::external_body]
    fn rem(self, rhs: ri8) -> ri8 { unimplemented!() }
}

impl AddSpecImpl<Constant> for ri8 {
    open spec fn obeys_add_spec() -> bool { true }
    open spec fn add_req(self, rhs: Constant) -> bool { i8::MIN <= self.val + rhs.0 <= i8::MAX }
    open spec fn add_spec(self, rhs: Constant) -> ri8 { ri8 { val: (self.val + rhs.0) as i8 } }
}
impl core::ops::Add<Constant> for ri8 {
    type Output = ri8;
    #[verifier::external_body]
    fn add(self, rhs: Constant) -> ri8 { unimplemented!() }
}
impl AddAssignSpecImpl<Constant> for ri8 {
    open spec fn obeys_add_assign_spec() -> bool { true }
    open spec fn add_assign_req(&self, rhs: Constant) -> bool { i8::MIN <= self.val + rhs.0 <= i8::MAX }
    open spec fn add_assign_spec(&self, rhs: Constant) -> &ri8 { &ri8 { val: (self.val + rhs.0) as i8 } }
}
impl core::ops::AddAssign<Constant> for ri8 {
    #[verifier::external_body]
    fn add_assign(&mut self, rhs: Constant) { unimplemented!() }
}

impl SubSpecImpl<Constant> for ri8 {
    open spec fn obeys_sub_spec() -> bool { true }
    open spec fn sub_req(self, rhs: Constant) -> bool { i8::MIN <= self.val - rhs.0 <= i8::MAX }
    open spec fn sub_spec(self, rhs: Constant) -> ri8 { ri8 { val: (self.val - rhs.0) as i8 } }
}
impl core::ops::Sub<Constant> for ri8 {
    type Output = ri8;
    #[verifier::external_body]
    fn sub(self, rhs: Constant) -> ri8 { unimplemented!() }
}
impl SubAssignSpecImpl<Constant> for ri8 {
    open spec fn obeys_sub_assign_spec() -> bool { true }
    open spec fn sub_assign_req(&self, rhs: Constant) -> bool { i8::MIN <= self.val - rhs.0 <= i8::MAX }
    open spec fn sub_assign_spec(&self, rhs: Constant) -> &ri8 { &ri8 { val: (self.val - rhs.0) as i8 } }
}
impl core::ops::SubAssign<Constant> for ri8 {
    #[verifier::external_body]
    fn sub_assign(&mut self, rhs: Constant) { unimplemented!() }
}

impl MulSpecImpl<Constant> for ri8 {
    open spec fn obeys_mul_spec() -> bool { true }
    open spec fn mul_req(self, rhs: Constant) -> bool { i8::MIN <= self.val * rhs.0 <= i8::MAX }
    open spec fn mul_spec(self, rhs: Constant) -> ri8 { ri8 { val: (self.val * rhs.0) as i8 } }
}
impl core::ops::Mul<Constant> for ri8 {
    type Output = ri8;
    #[verifier::external_body]
    fn mul(self, rhs: Constant) -> ri8 { unimplemented!() }
}
impl MulAssignSpecImpl<Constant> for ri8 {
    open spec fn obeys_mul_assign_spec() -> bool { true }
    open spec fn mul_assign_req(&self, rhs: Constant) -> bool { i8::MIN <= self.val * rhs.0 <= i8::MAX }
    open spec fn mul_assign_spec(&self, rhs: Constant) -> &ri8 { &ri8 { val: (self.val * rhs.0) as i8 } }
}
impl core::ops::MulAssign<Constant> for ri8 {
    #[verifier::external_body]
    fn mul_assign(&mut self, rhs: Constant) { unimplemented!() }
}

impl DivSpecImpl<Constant> for ri8 {
    open spec fn obeys_div_spec() -> bool { true }
    open spec fn div_req(self, rhs: Constant) -> bool { rhs.0 > 0 }
    open spec fn div_spec(self, rhs: Constant) -> ri8 { ri8 { val: (self.val as int / rhs.0 as int) as i8 } }
}
impl core::ops::Div<Constant> for ri8 {
    type Output = ri8;
    #[verifier::external_body]
    fn div(self, rhs: Constant) -> ri8 { unimplemented!() }
}
impl RemSpecImpl<Constant> for ri8 {
    open spec fn obeys_rem_spec() -> bool { true }
    open spec fn rem_req(self, rhs: Constant) -> bool { rhs.0 > 0 }
    open spec fn rem_spec(self, rhs: Constant) -> ri8 { ri8 { val: (self.val as int % rhs.0 as int) as i8 } }
}
impl core::ops::Rem<Constant> for ri8 {
    type Output = ri8;
    #[verifier::external_body]
    fn rem(self, rhs: Constant) -> ri8 { unimplemented!() }
}

impl AddSpecImpl<ri16> for ri8 {
    open spec fn obeys_add_spec() -> bool { true }
    open spec fn add_req(self, rhs: ri16) -> bool { i8::MIN <= self.val + rhs.val <= i8::MAX }
    open spec fn add_spec(self, rhs: ri16) -> ri8 { ri8 { val: (self.val + rhs.val) as i8 } }
}
impl core::ops::Add<ri16> for ri8 {
    type Output = ri8;
    #[verifier::external_body]
    fn add(self, rhs: ri16) -> ri8 { unimplemented!() }
}
impl AddAssignSpecImpl<ri16> for ri8 {
    open spec fn obeys_add_assign_spec() -> bool { true }
    open spec fn add_assign_req(&self, rhs: ri16) -> bool { i8::MIN <= self.val + rhs.val <= i8::MAX }
    open spec fn add_assign_spec(&self, rhs: ri16) -> &ri8 { &ri8 { val: (self.val + rhs.val) as i8 } }
}
impl core::ops::AddAssign<ri16> for ri8 {
    #[verifier::external_body]
    fn add_assign(&mut self, rhs: ri16) { unimplemented!() }
}

impl SubSpecImpl<ri16> for ri8 {
    open spec fn obeys_sub_spec() -> bool { true }
    open spec fn sub_req(self, rhs: ri16) -> bool { i8::MIN <= self.val - rhs.val <= i8::MAX }
    open spec fn sub_spec(self, rhs: ri16) -> ri8 { ri8 { val: (self.val - rhs.val) as i8 } }
}
impl core::ops::Sub<ri16> for ri8 {
    type Output = ri8;
    #[verifier::external_body]
    fn sub(self, rhs: ri16) -> ri8 { unimplemented!() }
}
impl SubAssignSpecImpl<ri16> for ri8 {
    open spec fn obeys_sub_assign_spec() -> bool { true }
    open spec fn sub_assign_req(&self, rhs: ri16) -> bool { i8::MIN <= self.val - rhs.val <= i8::MAX }
    open spec fn sub_assign_spec(&self, rhs: ri16) -> &ri8 { &ri8 { val: (self.val - rhs.val) as i8 } }
}
impl core::ops::SubAssign<ri16> for ri8 {
    #[verifier::external_body]
    fn sub_assign(&mut self, rhs: ri16) { unimplemented!() }
}

impl MulSpecImpl<ri16> for ri8 {
    open spec fn obeys_mul_spec() -> bool { true }
    open spec fn mul_req(self, rhs: ri16) -> bool { i8::MIN <= self.val * rhs.val <= i8::MAX }
    open spec fn mul_spec(self, rhs: ri16) -> ri8 { ri8 { val: (self.val * rhs.val) as i8 } }
}
impl core::ops::Mul<ri16> for ri8 {
    type Output = ri8;
    #[verifier::external_body]
    fn mul(self, rhs: ri16) -> ri8 { unimplemented!() }
}
impl MulAssignSpecImpl<ri16> for ri8 {
    open spec fn obeys_mul_assign_spec() -> bool { true }
    open spec fn mul_assign_req(&self, rhs: ri16) -> bool { i8::MIN <= self.val * rhs.val <= i8::MAX }
    open spec fn mul_assign_spec(&self, rhs: ri16) -> &ri8 { &ri8 { val: (self.val * rhs.val) as i8 } }
}
impl core::ops::MulAssign<ri16> for ri8 {
    #[verifier::external_body]
    fn mul_assign(&mut self, rhs: ri16) { unimplemented!() }
}

impl DivSpecImpl<ri16> for ri8 {
    open spec fn obeys_div_spec() -> bool { true }
    open spec fn div_req(self, rhs: ri16) -> bool { rhs.val > 0 }
    open spec fn div_spec(self, rhs: ri16) -> ri8 { ri8 { val: (self.val as int / rhs.val as int) as i8 } }
}
impl core::ops::Div<ri16> for ri8 {
    type Output = ri8;
    #[verifier::external_body]
    fn div(self, rhs: ri16) -> ri8 { unimplemented!() }
}
impl RemSpecImpl<ri16> for ri8 {
    open spec fn obeys_rem_spec() -> bool { true }
    open spec fn rem_req(self, rhs: ri16) -> bool { rhs.val > 0 }
    open spec fn rem_spec(self, rhs: ri16) -> ri8 { ri8 { val: (self.val as int % rhs.val as int) as i8 } }
}
impl core::ops::Rem<ri16> for ri8 {
    type Output = ri8;
    #[verifier::external_body]
    fn rem(self, rhs: ri16) -> ri8 { unimplemented!() }
}

impl AddSpecImpl<ri32> for ri8 {
    open spec fn obeys_add_spec() -> bool { true }
    open spec fn add_req(self, rhs: ri32) -> bool { i8::MIN <= self.val + rhs.val <= i8::MAX }
    open spec fn add_spec(self, rhs: ri32) -> ri8 { ri8 { val: (self.val + rhs.val) as i8 } }
}
impl core::ops::Add<ri32> for ri8 {
    type Output = ri8;
    #[verifier::external_body]
    fn add(self, rhs: ri32) -> ri8 { unimplemented!() }
}
impl AddAssignSpecImpl<ri32> for ri8 {
    open spec fn obeys_add_assign_spec() -> bool { true }
    open spec fn add_assign_req(&self, rhs: ri32) -> bool { i8::MIN <= self.val + rhs.val <= i8::MAX }
    open spec fn add_assign_spec(&self, rhs: ri32) -> &ri8 { &ri8 { val: (self.val + rhs.val) as i8 } }
}
impl core::ops::AddAssign<ri32> for ri8 {
    #[verifier::external_body]
    fn add_assign(&mut self, rhs: ri32) { unimplemented!() }
}

impl SubSpecImpl<ri32> for ri8 {
    open spec fn obeys_sub_spec() -> bool { true }
    open spec fn sub_req(self, rhs: ri32) -> bool { i8::MIN <= self.val - rhs.val <= i8::MAX }
    open spec fn sub_spec(self, rhs: ri32) -> ri8 { ri8 { val: (self.val - rhs.val) as i8 } }
}
impl core::ops::Sub<ri32> for ri8 {
    type Output = ri8;
    #[verifier::external_body]
    fn sub(self, rhs: ri32) -> ri8 { unimplemented!() }
}
impl SubAssignSpecImpl<ri32> for ri8 {
    open spec fn obeys_sub_assign_spec() -> bool { true }
    open spec fn sub_assign_req(&self, rhs: ri32) -> bool { i8::MIN <= self.val - rhs.val <= i8::MAX }
    open spec fn sub_assign_spec(&self, rhs: ri32) -> &ri8 { &ri8 { val: (self.val - rhs.val) as i8 } }
}
impl core::ops::SubAssign<ri32> for ri8 {
    #[verifier::external_body]
    fn sub_assign(&mut self, rhs: ri32) { unimplemented!() }
}

impl MulSpecImpl<ri32> for ri8 {
    open spec fn obeys_mul_spec() -> bool { true }
    open spec fn mul_req(self, rhs: ri32) -> bool { i8::MIN <= self.val * rhs.val <= i8::MAX }
    open spec fn mul_spec(self, rhs: ri32) -> ri8 { ri8 { val: (self.val * rhs.val) as i8 } }
}
impl core::ops::Mul<ri32> for ri8 {
    type Output = ri8;
    #[verifier::external_body]
    fn mul(self, rhs: ri32) -> ri8 { unimplemented!() }
}
impl MulAssignSpecImpl<ri32> for ri8 {
    open spec fn obeys_mul_assign_spec() -> bool { true }
    open spec fn mul_assign_req(&self, rhs: ri32) -> bool { i8::MIN <= self.val * rhs.val <= i8::MAX }
    open spec fn mul_assign_spec(&self, rhs: ri32) -> &ri8 { &ri8 { val: (self.val * rhs.val) as i8 } }
}
impl core::ops::MulAssign<ri32> for ri8 {
    #[verifier::external_body]
    fn mul_assign(&mut self, rhs: ri32) { unimplemented!() }
}

impl DivSpecImpl<ri32> for ri8 {
    open spec fn obeys_div_spec() -> bool { true }
    open spec fn div_req(self, rhs: ri32) -> bool { rhs.val > 0 }
    open spec fn div_spec(self, rhs: ri32) -> ri8 { ri8 { val: (self.val as int / rhs.val as int) as i8 } }
}
impl core::ops::Div<ri32> for ri8 {
    type Output = ri8;
    #[verifier::external_body]
    fn div(self, rhs: ri32) -> ri8 { unimplemented!() }
}
impl RemSpecImpl<ri32> for ri8 {
    open spec fn obeys_rem_spec() -> bool { true }
    open spec fn rem_req(self, rhs: ri32) -> bool { rhs.val > 0 }
    open spec fn rem_spec(self, rhs: ri32) -> ri8 { ri8 { val: (self.val as int % rhs.val as int) as i8 } }
}
impl core::ops::Rem<ri32> for ri8 {
    type Output = ri8;
    #[verifier::external_body]
    fn rem(self, rhs: ri32) -> ri8 { unimplemented!() }
}

impl AddSpecImpl<ri64> for ri8 {
    open spec fn obeys_add_spec() -> bool { true }
    open spec fn add_req(self, rhs: ri64) -> bool { i8::MIN <= self.val + rhs.val <= i8::MAX }
    open spec fn add_spec(self, rhs: ri64) -> ri8 { ri8 { val: (self.val + rhs.val) as i8 } }
}
impl core::ops::Add<ri64> for ri8 {
    type Output = ri8;
    #[verifier::external_body]
    fn add(self, rhs: ri64) -> ri8 { unimplemented!() }
}
impl AddAssignSpecImpl<ri64> for ri8 {
    open spec fn obeys_add_assign_spec() -> bool { true }
    open spec fn add_assign_req(&self, rhs: ri64) -> bool { i8::MIN <= self.val + rhs.val <= i8::MAX }
    open spec fn add_assign_spec(&self, rhs: ri64) -> &ri8 { &ri8 { val: (self.val + rhs.val) as i8 } }
}
impl core::ops::AddAssign<ri64> for ri8 {
    #[verifier::external_body]
    fn add_assign(&mut self, rhs: ri64) { unimplemented!() }
}

impl SubSpecImpl<ri64> for ri8 {
    open spec fn obeys_sub_spec() -> bool { true }
    open spec fn sub_req(self, rhs: ri64) -> bool { i8::MIN <= self.val - rhs.val <= i8::MAX }
    open spec fn sub_spec(self, rhs: ri64) -> ri8 { ri8 { val: (self.val - rhs.val) as i8 } }
}
impl core::ops::Sub<ri64> for ri8 {
    type Output = ri8;
    #[verifier::external_body]
    fn sub(self, rhs: ri64) -> ri8 { unimplemented!() }
}
impl SubAssignSpecImpl<ri64> for ri8 {
    open spec fn obeys_sub_assign_spec() -> bool { true }
    open spec fn sub_assign_req(&self, rhs: ri64) -> bool { i8::MIN <= self.val - rhs.val <= i8::MAX }
    open spec fn sub_assign_spec(&self, rhs: ri64) -> &ri8 { &ri8 { val: (self.val - rhs.val) as i8 } }
}
impl core::ops::SubAssign<ri64> for ri8 {
    #[verifier::external_body]
    fn sub_assign(&mut self, rhs: ri64) { unimplemented!() }
}

impl MulSpecImpl<ri64> for ri8 {
    open spec fn obeys_mul_spec() -> bool { true }
    open spec fn mul_req(self, rhs: ri64) -> bool { i8::MIN <= self.val * rhs.val <= i8::MAX }
    open spec fn mul_spec(self, rhs: ri64) -> ri8 { ri8 { val: (self.val * rhs.val) as i8 } }
}
impl core::ops::Mul<ri64> for ri8 {
    type Output = ri8;
    #[verifier::external_body]
    fn mul(self, rhs: ri64) -> ri8 { unimplemented!() }
}
impl MulAssignSpecImpl<ri64> for ri8 {
    open spec fn obeys_mul_assign_spec() -> bool { true }
    open spec fn mul_assign_req(&self, rhs: ri64) -> bool { i8::MIN <= self.val * rhs.val <= i8::MAX }
    open spec fn mul_assign_spec(&self, rhs: ri64) -> &ri8 { &ri8 { val: (self.val * rhs.val) as i8 } }
}
impl core::ops::MulAssign<ri64> for ri8 {
    #[verifier::external_body]
    fn mul_assign(&mut self, rhs: ri64) { unimplemented!() }
}

impl DivSpecImpl<ri64> for ri8 {
    open spec fn obeys_div_spec() -> bool { true }
    open spec fn div_req(self, rhs: ri64) -> bool { rhs.val > 0 }
    open spec fn div_spec(self, rhs: ri64) -> ri8 { ri8 { val: (self.val as int / rhs.val as int) as i8 } }
}
impl core::ops::Div<ri64> for ri8 {
    type Output = ri8;
    #[verifier::external_body]
    fn div(self, rhs: ri64) -> ri8 { unimplemented!() }
}
impl RemSpecImpl<ri64> for ri8 {
    open spec fn obeys_rem_spec() -> bool { true }
    open spec fn rem_req(self, rhs: ri64) -> bool { rhs.val > 0 }
    open spec fn rem_spec(self, rhs: ri64) -> ri8 { ri8 { val: (self.val as int % rhs.val as int) as i8 } }
}
impl core::ops::Rem<ri64> for ri8 {
    type Output = ri8;
    #[verifier::external_body]
    fn rem(self, rhs: ri64) -> ri8 { unimplemented!() }
}

impl AddSpecImpl<ri128> for ri8 {
    open spec fn obeys_add_spec() -> bool { true }
    open spec fn add_req(self, rhs: ri128) -> bool { i8::MIN <= self.val + rhs.val <= i8::MAX }
    open spec fn add_spec(self, rhs: ri128) -> ri8 { ri8 { val: (self.val + rhs.val) as i8 } }
}
impl core::ops::Add<ri128> for ri8 {
    type Output = ri8;
    #[verifier::external_body]
    fn add(self, rhs: ri128) -> ri8 { unimplemented!() }
}
impl AddAssignSpecImpl<ri128> for ri8 {
    open spec fn obeys_add_assign_spec() -> bool { true }
    open spec fn add_assign_req(&self, rhs: ri128) -> bool { i8::MIN <= self.val + rhs.val <= i8::MAX }
    open spec fn add_assign_spec(&self, rhs: ri128) -> &ri8 { &ri8 { val: (self.val + rhs.val) as i8 } }
}
impl core::ops::AddAssign<ri128> for ri8 {
    #[verifier::external_body]
    fn add_assign(&mut self, rhs: ri128) { unimplemented!() }
}

impl SubSpecImpl<ri128> for ri8 {
    open spec fn obeys_sub_spec() -> bool { true }
    open spec fn sub_req(self, rhs: ri128) -> bool { i8::MIN <= self.val - rhs.val <= i8::MAX }
    open spec fn sub_spec(self, rhs: ri128) -> ri8 { ri8 { val: (self.val - rhs.val) as i8 } }
}
impl core::ops::Sub<ri128> for ri8 {
    type Output = ri8;
    #[verifier::external_body]
    fn sub(self, rhs: ri128) -> ri8 { unimplemented!() }
}
impl SubAssignSpecImpl<ri128> for ri8 {
    open spec fn obeys_sub_assign_spec() -> bool { true }
    open spec fn sub_assign_req(&self, rhs: ri128) -> bool { i8::MIN <= self.val - rhs.val <= i8::MAX }
    open spec fn sub_assign_spec(&self, rhs: ri128) -> &ri8 { &ri8 { val: (self.val - rhs.val) as i8 } }
}
impl core::ops::SubAssign<ri128> for ri8 {
    #[verifier::external_body]
    fn sub_assign(&mut self, rhs: ri128) { unimplemented!() }
}

impl MulSpecImpl<ri128> for ri8 {
    open spec fn obeys_mul_spec() -> bool { true }
    open spec fn mul_req(self, rhs: ri128) -> bool { i8::MIN <= self.val * rhs.val <= i8::MAX }
    open spec fn mul_spec(self, rhs: ri128) -> ri8 { ri8 { val: (self.val * rhs.val) as i8 } }
}
impl core::ops::Mul<ri128> for ri8 {
    type Output = ri8;
    #[verifier::external_body]
    fn mul(self, rhs: ri128) -> ri8 { unimplemented!() }
}
impl MulAssignSpecImpl<ri128> for ri8 {
    open spec fn obeys_mul_assign_spec() -> bool { true }
    open spec fn mul_assign_req(&self, rhs: ri128) -> bool { i8::MIN <= self.val * rhs.val <= i8::MAX }
    open spec fn mul_assign_spec(&self, rhs: ri128) -> &ri8 { &ri8 { val: (self.val * rhs.val) as i8 } }
}
impl core::ops::MulAssign<ri128> for ri8 {
    #[verifier::external_body]
    fn mul_assign(&mut self, rhs: ri128) { unimplemented!() }
}

impl DivSpecImpl<ri128> for ri8 {
    open spec fn obeys_div_spec() -> bool { true }
    open spec fn div_req(self, rhs: ri128) -> bool { rhs.val > 0 }
    open spec fn div_spec(self, rhs: ri128) -> ri8 { ri8 { val: (self.val as int / rhs.val as int) as i8 } }
}
impl core::ops::Div<ri128> for ri8 {
    type Output = ri8;
    #[verifier::external_body]
    fn div(self, rhs: ri128) -> ri8 { unimplemented!() }
}
impl RemSpecImpl<ri128> for ri8 {
    open spec fn obeys_rem_spec() -> bool { true }
    open spec fn rem_req(self, rhs: ri128) -> bool { rhs.val > 0 }
    open spec fn rem_spec(self, rhs: ri128) -> ri8 { ri8 { val: (self.val as int % rhs.val as int) as i8 } }
}
impl core::ops::Rem<ri128> for ri8 {
    type Output = ri8;
    #[verifier::external_body]
    fn rem(self, rhs: ri128) -> ri8 { unimplemented!() }
}

impl NegSpecImpl for ri8 {
    open spec fn obeys_neg_spec() -> bool { true }
    open spec fn neg_req(self) -> bool { self.val > i8::MIN }
    open spec fn neg_spec(self) -> ri8 { ri8 { val: (-self.val) as i8 } }
}
impl core::ops::Neg for ri8 {
    type Output = ri8;
    #[verifier::external_body]
    fn neg(self) -> ri8 { unimplemented!() }
}


// ------------------------------------------------------------------ ri16
#[derive(Clone, Copy)]
pub struct ri16 { pub val: i16 }
impl ri16 {
    pub fn new_unchecked(val: i16) -> (r: Self) ensures r.val == val { ri16 { val } }
    pub fn get(self) -> (r: i16) ensures r == self.val { self.val }
    pub fn get_unchecked(self) -> (r: i16) ensures r == self.val { self.val }
    pub fn without_bounds(self) -> (r: Self) ensures r == self { self }
    // `T::N::<VAL>()` is rewritten to `T::verif_N(VAL)`: the constant VAL (release: `Self { val: VAL }`, no bound is consulted).
    // (Not modelled with a const generic: Verus 0.2026.09.13 derives `false` from a negative const generic argument.)
    pub const fn verif_N(v: i16) -> (r: Self) ensures r.val == v { ri16 { val: v } }
    #[verifier::external_body]
    pub fn abs(self) -> (r: Self)
        requires self.val > i16::MIN,
        ensures r.val == (if self.val < 0 { -self.val } else { self.val as int })
    { unimplemented!() }
    // real: returns `riN<-1, 1>` of the SAME width
    pub fn signum(self) -> (r: Self) ensures r.val == (if self.val < 0 { -1int } else if self.val > 0 { 1int } else { 0int })
    { if self.val < 0 { ri16 { val: -1 } } else if self.val > 0 { ri16 { val: 1 } } else { ri16 { val: 0 } } }
    pub fn min<R: RInto<Self>>(self, other: R) -> (r: Self)
        requires other.rinto_req(),
        ensures r.val == (if other.rinto_spec().val < self.val { other.rinto_spec().val } else { self.val })
    { let o = other.rinto(); if o.val < self.val { o } else { self } }
    pub fn max<R: RInto<Self>>(self, other: R) -> (r: Self)
        requires other.rinto_req(),
        ensures r.val == (if other.rinto_spec().val > self.val { other.rinto_spec().val } else { self.val })
    { let o = other.rinto(); if o.val > self.val { o } else { self } }
    // truncating
    #[verifier::external_body]
    pub fn div_ceil<R: RInto<Self>>(self, rhs: R) -> (r: Self)
        requires rhs.rinto_req(), rhs.rinto_spec().val != 0, !(self.val == i16::MIN && rhs.rinto_spec().val == -1),
        ensures r.val == tdiv(self.val as int, rhs.rinto_spec().val as int)
    { unimplemented!() }
    #[verifier::external_body]
    pub fn rem_ceil<R: RInto<Self>>(self, rhs: R) -> (r: Self)
        requires rhs.rinto_req(), rhs.rinto_spec().val != 0, !(self.val == i16::MIN && rhs.rinto_spec().val == -1),
        ensures r.val == trem(self.val as int, rhs.rinto_spec().val as int)
    { unimplemented!() }
    // Euclidean (divisor > 0 required here; every use in jiff divides by a positive quantity)
    #[verifier::external_body]
    pub fn div_floor<R: RInto<Self>>(self, rhs: R) -> (r: Self)
        requires rhs.rinto_req(), rhs.rinto_spec().val > 0,
        ensures r.val == (self.val as int) / (rhs.rinto_spec().val as int)
    { unimplemented!() }
    #[verifier::external_body]
    pub fn rem_floor<R: RInto<Self>>(self, rhs: R) -> (r: Self)
        requires rhs.rinto_req(), rhs.rinto_spec().val > 0,
        ensures r.val == (self.val as int) % (rhs.rinto_spec().val as int)
    { unimplemented!() }
    #[verifier::external_body]
    pub fn saturating_mul<R: RInto<Self>>(self, rhs: R) -> (r: Self)
        requires rhs.rinto_req(),
        ensures i16::MIN <= self.val * rhs.rinto_spec().val <= i16::MAX ==> r.val == self.val * rhs.rinto_spec().val,
                self.val * rhs.rinto_spec().val > i16::MAX ==> r.val == i16::MAX,
                self.val * rhs.rinto_spec().val < i16::MIN ==> r.val == i16::MIN,
    { unimplemented!() }
    #[verifier::external_body]
    pub fn saturating_add<R: RInto<Self>>(self, rhs: R) -> (r: Self)
        requires rhs.rinto_req(),
        ensures i16::MIN <= self.val + rhs.rinto_spec().val <= i16::MAX ==> r.val == self.val + rhs.rinto_spec().val,
                self.val + rhs.rinto_spec().val > i16::MAX ==> r.val == i16::MAX,
                self.val + rhs.rinto_spec().val < i16::MIN ==> r.val == i16::MIN,
    { unimplemented!() }
}
// `type Range = ri16<{ LO }, { HI }>; Range::try_new("what", v)`: the bounds of an anonymous range are passed explicitly
#[verifier::external_body]
pub fn verif_try_new_range_16(lo: i128, hi: i128, v: i64) -> (res: Result<ri16, Error>)
    requires i16::MIN <= lo, hi <= i16::MAX,
    ensures res.is_ok() <==> lo <= v <= hi, res.is_ok() ==> res.unwrap().val == v
{ unimplemented!() }
impl RInto<ri16> for ri16 {
    open spec fn rinto_spec(self) -> ri16 { self }
    open spec fn rinto_req(self) -> bool { true }
    fn rinto(self) -> (r: ri16) { self }
}
impl RFrom<ri16> for ri16 {
    open spec fn rfrom_spec(t: ri16) -> ri16 { t }
    open spec fn rfrom_req(t: ri16) -> bool { true }
    fn rfrom(t: ri16) -> (r: ri16) { t }
}
impl RInto<ri16> for Constant {
    open spec fn rinto_spec(self) -> ri16 { ri16 { val: self.0 as i16 } }
    open spec fn rinto_req(self) -> bool { i16::MIN <= self.0 <= i16::MAX }
    #[verifier::external_body]
    fn rinto(self) -> (r: ri16) { unimplemented!() }
}
impl RFrom<Constant> for ri16 {
    open spec fn rfrom_spec(t: Constant) -> ri16 { ri16 { val: t.0 as i16 } }
    open spec fn rfrom_req(t: Constant) -> bool { i16::MIN <= t.0 <= i16::MAX }
    #[verifier::external_body]
    fn rfrom(t: Constant) -> (r: ri16) { unimplemented!() }
}
impl RInto<i16> for ri16 {
    open spec fn rinto_spec(self) -> i16 { self.val }
    open spec fn rinto_req(self) -> bool { true }
    fn rinto(self) -> (r: i16) { self.val }
}

impl PartialEqSpecImpl<ri16> for ri16 {
    open spec fn obeys_eq_spec() -> bool { true }
    open spec fn eq_spec(&self, other: &ri16) -> bool { self.val == other.val }
}
impl PartialEq<ri16> for ri16 {
    #[verifier::external_body]
    fn eq(&self, other: &ri16) -> bool { unimplemented!() }
}
impl PartialOrdSpecImpl<ri16> for ri16 {
    open spec fn obeys_partial_cmp_spec() -> bool { true }
    open spec fn partial_cmp_spec(&self, other: &ri16) -> Option<Ordering> { Some(int_cmp(self.val as int, other.val as int)) }
}
impl PartialOrd<ri16> for ri16 {
    #[verifier::external_body]
    fn partial_cmp(&self, other: &ri16) -> Option<Ordering> { unimplemented!() }
}

impl PartialEqSpecImpl<Constant> for ri16 {
    open spec fn obeys_eq_spec() -> bool { true }
    open spec fn eq_spec(&self, other: &Constant) -> bool { self.val == other.0 }
}
impl PartialEq<Constant> for ri16 {
    #[verifier::external_body]
    fn eq(&self, other: &Constant) -> bool { unimplemented!() }
}
impl PartialOrdSpecImpl<Constant> for ri16 {
    open spec fn obeys_partial_cmp_spec() -> bool { true }
    open spec fn partial_cmp_spec(&self, other: &Constant) -> Option<Ordering> { Some(int_cmp(self.val as int, other.0 as int)) }
}
impl PartialOrd<Constant> for ri16 {
    #[verifier::external_body]
    fn partial_cmp(&self, other: &Constant) -> Option<Ordering> { unimplemented!() }
}

impl PartialEqSpecImpl<ri8> for ri16 {
    open spec fn obeys_eq_spec() -> bool { true }
    open spec fn eq_spec(&self, other: &ri8) -> bool { self.val == other.val }
}
impl PartialEq<ri8> for ri16 {
    #[verifier::external_body]
    fn eq(&self, other: &ri8) -> bool { unimplemented!() }
}
impl PartialOrdSpecImpl<ri8> for ri16 {
    open spec fn obeys_partial_cmp_spec() -> bool { true }
    open spec fn partial_cmp_spec(&self, other: &ri8) -> Option<Ordering> { Some(int_cmp(self.val as int, other.val as int)) }
}
impl PartialOrd<ri8> for ri16 {
    #[verifier::external_body]
    fn partial_cmp(&self, other: &ri8) -> Option<Ordering> { unimplemented!() }
}

impl PartialEqSpecImpl<ri32> for ri16 {
    open spec fn obeys_eq_spec() -> bool { true }
    open spec fn eq_spec(&self, other: &ri32) -> bool { self.val == other.val }
}
impl PartialEq<ri32> for ri16 {
    #[verifier::external_body]
    fn eq(&self, other: &ri32) -> bool { unimplemented!() }
}
impl PartialOrdSpecImpl<ri32> for ri16 {
    open spec fn obeys_partial_cmp_spec() -> bool { true }
    open spec fn partial_cmp_spec(&self, other: &ri32) -> Option<Ordering> { Some(int_cmp(self.val as int, other.val as int)) }
}
impl PartialOrd<ri32> for ri16 {
    #[verifier::external_body]
    fn partial_cmp(&self, other: &ri32) -> Option<Ordering> { unimplemented!() }
}

impl PartialEqSpecImpl<ri64> for ri16 {
    open spec fn obeys_eq_spec() -> bool { true }
    open spec fn eq_spec(&self, other: &ri64) -> bool { self.val == other.val }
}
impl PartialEq<ri64> for ri16 {
    #[verifier::external_body]
    fn eq(&self, other: &ri64) -> bool { unimplemented!() }
}
impl PartialOrdSpecImpl<ri64> for ri16 {
    open spec fn obeys_partial_cmp_spec() -> bool { true }
    open spec fn partial_cmp_spec(&self, other: &ri64) -> Option<Ordering> { Some(int_cmp(self.val as int, other.val as int)) }
}
impl PartialOrd<ri64> for ri16 {
    #[verifier::external_body]
    fn partial_cmp(&self, other: &ri64) -> Option<Ordering> { unimplemented!() }
}

impl PartialEqSpecImpl<ri128> for ri16 {
    open spec fn obeys_eq_spec() -> bool { true }
    open spec fn eq_spec(&self, other: &ri128) -> bool { self.val == other.val }
}
impl PartialEq<ri128> for ri16 {
    #[verifier::external_body]
    fn eq(&self, other: &ri128) -> bool { unimplemented!() }
}
impl PartialOrdSpecImpl<ri128> for ri16 {
    open spec fn obeys_partial_cmp_spec() -> bool { true }
    open spec fn partial_cmp_spec(&self, other: &ri128) -> Option<Ordering> { Some(int_cmp(self.val as int, other.val as int)) }
}
impl PartialOrd<ri128> for ri16 {
    #[verifier::external_body]
    fn partial_cmp(&self, other: &ri128) -> Option<Ordering> { unimplemented!() }
}

impl AddSpecImpl<ri16> for ri16 {
    open spec fn obeys_add_spec() -> bool { true }
    open spec fn add_req(self, rhs: ri16) -> bool { i16::MIN <= self.val + rhs.val <= i16::MAX }
    open spec fn add_spec(self, rhs: ri16) -> ri16 { ri16 { val: (self.val + rhs.val) as i16 } }
}
impl core::ops::Add<ri16> for ri16 {
    type Output = ri16;
    #[verifier::external_body]
    fn add(self, rhs: ri16) -> ri16 { unimplemented!() }
}
impl AddAssignSpecImpl<ri16> for ri16 {
    open spec fn obeys_add_assign_spec() -> bool { true }
    open spec fn add_assign_req(&self, rhs: ri16) -> bool { i16::MIN <= self.val + rhs.val <= i16::MAX }
    open spec fn add_assign_spec(&self, rhs: ri16) -> &ri16 { &ri16 { val: (self.val + rhs.val) as i16 } }
}
impl core::ops::AddAssign<ri16> for ri16 {
    #[verifier::external_body]
    fn add_assign(&mut self, rhs: ri16) { unimplemented!() }
}

impl SubSpecImpl<ri16> for ri16 {
    open spec fn obeys_sub_spec() -> bool { true }
    open spec fn sub_req(self, rhs: ri16) -> bool { i16::MIN <= self.val - rhs.val <= i16::MAX }
    open spec fn sub_spec(self, rhs: ri16) -> ri16 { ri16 { val: (self.val - rhs.val) as i16 } }
}
impl core::ops::Sub<ri16> for ri16 {
    type Output = ri16;
    #[verifier::external_body]
    fn sub(self, rhs: ri16) -> ri16 { unimplemented!() }
}
impl SubAssignSpecImpl<ri16> for ri16 {
    open spec fn obeys_sub_assign_spec() -> bool { true }
    open spec fn sub_assign_req(&self, rhs: ri16) -> bool { i16::MIN <= self.val - rhs.val <= i16::MAX }
    open spec fn sub_assign_spec(&self, rhs: ri16) -> &ri16 { &ri16 { val: (self.val - rhs.val) as i16 } }
}
impl core::ops::SubAssign<ri16> for ri16 {
    #[verifier::external_body]
    fn sub_assign(&mut self, rhs: ri16) { unimplemented!() }
}

impl MulSpecImpl<ri16> for ri16 {
    open spec fn obeys_mul_spec() -> bool { true }
    open spec fn mul_req(self, rhs: ri16) -> bool { i16::MIN <= self.val * rhs.val <= i16::MAX }
    open spec fn mul_spec(self, rhs: ri16) -> ri16 { ri16 { val: (self.val * rhs.val) as i16 } }
}
impl core::ops::Mul<ri16> for ri16 {
    type Output = ri16;
    #[verifier::external_body]
    fn mul(self, rhs: ri16) -> ri16 { unimplemented!() }
}
impl MulAssignSpecImpl<ri16> for ri16 {
    open spec fn obeys_mul_assign_spec() -> bool { true }
    open spec fn mul_assign_req(&self, rhs: ri16) -> bool { i16::MIN <= self.val * rhs.val <= i16::MAX }
    open spec fn mul_assign_spec(&self, rhs: ri16) -> &ri16 { &ri16 { val: (self.val * rhs.val) as i16 } }
}
impl core::ops::MulAssign<ri16> for ri16 {
    #[verifier::external_body]
    fn mul_assign(&mut self, rhs: ri16) { unimplemented!() }
}

impl DivSpecImpl<ri16> for ri16 {
    open spec fn obeys_div_spec() -> bool { true }
    open spec fn div_req(self, rhs: ri16) -> bool { rhs.val > 0 }
    open spec fn div_spec(self, rhs: ri16) -> ri16 { ri16 { val: (self.val as int / rhs.val as int) as i16 } }
}
impl core::ops::Div<ri16> for ri16 {
    type Output = ri16;
    #[verifier::external_body]
    fn div(self, rhs: ri16) -> ri16 { unimplemented!() }
}
impl RemSpecImpl<ri16> for ri16 {
    open spec fn obeys_rem_spec() -> bool { true }
    open spec fn rem_req(self, rhs: ri16) -> bool { rhs.val > 0 }
    open spec fn rem_spec(self, rhs: ri16) -> ri16 { ri16 { val: (self.val as int % rhs.val as int) as i16 } }
}
impl core::ops::Rem<ri16> for ri16 {
    type Output = ri16;
    #[verifier::external_body]
    fn rem(self, rhs: ri16) -> ri16 { unimplemented!() }
}

impl AddSpecImpl<Constant> for ri16 {
    open spec fn obeys_add_spec() -> bool { true }
    open spec fn add_req(self, rhs: Constant) -> bool { i16::MIN <= self.val + rhs.0 <= i16::MAX }
    open spec fn add_spec(self, rhs: Constant) -> ri16 { ri16 { val: (self.val + rhs.0) as i16 } }
}
impl core::ops::Add<Constant> for ri16 {
    type Output = ri16;
    #[verifier::external_body]
    fn add(self, rhs: Constant) -> ri16 { unimplemented!() }
}
impl AddAssignSpecImpl<Constant> for ri16 {
    open spec fn obeys_add_assign_spec() -> bool { true }
    open spec fn add_assign_req(&self, rhs: Constant) -> bool { i16::MIN <= self.val + rhs.0 <= i16::MAX }
    open spec fn add_assign_spec(&self, rhs: Constant) -> &ri16 { &ri16 { val: (self.val + rhs.0) as i16 } }
}
impl core::ops::AddAssign<Constant> for ri16 {
    #[verifier::external_body]
    fn add_assign(&mut self, rhs: Constant) { unimplemented!() }
}

impl SubSpecImpl<Constant> for ri16 {
    open spec fn obeys_sub_spec() -> bool { true }
    open spec fn sub_req(self, rhs: Constant) -> bool { i16::MIN <= self.val - rhs.0 <= i16::MAX }
    open spec fn sub_spec(self, rhs: Constant) -> ri16 { ri16 { val: (self.val - rhs.0) as i16 } }
}
impl core::ops::Sub<Constant> for ri16 {
    type Output = ri16;
    #[verifier::external_body]
    fn sub(self, rhs: Constant) -> ri16 { unimplemented!() }
}
impl SubAssignSpecImpl<Constant> for ri16 {
    open spec fn obeys_sub_assign_spec() -> bool { true }
    open spec fn sub_assign_req(&self, rhs: Constant) -> bool { i16::MIN <= self.val - rhs.0 <= i16::MAX }
    open spec fn sub_assign_spec(&self, rhs: Constant) -> &ri16 { &ri16 { val: (self.val - rhs.0) as i16 } }
}
impl core::ops::SubAssign<Constant> for ri16 {
    #[verifier::external_body]
    fn sub_assign(&mut self, rhs: Constant) { unimplemented!() }
}

impl MulSpecImpl<Constant> for ri16 {
    open spec fn obeys_mul_spec() -> bool { true }
    open spec fn mul_req(self, rhs: Constant) -> bool { i16::MIN <= self.val * rhs.0 <= i16::MAX }
    open spec fn mul_spec(self, rhs: Constant) -> ri16 { ri16 { val: (self.val * rhs.0) as i16 } }
}
impl core::ops::Mul<Constant> for ri16 {
    type Output = ri16;
    #[verifier::external_body]
    fn mul(self, rhs: Constant) -> ri16 { unimplemented!() }
}
impl MulAssignSpecImpl<Constant> for ri16 {
    open spec fn obeys_mul_assign_spec() -> bool { true }
    open spec fn mul_assign_req(&self, rhs: Constant) -> bool { i16::MIN <= self.val * rhs.0 <= i16::MAX }
    open spec fn mul_assign_spec(&self, rhs: Constant) -> &ri16 { &ri16 { val: (self.val * rhs.0) as i16 } }
}
impl core::ops::MulAssign<Constant> for ri16 {
    #[verifier::external_body]
    fn mul_assign(&mut self, rhs: Constant) { unimplemented!() }
}

impl DivSpecImpl<Constant> for ri16 {
    open spec fn obeys_div_spec() -> bool { true }
    open spec fn div_req(self, rhs: Constant) -> bool { rhs.0 > 0 }
    open spec fn div_spec(self, rhs: Constant) -> ri16 { ri16 { val: (self.val as int / rhs.0 as int) as i16 } }
}
impl core::ops::Div<Constant> for ri16 {
    type Output = ri16;
    #[verifier::external_body]
    fn div(self, rhs: Constant) -> ri16 { unimplemented!() }
}
impl RemSpecImpl<Constant> for ri16 {
    open spec fn obeys_rem_spec() -> bool { true }
    open spec fn rem_req(self, rhs: Constant) -> bool { rhs.0 > 0 }
    open spec fn rem_spec(self, rhs: Constant) -> ri16 { ri16 { val: (self.val as int % rhs.0 as int) as i16 } }
}
impl core::ops::Rem<Constant> for ri16 {
    type Output = ri16;
    #[verifier::external_body]
    fn rem(self, rhs: Constant) -> ri16 { unimplemented!() }
}

impl AddSpecImpl<ri8> for ri16 {
    open spec fn obeys_add_spec() -> bool { true }
    open spec fn add_req(self, rhs: ri8) -> bool { i16::MIN <= self.val + rhs.val <= i16::MAX }
    open spec fn add_spec(self, rhs: ri8) -> ri16 { ri16 { val: (self.val + rhs.val) as i16 } }
}
impl core::ops::Add<ri8> for ri16 {
    type Output = ri16;
    #[verifier::external_body]
    fn add(self, rhs: ri8) -> ri16 { unimplemented!() }
}
impl AddAssignSpecImpl<ri8> for ri16 {
    open spec fn obeys_add_assign_spec() -> bool { true }
    open spec fn add_assign_req(&self, rhs: ri8) -> bool { i16::MIN <= self.val + rhs.val <= i16::MAX }
    open spec fn add_assign_spec(&self, rhs: ri8) -> &ri16 { &ri16 { val: (self.val + rhs.val) as i16 } }
}
impl core::ops::AddAssign<ri8> for ri16 {
    #[verifier::external_body]
    fn add_assign(&mut self, rhs: ri8) { unimplemented!() }
}

impl SubSpecImpl<ri8> for ri16 {
    open spec fn obeys_sub_spec() -> bool { true }
    open spec fn sub_req(self, rhs: ri8) -> bool { i16::MIN <= self.val - rhs.val <= i16::MAX }
    open spec fn sub_spec(self, rhs: ri8) -> ri16 { ri16 { val: (self.val - rhs.val) as i16 } }
}
impl core::ops::Sub<ri8> for ri16 {
    type Output = ri16;
    #[verifier::external_body]
    fn sub(self, rhs: ri8) -> ri16 { unimplemented!() }
}
impl SubAssignSpecImpl<ri8> for ri16 {
    open spec fn obeys_sub_assign_spec() -> bool { true }
    open spec fn sub_assign_req(&self, rhs: ri8) -> bool { i16::MIN <= self.val - rhs.val <= i16::MAX }
    open spec fn sub_assign_spec(&self, rhs: ri8) -> &ri16 { &ri16 { val: (self.val - rhs.val) as i16 } }
}
impl core::ops::SubAssign<ri8> for ri16 {
    #[verifier::external_body]
    fn sub_assign(&mut self, rhs: ri8) { unimplemented!() }
}

impl MulSpecImpl<ri8> for ri16 {
    open spec fn obeys_mul_spec() -> bool { true }
    open spec fn mul_req(self, rhs: ri8) -> bool { i16::MIN <= self.val * rhs.val <= i16::MAX }
    open spec fn mul_spec(self, rhs: ri8) -> ri16 { ri16 { val: (self.val * rhs.val) as i16 } }
}
impl core::ops::Mul<ri8> for ri16 {
    type Output = ri16;
    #[verifier::external_body]
    fn mul(self, rhs: ri8) -> ri16 { unimplemented!() }
}
impl MulAssignSpecImpl<ri8> for ri16 {
    open spec fn obeys_mul_assign_spec() -> bool { true }
    open spec fn mul_assign_req(&self, rhs: ri8) -> bool { i16::MIN <= self.val * rhs.val <= i16::MAX }
    open spec fn mul_assign_spec(&self, rhs: ri8) -> &ri16 { &ri16 { val: (self.val * rhs.val) as i16 } }
}
impl core::ops::MulAssign<ri8> for ri16 {
    #[verifier::external_body]
    fn mul_assign(&mut self, rhs: ri8) { unimplemented!() }
}

impl DivSpecImpl<ri8> for ri16 {
    open spec fn obeys_div_spec() -> bool { true }
    open spec fn div_req(self, rhs: ri8) -> bool { rhs.val > 0 }
    open spec fn div_spec(self, rhs: ri8) -> ri16 { ri16 { val: (self.val as int / rhs.val as int) as i16 } }
}
impl core::ops::Div<ri8> for ri16 {
    type Output = ri16;
    #[verifier::external_body]
    fn div(self, rhs: ri8) -> ri16 { unimplemented!() }
}
impl RemSpecImpl<ri8> for ri16 {
    open spec fn obeys_rem_spec() -> bool { true }
    open spec fn rem_req(self, rhs: ri8) -> bool { rhs.val > 0 }
    open spec fn rem_spec(self, rhs: ri8) -> ri16 { ri16 { val: (self.val as int % rhs.val as int) as i16 } }
}
impl core::ops::Rem<ri8> for ri16 {
    type Output = ri16;
    #[verifier::external_body]
    fn rem(self, rhs: ri8) -> ri16 { unimplemented!() }
}

impl AddSpecImpl<ri32> for ri16 {
    open spec fn obeys_add_spec() -> bool { true }
    open spec fn add_req(self, rhs: ri32) -> bool { i16::MIN <= self.val + rhs.val <= i16::MAX }
    open spec fn add_spec(self, rhs: ri32) -> ri16 { ri16 { val: (self.val + rhs.val) as i16 } }
}
impl core::ops::Add<ri32> for ri16 {
    type Output = ri16;
    #[verifier::external_body]
    fn add(self, rhs: ri32) -> ri16 { unimplemented!() }
}
impl AddAssignSpecImpl<ri32> for ri16 {
    open spec fn obeys_add_assign_spec() -> bool { true }
    open spec fn add_assign_req(&self, rhs: ri32) -> bool { i16::MIN <= self.val + rhs.val <= i16::MAX }
    open spec fn add_assign_spec(&self, rhs: ri32) -> &ri16 { &ri16 { val: (self.val + rhs.val) as i16 } }
}
impl core::ops::AddAssign<ri32> for ri16 {
    #[verifier::external_body]
    fn add_assign(&mut self, rhs: ri32) { unimplemented!() }
}

impl SubSpecImpl<ri32> for ri16 {
    open spec fn obeys_sub_spec() -> bool { true }
    open spec fn sub_req(self, rhs: ri32) -> bool { i16::MIN <= self.val - rhs.val <= i16::MAX }
    open spec fn sub_spec(self, rhs: ri32) -> ri16 { ri16 { val: (self.val - rhs.val) as i16 } }
}
impl core::ops::Sub<ri32> for ri16 {
    type Output = ri16;
    #[verifier::external_body]
    fn sub(self, rhs: ri32) -> ri16 { unimplemented!() }
}
impl SubAssignSpecImpl<ri32> for ri16 {
    open spec fn obeys_sub_assign_spec() -> bool { true }
    open spec fn sub_assign_req(&self, rhs: ri32) -> bool { i16::MIN <= self.val - rhs.val <= i16::MAX }
    open spec fn sub_assign_spec(&self, rhs: ri32) -> &ri16 { &ri16 { val: (self.val - rhs.val) as i16 } }
}
impl core::ops::SubAssign<ri32> for ri16 {
    #[verifier::external_body]
    fn sub_assign(&mut self, rhs: ri32) { unimplemented!() }
}

impl MulSpecImpl<ri32> for ri16 {
    open spec fn obeys_mul_spec() -> bool { true }
    open spec fn mul_req(self, rhs: ri32) -> bool { i16::MIN <= self.val * rhs.val <= i16::MAX }
    open spec fn mul_spec(self, rhs: ri32) -> ri16 { ri16 { val: (self.val * rhs.val) as i16 } }
}
impl core::ops::Mul<ri32> for ri16 {
    type Output = ri16;
    #[verifier::external_body]
    fn mul(self, rhs: ri32) -> ri16 { unimplemented!() }
}
impl MulAssignSpecImpl<ri32> for ri16 {
    open spec fn obeys_mul_assign_spec() -> bool { true }
    open spec fn mul_assign_req(&self, rhs: ri32) -> bool { i16::MIN <= self.val * rhs.val <= i16::MAX }
    open spec fn mul_assign_spec(&self, rhs: ri32) -> &ri16 { &ri16 { val: (self.val * rhs.val) as i16 } }
}
impl core::ops::MulAssign<ri32> for ri16 {
    #[verifier::external_body]
    fn mul_assign(&mut self, rhs: ri32) { unimplemented!() }
}

impl DivSpecImpl<ri32> for ri16 {
    open spec fn obeys_div_spec() -> bool { true }
    open spec fn div_req(self, rhs: ri32) -> bool { rhs.val > 0 }
    open spec fn div_spec(self, rhs: ri32) -> ri16 { ri16 { val: (self.val as int / rhs.val as int) as i16 } }
}
impl core::ops::Div<ri32> for ri16 {
    type Output = ri16;
    #[verifier::external_body]
    fn div(self, rhs: ri32) -> ri16 { unimplemented!() }
}
impl RemSpecImpl<ri32> for ri16 {
    open spec fn obeys_rem_spec() -> bool { true }
    open spec fn rem_req(self, rhs: ri32) -> bool { rhs.val > 0 }
    open spec fn rem_spec(self, rhs: ri32) -> ri16 { ri16 { val: (self.val as int % rhs.val as int) as i16 } }
}
impl core::ops::Rem<ri32> for ri16 {
    type Output = ri16;
    #[verifier::external_body]
    fn rem(self, rhs: ri32) -> ri16 { unimplemented!() }
}

impl AddSpecImpl<ri64> for ri16 {
    open spec fn obeys_add_spec() -> bool { true }
    open spec fn add_req(self, rhs: ri64) -> bool { i16::MIN <= self.val + rhs.val <= i16::MAX }
    open spec fn add_spec(self, rhs: ri64) -> ri16 { ri16 { val: (self.val + rhs.val) as i16 } }
}
impl core::ops::Add<ri64> for ri16 {
    type Output = ri16;
    #[verifier::external_body]
    fn add(self, rhs: ri64) -> ri16 { unimplemented!() }
}
impl AddAssignSpecImpl<ri64> for ri16 {
    open spec fn obeys_add_assign_spec() -> bool { true }
    open spec fn add_assign_req(&self, rhs: ri64) -> bool { i16::MIN <= self.val + rhs.val <= i16::MAX }
    open spec fn add_assign_spec(&self, rhs: ri64) -> &ri16 { &ri16 { val: (self.val + rhs.val) as i16 } }
}
impl core::ops::AddAssign<ri64> for ri16 {
    #[verifier::external_body]
    fn add_assign(&mut self, rhs: ri64) { unimplemented!() }
}

impl SubSpecImpl<ri64> for ri16 {
    open spec fn obeys_sub_spec() -> bool { true }
    open spec fn sub_req(self, rhs: ri64) -> bool { i16::MIN <= self.val - rhs.val <= i16::MAX }
    open spec fn sub_spec(self, rhs: ri64) -> ri16 { ri16 { val: (self.val - rhs.val) as i16 } }
}
impl core::ops::Sub<ri64> for ri16 {
    type Output = ri16;
    #[verifier::external_body]
    fn sub(self, rhs: ri64) -> ri16 { unimplemented!() }
}
impl SubAssignSpecImpl<ri64> for ri16 {
    open spec fn obeys_sub_assign_spec() -> bool { true }
    open spec fn sub_assign_req(&self, rhs: ri64) -> bool { i16::MIN <= self.val - rhs.val <= i16::MAX }
    open spec fn sub_assign_spec(&self, rhs: ri64) -> &ri16 { &ri16 { val: (self.val - rhs.val) as i16 } }
}
impl core::ops::SubAssign<ri64> for ri16 {
    #[verifier::external_body]
    fn sub_assign(&mut self, rhs: ri64) { unimplemented!() }
}

impl MulSpecImpl<ri64> for ri16 {
    open spec fn obeys_mul_spec() -> bool { true }
    open spec fn mul_req(self, rhs: ri64) -> bool { i16::MIN <= self.val * rhs.val <= i16::MAX }
    open spec fn mul_spec(self, rhs: ri64) -> ri16 { ri16 { val: (self.val * rhs.val) as i16 } }
}
impl core::ops::Mul<ri64> for ri16 {
    type Output = ri16;
    #[verifier::external_body]
    fn mul(self, rhs: ri64) -> ri16 { unimplemented!() }
}
impl MulAssignSpecImpl<ri64> for ri16 {
    open spec fn obeys_mul_assign_spec() -> bool { true }
    open spec fn mul_assign_req(&self, rhs: ri64) -> bool { i16::MIN <= self.val * rhs.val <= i16::MAX }
    open spec fn mul_assign_spec(&self, rhs: ri64) -> &ri16 { &ri16 { val: (self.val * rhs.val) as i16 } }
}
impl core::ops::MulAssign<ri64> for ri16 {
    #[verifier::external_body]
    fn mul_assign(&mut self, rhs: ri64) { unimplemented!() }
}

impl DivSpecImpl<ri64> for ri16 {
    open spec fn obeys_div_spec() -> bool { true }
    open spec fn div_req(self, rhs: ri64) -> bool { rhs.val > 0 }
    open spec fn div_spec(self, rhs: ri64) -> ri16 { ri16 { val: (self.val as int / rhs.val as int) as i16 } }
}
impl core::ops::Div<ri64> for ri16 {
    type Output = ri16;
    #[verifier::external_body]
    fn div(self, rhs: ri64) -> ri16 { unimplemented!() }
}
impl RemSpecImpl<ri64> for ri16 {
    open spec fn obeys_rem_spec() -> bool { true }
    open spec fn rem_req(self, rhs: ri64) -> bool { rhs.val > 0 }
    open spec fn rem_spec(self, rhs: ri64) -> ri16 { ri16 { val: (self.val as int % rhs.val as int) as i16 } }
}
impl core::ops::Rem<ri64> for ri16 {
    type Output = ri16;
    #[verifier::external_body]
    fn rem(self, rhs: ri64) -> ri16 { unimplemented!() }
}

impl AddSpecImpl<ri128> for ri16 {
    open spec fn obeys_add_spec() -> bool { true }
    open spec fn add_req(self, rhs: ri128) -> bool { i16::MIN <= self.val + rhs.val <= i16::MAX }
    open spec fn add_spec(self, rhs: ri128) -> ri16 { ri16 { val: (self.val + rhs.val) as i16 } }
}
impl core::ops::Add<ri128> for ri16 {
    type Output = ri16;
    #[verifier::external_body]
    fn add(self, rhs: ri128) -> ri16 { unimplemented!() }
}
impl AddAssignSpecImpl<ri128> for ri16 {
    open spec fn obeys_add_assign_spec() -> bool { true }
    open spec fn add_assign_req(&self, rhs: ri128) -> bool { i16::MIN <= self.val + rhs.val <= i16::MAX }
    open spec fn add_assign_spec(&self, rhs: ri128) -> &ri16 { &ri16 { val: (self.val + rhs.val) as i16 } }
}
impl core::ops::AddAssign<ri128> for ri16 {
    #[verifier::external_body]
    fn add_assign(&mut self, rhs: ri128) { unimplemented!() }
}

impl SubSpecImpl<ri128> for ri16 {
    open spec fn obeys_sub_spec() -> bool { true }
    open spec fn sub_req(self, rhs: ri128) -> bool { i16::MIN <= self.val - rhs.val <= i16::MAX }
    open spec fn sub_spec(self, rhs: ri128) -> ri16 { ri16 { val: (self.val - rhs.val) as i16 } }
}
impl core::ops::Sub<ri128> for ri16 {
    type Output = ri16;
    #[verifier::external_body]
    fn sub(self, rhs: ri128) -> ri16 { unimplemented!() }
}
impl SubAssignSpecImpl<ri128> for ri16 {
    open spec fn obeys_sub_assign_spec() -> bool { true }
    open spec fn sub_assign_req(&self, rhs: ri128) -> bool { i16::MIN <= self.val - rhs.val <= i16::MAX }
    open spec fn sub_assign_spec(&self, rhs: ri128) -> &ri16 { &ri16 { val: (self.val - rhs.val) as i16 } }
}
impl core::ops::SubAssign<ri128> for ri16 {
    #[verifier::external_body]
    fn sub_assign(&mut self, rhs: ri128) { unimplemented!() }
}

impl MulSpecImpl<ri128> for ri16 {
    open spec fn obeys_mul_spec() -> bool { true }
    open spec fn mul_req(self, rhs: ri128) -> bool { i16::MIN <= self.val * rhs.val <= i16::MAX }
    open spec fn mul_spec(self, rhs: ri128) -> ri16 { ri16 { val: (self.val * rhs.val) as i16 } }
}
impl core::ops::Mul<ri128> for ri16 {
    type Output = ri16;
    #[verifier::external_body]
    fn mul(self, rhs: ri128) -> ri16 { unimplemented!() }
}
impl MulAssignSpecImpl<ri128> for ri16 {
    open spec fn obeys_mul_assign_spec() -> bool { true }
    open spec fn mul_assign_req(&self, rhs: ri128) -> bool { i16::MIN <= self.val * rhs.val <= i16::MAX }
    open spec fn mul_assign_spec(&self, rhs: ri128) -> &ri16 { &ri16 { val: (self.val * rhs.val) as i16 } }
}
impl core::ops::MulAssign<ri128> for ri16 {
    #[verifier::external_body]
    fn mul_assign(&mut self, rhs: ri128) { unimplemented!() }
}

impl DivSpecImpl<ri128> for ri16 {
    open spec fn obeys_div_spec() -> bool { true }
    open spec fn div_req(self, rhs: ri128) -> bool { rhs.val > 0 }
    open spec fn div_spec(self, rhs: ri128) -> ri16 { ri16 { val: (self.val as int / rhs.val as int) as i16 } }
}
impl core::ops::Div<ri128> for ri16 {
    type Output = ri16;
    #[verifier::external_body]
    fn div(self, rhs: ri128) -> ri16 { unimplemented!() }
}
impl RemSpecImpl<ri128> for ri16 {
    open spec fn obeys_rem_spec() -> bool { true }
    open spec fn rem_req(self, rhs: ri128) -> bool { rhs.val > 0 }
    open spec fn rem_spec(self, rhs: ri128) -> ri16 { ri16 { val: (self.val as int % rhs.val as int) as i16 } }
}
impl core::ops::Rem<ri128> for ri16 {
    type Output = ri16;
    #[verifier::external_body]
    fn rem(self, rhs: ri128) -> ri16 { unimplemented!() }
}

impl NegSpecImpl for ri16 {
    open spec fn obeys_neg_spec() -> bool { true }
    open spec fn neg_req(self) -> bool { self.val > i16::MIN }
    open spec fn neg_spec(self) -> ri16 { ri16 { val: (-self.val) as i16 } }
}
impl core::ops::Neg for ri16 {
    type Output = ri16;
    #[verifier::external_body]
    fn neg(self) -> ri16 { unimplemented!() }
}


// ------------------------------------------------------------------ ri32
#[derive(Clone, Copy)]
pub struct ri32 { pub val: i32 }
impl ri32 {
    pub fn new_unchecked(val: i32) -> (r: Self) ensures r.val == val { ri32 { val } }
    pub fn get(self) -> (r: i32) ensures r == self.val { self.val }
    pub fn get_unchecked(self) -> (r: i32) ensures r == self.val { self.val }
    pub fn without_bounds(self) -> (r: Self) ensures r == self { self }
    // `T::N::<VAL>()` is rewritten to `T::verif_N(VAL)`: the constant VAL (release: `Self { val: VAL }`, no bound is consulted).
    // (Not modelled with a const generic: Verus 0.2026.09.13 derives `false` from a negative const generic argument.)
    pub const fn verif_N(v: i32) -> (r: Self) ensures r.val == v { ri32 { val: v } }
    #[verifier::external_body]
    pub fn abs(self) -> (r: Self)
        requires self.val > i32::MIN,
        ensures r.val == (if self.val < 0 { -self.val } else { self.val as int })
    { unimplemented!() }
    // real: returns `riN<-1, 1>` of the SAME width
    pub fn signum(self) -> (r: Self) ensures r.val == (if self.val < 0 { -1int } else if self.val > 0 { 1int } else { 0int })
    { if self.val < 0 { ri32 { val: -1 } } else if self.val > 0 { ri32 { val: 1 } } else { ri32 { val: 0 } } }
    pub fn min<R: RInto<Self>>(self, other: R) -> (r: Self)
        requires other.rinto_req(),
        ensures r.val == (if other.rinto_spec().val < self.val { other.rinto_spec().val } else { self.val })
    { let o = other.rinto(); if o.val < self.val { o } else { self } }
    pub fn max<R: RInto<Self>>(self, other: R) -> (r: Self)
        requires other.rinto_req(),
        ensures r.val == (if other.rinto_spec().val > self.val { other.rinto_spec().val } else { self.val })
    { let o = other.rinto(); if o.val > self.val { o } else { self } }
    // truncating
    #[verifier::external_body]
    pub fn div_ceil<R: RInto<Self>>(self, rhs: R) -> (r: Self)
        requires rhs.rinto_req(), rhs.rinto_spec().val != 0, !(self.val == i32::MIN && rhs.rinto_spec().val == -1),
        ensures r.val == tdiv(self.val as int, rhs.rinto_spec().val as int)
    { unimplemented!() }
    #[verifier::external_body]
    pub fn rem_ceil<R: RInto<Self>>(self, rhs: R) -> (r: Self)
        requires rhs.rinto_req(), rhs.rinto_spec().val != 0, !(self.val == i32::MIN && rhs.rinto_spec().val == -1),
        ensures r.val == trem(self.val as int, rhs.rinto_spec().val as int)
    { unimplemented!() }
    // Euclidean (divisor > 0 required here; every use in jiff divides by a positive quantity)
    #[verifier::external_body]
    pub fn div_floor<R: RInto<Self>>(self, rhs: R) -> (r: Self)
        requires rhs.rinto_req(), rhs.rinto_spec().val > 0,
        ensures r.val == (self.val as int) / (rhs.rinto_spec().val as int)
    { unimplemented!() }
    #[verifier::external_body]
    pub fn rem_floor<R: RInto<Self>>(self, rhs: R) -> (r: Self)
        requires rhs.rinto_req(), rhs.rinto_spec().val > 0,
        ensures r.val == (self.val as int) % (rhs.rinto_spec().val as int)
    { unimplemented!() }
    #[verifier::external_body]
    pub fn saturating_mul<R: RInto<Self>>(self, rhs: R) -> (r: Self)
        requires rhs.rinto_req(),
        ensures i32::MIN <= self.val * rhs.rinto_spec().val <= i32::MAX ==> r.val == self.val * rhs.rinto_spec().val,
                self.val * rhs.rinto_spec().val > i32::MAX ==> r.val == i32::MAX,
                self.val * rhs.rinto_spec().val < i32::MIN ==> r.val == i32::MIN,
    { unimplemented!() }
    #[verifier::external_body]
    pub fn saturating_add<R: RInto<Self>>(self, rhs: R) -> (r: Self)
        requires rhs.rinto_req(),
        ensures i32::MIN <= self.val + rhs.rinto_spec().val <= i32::MAX ==> r.val == self.val + rhs.rinto_spec().val,
                self.val + rhs.rinto_spec().val > i32::MAX ==> r.val == i32::MAX,
                self.val + rhs.rinto_spec().val < i32::MIN ==> r.val == i32::MIN,
    { unimplemented!() }
}
// `type Range = ri32<{ LO }, { HI }>; Range::try_new("what", v)`: the bounds of an anonymous range are passed explicitly
#[verifier::external_body]
pub fn verif_try_new_range_32(lo: i128, hi: i128, v: i64) -> (res: Result<ri32, Error>)
    requires i32::MIN <= lo, hi <= i32::MAX,
    ensures res.is_ok() <==> lo <= v <= hi, res.is_ok() ==> res.unwrap().val == v
{ unimplemented!() }
impl RInto<ri32> for ri32 {
    open spec fn rinto_spec(self) -> ri32 { self }
    open spec fn rinto_req(self) -> bool { true }
    fn rinto(self) -> (r: ri32) { self }
}
impl RFrom<ri32> for ri32 {
    open spec fn rfrom_spec(t: ri32) -> ri32 { t }
    open spec fn rfrom_req(t: ri32) -> bool { true }
    fn rfrom(t: ri32) -> (r: ri32) { t }
}
impl RInto<ri32> for Constant {
    open spec fn rinto_spec(self) -> ri32 { ri32 { val: self.0 as i32 } }
    open spec fn rinto_req(self) -> bool { i32::MIN <= self.0 <= i32::MAX }
    #[verifier::external_body]
    fn rinto(self) -> (r: ri32) { unimplemented!() }
}
impl RFrom<Constant> for ri32 {
    open spec fn rfrom_spec(t: Constant) -> ri32 { ri32 { val: t.0 as i32 } }
    open spec fn rfrom_req(t: Constant) -> bool { i32::MIN <= t.0 <= i32::MAX }
    #[verifier::external_body]
    fn rfrom(t: Constant) -> (r: ri32) { unimplemented!() }
}
impl RInto<i32> for ri32 {
    open spec fn rinto_spec(self) -> i32 { self.val }
    open spec fn rinto_req(self) -> bool { true }
    fn rinto(self) -> (r: i32) { self.val }
}

impl PartialEqSpecImpl<ri32> for ri32 {
    open spec fn obeys_eq_spec() -> bool { true }
    open spec fn eq_spec(&self, other: &ri32) -> bool { self.val == other.val }
}
impl PartialEq<ri32> for ri32 {
    #[verifier::external_body]
    fn eq(&self, other: &ri32) -> bool { unimplemented!() }
}
impl PartialOrdSpecImpl<ri32> for ri32 {
    open spec fn obeys_partial_cmp_spec() -> bool { true }
    open spec fn partial_cmp_spec(&self, other: &ri32) -> Option<Ordering> { Some(int_cmp(self.val as int, other.val as int)) }
}
impl PartialOrd<ri32> for ri32 {
    #[verifier::external_body]
    fn partial_cmp(&self, other: &ri32) -> Option<Ordering> { unimplemented!() }
}

impl PartialEqSpecImpl<Constant> for ri32 {
    open spec fn obeys_eq_spec() -> bool { true }
    open spec fn eq_spec(&self, other: &Constant) -> bool { self.val == other.0 }
}
impl PartialEq<Constant> for ri32 {
    #[verifier::external_body]
    fn eq(&self, other: &Constant) -> bool { unimplemented!() }
}
impl PartialOrdSpecImpl<Constant> for ri32 {
    open spec fn obeys_partial_cmp_spec() -> bool { true }
    open spec fn partial_cmp_spec(&self, other: &Constant) -> Option<Ordering> { Some(int_cmp(self.val as int, other.0 as int)) }
}
impl PartialOrd<Constant> for ri32 {
    #[verifier::external_body]
    fn partial_cmp(&self, other: &Constant) -> Option<Ordering> { unimplemented!() }
}

impl PartialEqSpecImpl<ri8> for ri32 {
    open spec fn obeys_eq_spec() -> bool { true }
    open spec fn eq_spec(&self, other: &ri8) -> bool { self.val == other.val }
}
impl PartialEq<ri8> for ri32 {
    #[verifier::external_body]
    fn eq(&self, other: &ri8) -> bool { unimplemented!() }
}
impl PartialOrdSpecImpl<ri8> for ri32 {
    open spec fn obeys_partial_cmp_spec() -> bool { true }
    open spec fn partial_cmp_spec(&self, other: &ri8) -> Option<Ordering> { Some(int_cmp(self.val as int, other.val as int)) }
}
impl PartialOrd<ri8> for ri32 {
    #[verifier::external_body]
    fn partial_cmp(&self, other: &ri8) -> Option<Ordering> { unimplemented!() }
}

impl PartialEqSpecImpl<ri16> for ri32 {
    open spec fn obeys_eq_spec() -> bool { true }
    open spec fn eq_spec(&self, other: &ri16) -> bool { self.val == other.val }
}
impl PartialEq<ri16> for ri32 {
    #[verifier::external_body]
    fn eq(&self, other: &ri16) -> bool { unimplemented!() }
}
impl PartialOrdSpecImpl<ri16> for ri32 {
    open spec fn obeys_partial_cmp_spec() -> bool { true }
    open spec fn partial_cmp_spec(&self, other: &ri16) -> Option<Ordering> { Some(int_cmp(self.val as int, other.val as int)) }
}
impl PartialOrd<ri16> for ri32 {
    #[verifier::external_body]
    fn partial_cmp(&self, other: &ri16) -> Option<Ordering> { unimplemented!() }
}

impl PartialEqSpecImpl<ri64> for ri32 {
    open spec fn obeys_eq_spec() -> bool { true }
    open spec fn eq_spec(&self, other: &ri64) -> bool { self.val == other.val }
}
impl PartialEq<ri64> for ri32 {
    #[verifier::external_body]
    fn eq(&self, other: &ri64) -> bool { unimplemented!() }
}
impl PartialOrdSpecImpl<ri64> for ri32 {
    open spec fn obeys_partial_cmp_spec() -> bool { true }
    open spec fn partial_cmp_spec(&self, other: &ri64) -> Option<Ordering> { Some(int_cmp(self.val as int, other.val as int)) }
}
impl PartialOrd<ri64> for ri32 {
    #[verifier::external_body]
    fn partial_cmp(&self, other: &ri64) -> Option<Ordering> { unimplemented!() }
}

impl PartialEqSpecImpl<ri128> for ri32 {
    open spec fn obeys_eq_spec() -> bool { true }
    open spec fn eq_spec(&self, other: &ri128) -> bool { self.val == other.val }
}
impl PartialEq<ri128> for ri32 {
    #[verifier::external_body]
    fn eq(&self, other: &ri128) -> bool { unimplemented!() }
}
impl PartialOrdSpecImpl<ri128> for ri32 {
    open spec fn obeys_partial_cmp_spec() -> bool { true }
    open spec fn partial_cmp_spec(&self, other: &ri128) -> Option<Ordering> { Some(int_cmp(self.val as int, other.val as int)) }
}
impl PartialOrd<ri128> for ri32 {
    #[verifier::external_body]
    fn partial_cmp(&self, other: &ri128) -> Option<Ordering> { unimplemented!() }
}

impl AddSpecImpl<ri32> for ri32 {
    open spec fn obeys_add_spec() -> bool { true }
    open spec fn add_req(self, rhs: ri32) -> bool { i32::MIN <= self.val + rhs.val <= i32::MAX }
    open spec fn add_spec(self, rhs: ri32) -> ri32 { ri32 { val: (self.val + rhs.val) as i32 } }
}
impl core::ops::Add<ri32> for ri32 {
    type Output = ri32;
    #[verifier::external_body]
    fn add(self, rhs: ri32) -> ri32 { unimplemented!() }
}
impl AddAssignSpecImpl<ri32> for ri32 {
    open spec fn obeys_add_assign_spec() -> bool { true }
    open spec fn add_assign_req(&self, rhs: ri32) -> bool { i32::MIN <= self.val + rhs.val <= i32::MAX }
    open spec fn add_assign_spec(&self, rhs: ri32) -> &ri32 { &ri32 { val: (self.val + rhs.val) as i32 } }
}
impl core::ops::AddAssign<ri32> for ri32 {
    #[verifier::external_body]
    fn add_assign(&mut self, rhs: ri32) { unimplemented!() }
}

impl SubSpecImpl<ri32> for ri32 {
    open spec fn obeys_sub_spec() -> bool { true }
    open spec fn sub_req(self, rhs: ri32) -> bool { i32::MIN <= self.val - rhs.val <= i32::MAX }
    open spec fn sub_spec(self, rhs: ri32) -> ri32 { ri32 { val: (self.val - rhs.val) as i32 } }
}
impl core::ops::Sub<ri32> for ri32 {
    type Output = ri32;
    #[verifier::external_body]
    fn sub(self, rhs: ri32) -> ri32 { unimplemented!() }
}
impl SubAssignSpecImpl<ri32> for ri32 {
    open spec fn obeys_sub_assign_spec() -> bool { true }
    open spec fn sub_assign_req(&self, rhs: ri32) -> bool { i32::MIN <= self.val - rhs.val <= i32::MAX }
    open spec fn sub_assign_spec(&self, rhs: ri32) -> &ri32 { &ri32 { val: (self.val - rhs.val) as i32 } }
}
impl core::ops::SubAssign<ri32> for ri32 {
    #[verifier::external_body]
    fn sub_assign(&mut self, rhs: ri32) { unimplemented!() }
}

impl MulSpecImpl<ri32> for ri32 {
    open spec fn obeys_mul_spec() -> bool { true }
    open spec fn mul_req(self, rhs: ri32) -> bool { i32::MIN <= self.val * rhs.val <= i32::MAX }
    open spec fn mul_spec(self, rhs: ri32) -> ri32 { ri32 { val: (self.val * rhs.val) as i32 } }
}
impl core::ops::Mul<ri32> for ri32 {
    type Output = ri32;
    #[verifier::external_body]
    fn mul(self, rhs: ri32) -> ri32 { unimplemented!() }
}
impl MulAssignSpecImpl<ri32> for ri32 {
    open spec fn obeys_mul_assign_spec() -> bool { true }
    open spec fn mul_assign_req(&self, rhs: ri32) -> bool { i32::MIN <= self.val * rhs.val <= i32::MAX }
    open spec fn mul_assign_spec(&self, rhs: ri32) -> &ri32 { &ri32 { val: (self.val * rhs.val) as i32 } }
}
impl core::ops::MulAssign<ri32> for ri32 {
    #[verifier::external_body]
    fn mul_assign(&mut self, rhs: ri32) { unimplemented!() }
}

impl DivSpecImpl<ri32> for ri32 {
    open spec fn obeys_div_spec() -> bool { true }
    open spec fn div_req(self, rhs: ri32) -> bool { rhs.val > 0 }
    open spec fn div_spec(self, rhs: ri32) -> ri32 { ri32 { val: (self.val as int / rhs.val as int) as i32 } }
}
impl core::ops::Div<ri32> for ri32 {
    type Output = ri32;
    #[verifier::external_body]
    fn div(self, rhs: ri32) -> ri32 { unimplemented!() }
}
impl RemSpecImpl<ri32> for ri32 {
    open spec fn obeys_rem_spec() -> bool { true }
    open spec fn rem_req(self, rhs: ri32) -> bool { rhs.val > 0 }
    open spec fn rem_spec(self, rhs: ri32) -> ri32 { ri32 { val: (self.val as int % rhs.val as int) as i32 } }
}
impl core::ops::Rem<ri32> for ri32 {
    type Output = ri32;
    #[verifier::external_body]
    fn rem(self, rhs: ri32) -> ri32 { unimplemented!() }
}

impl AddSpecImpl<Constant> for ri32 {
    open spec fn obeys_add_spec() -> bool { true }
    open spec fn add_req(self, rhs: Constant) -> bool { i32::MIN <= self.val + rhs.0 <= i32::MAX }
    open spec fn add_spec(self, rhs: Constant) -> ri32 { ri32 { val: (self.val + rhs.0) as i32 } }
}
impl core::ops::Add<Constant> for ri32 {
    type Output = ri32;
    #[verifier::external_body]
    fn add(self, rhs: Constant) -> ri32 { unimplemented!() }
}
impl AddAssignSpecImpl<Constant> for ri32 {
    open spec fn obeys_add_assign_spec() -> bool { true }
    open spec fn add_assign_req(&self, rhs: Constant) -> bool { i32::MIN <= self.val + rhs.0 <= i32::MAX }
    open spec fn add_assign_spec(&self, rhs: Constant) -> &ri32 { &ri32 { val: (self.val + rhs.0) as i32 } }
}
impl core::ops::AddAssign<Constant> for ri32 {
    #[verifier::external_body]
    fn add_assign(&mut self, rhs: Constant) { unimplemented!() }
}

impl SubSpecImpl<Constant> for ri32 {
    open spec fn obeys_sub_spec() -> bool { true }
    open spec fn sub_req(self, rhs: Constant) -> bool { i32::MIN <= self.val - rhs.0 <= i32::MAX }
    open spec fn sub_spec(self, rhs: Constant) -> ri32 { ri32 { val: (self.val - rhs.0) as i32 } }
}
impl core::ops::Sub<Constant> for ri32 {
    type Output = ri32;
    #[verifier::external_body]
    fn sub(self, rhs: Constant) -> ri32 { unimplemented!() }
}
impl SubAssignSpecImpl<Constant> for ri32 {
    open spec fn obeys_sub_assign_spec() -> bool { true }
    open spec fn sub_assign_req(&self, rhs: Constant) -> bool { i32::MIN <= self.val - rhs.0 <= i32::MAX }
    open spec fn sub_assign_spec(&self, rhs: Constant) -> &ri32 { &ri32 { val: (self.val - rhs.0) as i32 } }
}
impl core::ops::SubAssign<Constant> for ri32 {
    #[verifier::external_body]
    fn sub_assign(&mut self, rhs: Constant) { unimplemented!() }
}

impl MulSpecImpl<Constant> for ri32 {
    open spec fn obeys_mul_spec() -> bool { true }
    open spec fn mul_req(self, rhs: Constant) -> bool { i32::MIN <= self.val * rhs.0 <= i32::MAX }
    open spec fn mul_spec(self, rhs: Constant) -> ri32 { ri32 { val: (self.val * rhs.0) as i32 } }
}
impl core::ops::Mul<Constant> for ri32 {
    type Output = ri32;
    #[verifier::external_body]
    fn mul(self, rhs: Constant) -> ri32 { unimplemented!() }
}
impl MulAssignSpecImpl<Constant> for ri32 {
    open spec fn obeys_mul_assign_spec() -> bool { true }
    open spec fn mul_assign_req(&self, rhs: Constant) -> bool { i32::MIN <= self.val * rhs.0 <= i32::MAX }
    open spec fn mul_assign_spec(&self, rhs: Constant) -> &ri32 { &ri32 { val: (self.val * rhs.0) as i32 } }
}
impl core::ops::MulAssign<Constant> for ri32 {
    #[verifier::external_body]
    fn mul_assign(&mut self, rhs: Constant) { unimplemented!() }
}

impl DivSpecImpl<Constant> for ri32 {
    open spec fn obeys_div_spec() -> bool { true }
    open spec fn div_req(self, rhs: Constant) -> bool { rhs.0 > 0 }
    open spec fn div_spec(self, rhs: Constant) -> ri32 { ri32 { val: (self.val as int / rhs.0 as int) as i32 } }
}
impl core::ops::Div<Constant> for ri32 {
    type Output = ri32;
    #[verifier::external_body]
    fn div(self, rhs: Constant) -> ri32 { unimplemented!() }
}
impl RemSpecImpl<Constant> for ri32 {
    open spec fn obeys_rem_spec() -> bool { true }
    open spec fn rem_req(self, rhs: Constant) -> bool { rhs.0 > 0 }
    open spec fn rem_spec(self, rhs: Constant) -> ri32 { ri32 { val: (self.val as int % rhs.0 as int) as i32 } }
}
impl core::ops::Rem<Constant> for ri32 {
    type Output = ri32;
    #[verifier::external_body]
    fn rem(self, rhs: Constant) -> ri32 { unimplemented!() }
}

impl AddSpecImpl<ri8> for ri32 {
    open spec fn obeys_add_spec() -> bool { true }
    open spec fn add_req(self, rhs: ri8) -> bool { i32::MIN <= self.val + rhs.val <= i32::MAX }
    open spec fn add_spec(self, rhs: ri8) -> ri32 { ri32 { val: (self.val + rhs.val) as i32 } }
}
impl core::ops::Add<ri8> for ri32 {
    type Output = ri32;
    #[verifier::external_body]
    fn add(self, rhs: ri8) -> ri32 { unimplemented!() }
}
impl AddAssignSpecImpl<ri8> for ri32 {
    open spec fn obeys_add_assign_spec() -> bool { true }
    open spec fn add_assign_req(&self, rhs: ri8) -> bool { i32::MIN <= self.val + rhs.val <= i32::MAX }
    open spec fn add_assign_spec(&self, rhs: ri8) -> &ri32 { &ri32 { val: (self.val + rhs.val) as i32 } }
}
impl core::ops::AddAssign<ri8> for ri32 {
    #[verifier::external_body]
    fn add_assign(&mut self, rhs: ri8) { unimplemented!() }
}

impl SubSpecImpl<ri8> for ri32 {
    open spec fn obeys_sub_spec() -> bool { true }
    open spec fn sub_req(self, rhs: ri8) -> bool { i32::MIN <= self.val - rhs.val <= i32::MAX }
    open spec fn sub_spec(self, rhs: ri8) -> ri32 { ri32 { val: (self.val - rhs.val) as i32 } }
}
impl core::ops::Sub<ri8> for ri32 {
    type Output = ri32;
    #[verifier::external_body]
    fn sub(self, rhs: ri8) -> ri32 { unimplemented!() }
}
impl SubAssignSpecImpl<ri8> for ri32 {
    open spec fn obeys_sub_assign_spec() -> bool { true }
    open spec fn sub_assign_req(&self, rhs: ri8) -> bool { i32::MIN <= self.val - rhs.val <= i32::MAX }
    open spec fn sub_assign_spec(&self, rhs: ri8) -> &ri32 { &ri32 { val: (self.val - rhs.val) as i32 } }
}
impl core::ops::SubAssign<ri8> for ri32 {
    #[verifier::external_body]
    fn sub_assign(&mut self, rhs: ri8) { unimplemented!() }
}

impl MulSpecImpl<ri8> for ri32 {
    open spec fn obeys_mul_spec() -> bool { true }
    open spec fn mul_req(self, rhs: ri8) -> bool { i32::MIN <= self.val * rhs.val <= i32::MAX }
    open spec fn mul_spec(self, rhs: ri8) -> ri32 { ri32 { val: (self.val * rhs.val) as i32 } }
}
impl core::ops::Mul<ri8> for ri32 {
    type Output = ri32;
    #[verifier::external_body]
    fn mul(self, rhs: ri8) -> ri32 { unimplemented!() }
}
impl MulAssignSpecImpl<ri8> for ri32 {
    open spec fn obeys_mul_assign_spec() -> bool { true }
    open spec fn mul_assign_req(&self, rhs: ri8) -> bool { i32::MIN <= self.val * rhs.val <= i32::MAX }
    open spec fn mul_assign_spec(&self, rhs: ri8) -> &ri32 { &ri32 { val: (self.val * rhs.val) as i32 } }
}
impl core::ops::MulAssign<ri8> for ri32 {
    #[verifier::external_body]
    fn mul_assign(&mut self, rhs: ri8) { unimplemented!() }
}

impl DivSpecImpl<ri8> for ri32 {
    open spec fn obeys_div_spec() -> bool { true }
    open spec fn div_req(self, rhs: ri8) -> bool { rhs.val > 0 }
    open spec fn div_spec(self, rhs: ri8) -> ri32 { ri32 { val: (self.val as int / rhs.val as int) as i32 } }
}
impl core::ops::Div<ri8> for ri32 {
    type Output = ri32;
    #[verifier::external_body]
    fn div(self, rhs: ri8) -> ri32 { unimplemented!() }
}
impl RemSpecImpl<ri8> for ri32 {
    open spec fn obeys_rem_spec() -> bool { true }
    open spec fn rem_req(self, rhs: ri8) -> bool { rhs.val > 0 }
    open spec fn rem_spec(self, rhs: ri8) -> ri32 { ri32 { val: (self.val as int % rhs.val as int) as i32 } }
}
impl core::ops::Rem<ri8> for ri32 {
    type Output = ri32;
    #[verifier::external_body]
    fn rem(self, rhs: ri8) -> ri32 { unimplemented!() }
}

impl AddSpecImpl<ri16> for ri32 {
    open spec fn obeys_add_spec() -> bool { true }
    open spec fn add_req(self, rhs: ri16) -> bool { i32::MIN <= self.val + rhs.val <= i32::MAX }
    open spec fn add_spec(self, rhs: ri16) -> ri32 { ri32 { val: (self.val + rhs.val) as i32 } }
}
impl core::ops::Add<ri16> for ri32 {
    type Output = ri32;
    #[verifier::external_body]
    fn add(self, rhs: ri16) -> ri32 { unimplemented!() }
}
impl AddAssignSpecImpl<ri16> for ri32 {
    open spec fn obeys_add_assign_spec() -> bool { true }
    open spec fn add_assign_req(&self, rhs: ri16) -> bool { i32::MIN <= self.val + rhs.val <= i32::MAX }
    open spec fn add_assign_spec(&self, rhs: ri16) -> &ri32 { &ri32 { val: (self.val + rhs.val) as i32 } }
}
impl core::ops::AddAssign<ri16> for ri32 {
    #[verifier::external_body]
    fn add_assign(&mut self, rhs: ri16) { unimplemented!() }
}

impl SubSpecImpl<ri16> for ri32 {
    open spec fn obeys_sub_spec() -> bool { true }
    open spec fn sub_req(self, rhs: ri16) -> bool { i32::MIN <= self.val - rhs.val <= i32::MAX }
    open spec fn sub_spec(self, rhs: ri16) -> ri32 { ri32 { val: (self.val - rhs.val) as i32 } }
}
impl core::ops::Sub<ri16> for ri32 {
    type Output = ri32;
    #[verifier::external_body]
    fn sub(self, rhs: ri16) -> ri32 { unimplemented!() }
}
impl SubAssignSpecImpl<ri16> for ri32 {
    open spec fn obeys_sub_assign_spec() -> bool { true }
    open spec fn sub_assign_req(&self, rhs: ri16) -> bool { i32::MIN <= self.val - rhs.val <= i32::MAX }
    open spec fn sub_assign_spec(&self, rhs: ri16) -> &ri32 { &ri32 { val: (self.val - rhs.val) as i32 } }
}
impl core::ops::SubAssign<ri16> for ri32 {
    #[verifier::external_body]
    fn sub_assign(&mut self, rhs: ri16) { unimplemented!() }
}

impl MulSpecImpl<ri16> for ri32 {
    open spec fn obeys_mul_spec() -> bool { true }
    open spec fn mul_req(self, rhs: ri16) -> bool { i32::MIN <= self.val * rhs.val <= i32::MAX }
    open spec fn mul_spec(self, rhs: ri16) -> ri32 { ri32 { val: (self.val * rhs.val) as i32 } }
}
impl core::ops::Mul<ri16> for ri32 {
    type Output = ri32;
    #[verifier::external_body]
    fn mul(self, rhs: ri16) -> ri32 { unimplemented!() }
}
impl MulAssignSpecImpl<ri16> for ri32 {
    open spec fn obeys_mul_assign_spec() -> bool { true }
    open spec fn mul_assign_req(&self, rhs: ri16) -> bool { i32::MIN <= self.val * rhs.val <= i32::MAX }
    open spec fn mul_assign_spec(&self, rhs: ri16) -> &ri32 { &ri32 { val: (self.val * rhs.val) as i32 } }
}
impl core::ops::MulAssign<ri16> for ri32 {
    #[verifier::external_body]
    fn mul_assign(&mut self, rhs: ri16) { unimplemented!() }
}

impl DivSpecImpl<ri16> for ri32 {
    open spec fn obeys_div_spec() -> bool { true }
    open spec fn div_req(self, rhs: ri16) -> bool { rhs.val > 0 }
    open spec fn div_spec(self, rhs: ri16) -> ri32 { ri32 { val: (self.val as int / rhs.val as int) as i32 } }
}
impl core::ops::Div<ri16> for ri32 {
    type Output = ri32;
    #[verifier::external_body]
    fn div(self, rhs: ri16) -> ri32 { unimplemented!() }
}
impl RemSpecImpl<ri16> for ri32 {
    open spec fn obeys_rem_spec() -> bool { true }
    open spec fn rem_req(self, rhs: ri16) -> bool { rhs.val > 0 }
    open spec fn rem_spec(self, rhs: ri16) -> ri32 { ri32 { val: (self.val as int % rhs.val as int) as i32 } }
}
impl core::ops::Rem<ri16> for ri32 {
    type Output = ri32;
    #[verifier::external_body]
    fn rem(self, rhs: ri16) -> ri32 { unimplemented!() }
}

impl AddSpecImpl<ri64> for ri32 {
    open spec fn obeys_add_spec() -> bool { true }
    open spec fn add_req(self, rhs: ri64) -> bool { i32::MIN <= self.val + rhs.val <= i32::MAX }
    open spec fn add_spec(self, rhs: ri64) -> ri32 { ri32 { val: (self.val + rhs.val) as i32 } }
}
impl core::ops::Add<ri64> for ri32 {
    type Output = ri32;
    #[verifier::external_body]
    fn add(self, rhs: ri64) -> ri32 { unimplemented!() }
}
impl AddAssignSpecImpl<ri64> for ri32 {
    open spec fn obeys_add_assign_spec() -> bool { true }
    open spec fn add_assign_req(&self, rhs: ri64) -> bool { i32::MIN <= self.val + rhs.val <= i32::MAX }
    open spec fn add_assign_spec(&self, rhs: ri64) -> &ri32 { &ri32 { val: (self.val + rhs.val) as i32 } }
}
impl core::ops::AddAssign<ri64> for ri32 {
    #[verifier::external_body]
    fn add_assign(&mut self, rhs: ri64) { unimplemented!() }
}

impl SubSpecImpl<ri64> for ri32 {
    open spec fn obeys_sub_spec() -> bool { true }
    open spec fn sub_req(self, rhs: ri64) -> bool { i32::MIN <= self.val - rhs.val <= i32::MAX }
    open spec fn sub_spec(self, rhs: ri64) -> ri32 { ri32 { val: (self.val - rhs.val) as i32 } }
}
impl core::ops::Sub<ri64> for ri32 {
    type Output = ri32;
    #[verifier::external_body]
    fn sub(self, rhs: ri64) -> ri32 { unimplemented!() }
}
impl SubAssignSpecImpl<ri64> for ri32 {
    open spec fn obeys_sub_assign_spec() -> bool { true }
    open spec fn sub_assign_req(&self, rhs: ri64) -> bool { i32::MIN <= self.val - rhs.val <= i32::MAX }
    open spec fn sub_assign_spec(&self, rhs: ri64) -> &ri32 { &ri32 { val: (self.val - rhs.val) as i32 } }
}
impl core::ops::SubAssign<ri64> for ri32 {
    #[verifier::external_body]
    fn sub_assign(&mut self, rhs: ri64) { unimplemented!() }
}

impl MulSpecImpl<ri64> for ri32 {
    open spec fn obeys_mul_spec() -> bool { true }
    open spec fn mul_req(self, rhs: ri64) -> bool { i32::MIN <= self.val * rhs.val <= i32::MAX }
    open spec fn mul_spec(self, rhs: ri64) -> ri32 { ri32 { val: (self.val * rhs.val) as i32 } }
}
impl core::ops::Mul<ri64> for ri32 {
    type Output = ri32;
    #[verifier::external_body]
    fn mul(self, rhs: ri64) -> ri32 { unimplemented!() }
}
impl MulAssignSpecImpl<ri64> for ri32 {
    open spec fn obeys_mul_assign_spec() -> bool { true }
    open spec fn mul_assign_req(&self, rhs: ri64) -> bool { i32::MIN <= self.val * rhs.val <= i32::MAX }
    open spec fn mul_assign_spec(&self, rhs: ri64) -> &ri32 { &ri32 { val: (self.val * rhs.val) as i32 } }
}
impl core::ops::MulAssign<ri64> for ri32 {
    #[verifier::external_body]
    fn mul_assign(&mut self, rhs: ri64) { unimplemented!() }
}

impl DivSpecImpl<ri64> for ri32 {
    open spec fn obeys_div_spec() -> bool { true }
    open spec fn div_req(self, rhs: ri64) -> bool { rhs.val > 0 }
    open spec fn div_spec(self, rhs: ri64) -> ri32 { ri32 { val: (self.val as int / rhs.val as int) as i32 } }
}
impl core::ops::Div<ri64> for ri32 {
    type Output = ri32;
    #[verifier::external_body]
    fn div(self, rhs: ri64) -> ri32 { unimplemented!() }
}
impl RemSpecImpl<ri64> for ri32 {
    open spec fn obeys_rem_spec() -> bool { true }
    open spec fn rem_req(self, rhs: ri64) -> bool { rhs.val > 0 }
    open spec fn rem_spec(self, rhs: ri64) -> ri32 { ri32 { val: (self.val as int % rhs.val as int) as i32 } }
}
impl core::ops::Rem<ri64> for ri32 {
    type Output = ri32;
    #[verifier::external_body]
    fn rem(self, rhs: ri64) -> ri32 { unimplemented!() }
}

impl AddSpecImpl<ri128> for ri32 {
    open spec fn obeys_add_spec() -> bool { true }
    open spec fn add_req(self, rhs: ri128) -> bool { i32::MIN <= self.val + rhs.val <= i32::MAX }
    open spec fn add_spec(self, rhs: ri128) -> ri32 { ri32 { val: (self.val + rhs.val) as i32 } }
}
impl core::ops::Add<ri128> for ri32 {
    type Output = ri32;
    #[verifier::external_body]
    fn add(self, rhs: ri128) -> ri32 { unimplemented!() }
}
impl AddAssignSpecImpl<ri128> for ri32 {
    open spec fn obeys_add_assign_spec() -> bool { true }
    open spec fn add_assign_req(&self, rhs: ri128) -> bool { i32::MIN <= self.val + rhs.val <= i32::MAX }
    open spec fn add_assign_spec(&self, rhs: ri128) -> &ri32 { &ri32 { val: (self.val + rhs.val) as i32 } }
}
impl core::ops::AddAssign<ri128> for ri32 {
    #[verifier::external_body]
    fn add_assign(&mut self, rhs: ri128) { unimplemented!() }
}

impl SubSpecImpl<ri128> for ri32 {
    open spec fn obeys_sub_spec() -> bool { true }
    open spec fn sub_req(self, rhs: ri128) -> bool { i32::MIN <= self.val - rhs.val <= i32::MAX }
    open spec fn sub_spec(self, rhs: ri128) -> ri32 { ri32 { val: (self.val - rhs.val) as i32 } }
}
impl core::ops::Sub<ri128> for ri32 {
    type Output = ri32;
    #[verifier::external_body]
    fn sub(self, rhs: ri128) -> ri32 { unimplemented!() }
}
impl SubAssignSpecImpl<ri128> for ri32 {
    open spec fn obeys_sub_assign_spec() -> bool { true }
    open spec fn sub_assign_req(&self, rhs: ri128) -> bool { i32::MIN <= self.val - rhs.val <= i32::MAX }
    open spec fn sub_assign_spec(&self, rhs: ri128) -> &ri32 { &ri32 { val: (self.val - rhs.val) as i32 } }
}
impl core::ops::SubAssign<ri128> for ri32 {
    #[verifier::external_body]
    fn sub_assign(&mut self, rhs: ri128) { unimplemented!() }
}

impl MulSpecImpl<ri128> for ri32 {
    open spec fn obeys_mul_spec() -> bool { true }
    open spec fn mul_req(self, rhs: ri128) -> bool { i32::MIN <= self.val * rhs.val <= i32::MAX }
    open spec fn mul_spec(self, rhs: ri128) -> ri32 { ri32 { val: (self.val * rhs.val) as i32 } }
}
impl core::ops::Mul<ri128> for ri32 {
    type Output = ri32;
    #[verifier::external_body]
    fn mul(self, rhs: ri128) -> ri32 { unimplemented!() }
}
impl MulAssignSpecImpl<ri128> for ri32 {
    open spec fn obeys_mul_assign_spec() -> bool { true }
    open spec fn mul_assign_req(&self, rhs: ri128) -> bool { i32::MIN <= self.val * rhs.val <= i32::MAX }
    open spec fn mul_assign_spec(&self, rhs: ri128) -> &ri32 { &ri32 { val: (self.val * rhs.val) as i32 } }
}
impl core::ops::MulAssign<ri128> for ri32 {
    #[verifier::external_body]
    fn mul_assign(&mut self, rhs: ri128) { unimplemented!() }
}

impl DivSpecImpl<ri128> for ri32 {
    open spec fn obeys_div_spec() -> bool { true }
    open spec fn div_req(self, rhs: ri128) -> bool { rhs.val > 0 }
    open spec fn div_spec(self, rhs: ri128) -> ri32 { ri32 { val: (self.val as int / rhs.val as int) as i32 } }
}
impl core::ops::Div<ri128> for ri32 {
    type Output = ri32;
    #[verifier::external_body]
    fn div(self, rhs: ri128) -> ri32 { unimplemented!() }
}
impl RemSpecImpl<ri128> for ri32 {
    open spec fn obeys_rem_spec() -> bool { true }
    open spec fn rem_req(self, rhs: ri128) -> bool { rhs.val > 0 }
    open spec fn rem_spec(self, rhs: ri128) -> ri32 { ri32 { val: (self.val as int % rhs.val as int) as i32 } }
}
impl core::ops::Rem<ri128> for ri32 {
    type Output = ri32;
    #[verifier::external_body]
    fn rem(self, rhs: ri128) -> ri32 { unimplemented!() }
}

impl NegSpecImpl for ri32 {
    open spec fn obeys_neg_spec() -> bool { true }
    open spec fn neg_req(self) -> bool { self.val > i32::MIN }
    open spec fn neg_spec(self) -> ri32 { ri32 { val: (-self.val) as i32 } }
}
impl core::ops::Neg for ri32 {
    type Output = ri32;
    #[verifier::external_body]
    fn neg(self) -> ri32 { unimplemented!() }
}


// ------------------------------------------------------------------ ri64
#[derive(Clone, Copy)]
pub struct ri64 { pub val: i64 }
impl ri64 {
    pub fn new_unchecked(val: i64) -> (r: Self) ensures r.val == val { ri64 { val } }
    pub fn get(self) -> (r: i64) ensures r == self.val { self.val }
    pub fn get_unchecked(self) -> (r: i64) ensures r == self.val { self.val }
    pub fn without_bounds(self) -> (r: Self) ensures r == self { self }
    // `T::N::<VAL>()` is rewritten to `T::verif_N(VAL)`: the constant VAL (release: `Self { val: VAL }`, no bound is consulted).
    // (Not modelled with a const generic: Verus 0.2026.09.13 derives `false` from a negative const generic argument.)
    pub const fn verif_N(v: i64) -> (r: Self) ensures r.val == v { ri64 { val: v } }
    #[verifier::external_body]
    pub fn abs(self) -> (r: Self)
        requires self.val > i64::MIN,
        ensures r.val == (if self.val < 0 { -self.val } else { self.val as int })
    { unimplemented!() }
    // real: returns `riN<-1, 1>` of the SAME width
    pub fn signum(self) -> (r: Self) ensures r.val == (if self.val < 0 { -1int } else if self.val > 0 { 1int } else { 0int })
    { if self.val < 0 { ri64 { val: -1 } } else if self.val > 0 { ri64 { val: 1 } } else { ri64 { val: 0 } } }
    pub fn min<R: RInto<Self>>(self, other: R) -> (r: Self)
        requires other.rinto_req(),
        ensures r.val == (if other.rinto_spec().val < self.val { other.rinto_spec().val } else { self.val })
    { let o = other.rinto(); if o.val < self.val { o } else { self } }
    pub fn max<R: RInto<Self>>(self, other: R) -> (r: Self)
        requires other.rinto_req(),
        ensures r.val == (if other.rinto_spec().val > self.val { other.rinto_spec().val } else { self.val })
    { let o = other.rinto(); if o.val > self.val { o } else { self } }
    // truncating
    #[verifier::external_body]
    pub fn div_ceil<R: RInto<Self>>(self, rhs: R) -> (r: Self)
        requires rhs.rinto_req(), rhs.rinto_spec().val != 0, !(self.val == i64::MIN && rhs.rinto_spec().val == -1),
        ensures r.val == tdiv(self.val as int, rhs.rinto_spec().val as int)
    { unimplemented!() }
    #[verifier::external_body]
    pub fn rem_ceil<R: RInto<Self>>(self, rhs: R) -> (r: Self)
        requires rhs.rinto_req(), rhs.rinto_spec().val != 0, !(self.val == i64::MIN && rhs.rinto_spec().val == -1),
        ensures r.val == trem(self.val as int, rhs.rinto_spec().val as int)
    { unimplemented!() }
    // Euclidean (divisor > 0 required here; every use in jiff divides by a positive quantity)
    #[verifier::external_body]
    pub fn div_floor<R: RInto<Self>>(self, rhs: R) -> (r: Self)
        requires rhs.rinto_req(), rhs.rinto_spec().val > 0,
        ensures r.val == (self.val as int) / (rhs.rinto_spec().val as int)
    { unimplemented!() }
    #[verifier::external_body]
    pub fn rem_floor<R: RInto<Self>>(self, rhs: R) -> (r: Self)
        requires rhs.rinto_req(), rhs.rinto_spec().val > 0,
        ensures r.val == (self.val as int) % (rhs.rinto_spec().val as int)
    { unimplemented!() }
    #[verifier::external_body]
    pub fn saturating_mul<R: RInto<Self>>(self, rhs: R) -> (r: Self)
        requires rhs.rinto_req(),
        ensures i64::MIN <= self.val * rhs.rinto_spec().val <= i64::MAX ==> r.val == self.val * rhs.rinto_spec().val,
                self.val * rhs.rinto_spec().val > i64::MAX ==> r.val == i64::MAX,
                self.val * rhs.rinto_spec().val < i64::MIN ==> r.val == i64::MIN,
    { unimplemented!() }
    #[verifier::external_body]
    pub fn saturating_add<R: RInto<Self>>(self, rhs: R) -> (r: Self)
        requires rhs.rinto_req(),
        ensures i64::MIN <= self.val + rhs.rinto_spec().val <= i64::MAX ==> r.val == self.val + rhs.rinto_spec().val,
                self.val + rhs.rinto_spec().val > i64::MAX ==> r.val == i64::MAX,
                self.val + rhs.rinto_spec().val < i64::MIN ==> r.val == i64::MIN,
    { unimplemented!() }
}
// `type Range = ri64<{ LO }, { HI }>; Range::try_new("what", v)`: the bounds of an anonymous range are passed explicitly
#[verifier::external_body]
pub fn verif_try_new_range_64(lo: i128, hi: i128, v: i64) -> (res: Result<ri64, Error>)
    requires i64::MIN <= lo, hi <= i64::MAX,
    ensures res.is_ok() <==> lo <= v <= hi, res.is_ok() ==> res.unwrap().val == v
{ unimplemented!() }
impl RInto<ri64> for ri64 {
    open spec fn rinto_spec(self) -> ri64 { self }
    open spec fn rinto_req(self) -> bool { true }
    fn rinto(self) -> (r: ri64) { self }
}
impl RFrom<ri64> for ri64 {
    open spec fn rfrom_spec(t: ri64) -> ri64 { t }
    open spec fn rfrom_req(t: ri64) -> bool { true }
    fn rfrom(t: ri64) -> (r: ri64) { t }
}
impl RInto<ri64> for Constant {
    open spec fn rinto_spec(self) -> ri64 { ri64 { val: self.0 as i64 } }
    open spec fn rinto_req(self) -> bool { i64::MIN <= self.0 <= i64::MAX }
    #[verifier::external_body]
    fn rinto(self) -> (r: ri64) { unimplemented!() }
}
impl RFrom<Constant> for ri64 {
    open spec fn rfrom_spec(t: Constant) -> ri64 { ri64 { val: t.0 as i64 } }
    open spec fn rfrom_req(t: Constant) -> bool { i64::MIN <= t.0 <= i64::MAX }
    #[verifier::external_body]
    fn rfrom(t: Constant) -> (r: ri64) { unimplemented!() }
}
impl RInto<i64> for ri64 {
    open spec fn rinto_spec(self) -> i64 { self.val }
    open spec fn rinto_req(self) -> bool { true }
    fn rinto(self) -> (r: i64) { self.val }
}

impl PartialEqSpecImpl<ri64> for ri64 {
    open spec fn obeys_eq_spec() -> bool { true }
    open spec fn eq_spec(&self, other: &ri64) -> bool { self.val == other.val }
}
impl PartialEq<ri64> for ri64 {
    #[verifier::external_body]
    fn eq(&self, other: &ri64) -> bool { unimplemented!() }
}
impl PartialOrdSpecImpl<ri64> for ri64 {
    open spec fn obeys_partial_cmp_spec() -> bool { true }
    open spec fn partial_cmp_spec(&self, other: &ri64) -> Option<Ordering> { Some(int_cmp(self.val as int, other.val as int)) }
}
impl PartialOrd<ri64> for ri64 {
    #[verifier::external_body]
    fn partial_cmp(&self, other: &ri64) -> Option<Ordering> { unimplemented!() }
}

impl PartialEqSpecImpl<Constant> for ri64 {
    open spec fn obeys_eq_spec() -> bool { true }
    open spec fn eq_spec(&self, other: &Constant) -> bool { self.val == other.0 }
}
impl PartialEq<Constant> for ri64 {
    #[verifier::external_body]
    fn eq(&self, other: &Constant) -> bool { unimplemented!() }
}
impl PartialOrdSpecImpl<Constant> for ri64 {
    open spec fn obeys_partial_cmp_spec() -> bool { true }
    open spec fn partial_cmp_spec(&self, other: &Constant) -> Option<Ordering> { Some(int_cmp(self.val as int, other.0 as int)) }
}
impl PartialOrd<Constant> for ri64 {
    #[verifier::external_body]
    fn partial_cmp(&self, other: &Constant) -> Option<Ordering> { unimplemented!() }
}

impl PartialEqSpecImpl<ri8> for ri64 {
    open spec fn obeys_eq_spec() -> bool { true }
    open spec fn eq_spec(&self, other: &ri8) -> bool { self.val == other.val }
}
impl PartialEq<ri8> for ri64 {
    #[verifier::external_body]
    fn eq(&self, other: &ri8) -> bool { unimplemented!() }
}
impl PartialOrdSpecImpl<ri8> for ri64 {
    open spec fn obeys_partial_cmp_spec() -> bool { true }
    open spec fn partial_cmp_spec(&self, other: &ri8) -> Option<Ordering> { Some(int_cmp(self.val as int, other.val as int)) }
}
impl PartialOrd<ri8> for ri64 {
    #[verifier::external_body]
    fn partial_cmp(&self, other: &ri8) -> Option<Ordering> { unimplemented!() }
}

impl PartialEqSpecImpl<ri16> for ri64 {
    open spec fn obeys_eq_spec() -> bool { true }
    open spec fn eq_spec(&self, other: &ri16) -> bool { self.val == other.val }
}
impl PartialEq<ri16> for ri64 {
    #[verifier::external_body]
    fn eq(&self, other: &ri16) -> bool { unimplemented!() }
}
impl PartialOrdSpecImpl<ri16> for ri64 {
    open spec fn obeys_partial_cmp_spec() -> bool { true }
    open spec fn partial_cmp_spec(&self, other: &ri16) -> Option<Ordering> { Some(int_cmp(self.val as int, other.val as int)) }
}
impl PartialOrd<ri16> for ri64 {
    #[verifier::external_body]
    fn partial_cmp(&self, other: &ri16) -> Option<Ordering> { unimplemented!() }
}

impl PartialEqSpecImpl<ri32> for ri64 {
    open spec fn obeys_eq_spec() -> bool { true }
    open spec fn eq_spec(&self, other: &ri32) -> bool { self.val == other.val }
}
impl PartialEq<ri32> for ri64 {
    #[verifier::external_body]
    fn eq(&self, other: &ri32) -> bool { unimplemented!() }
}
impl PartialOrdSpecImpl<ri32> for ri64 {
    open spec fn obeys_partial_cmp_spec() -> bool { true }
    open spec fn partial_cmp_spec(&self, other: &ri32) -> Option<Ordering> { Some(int_cmp(self.val as int, other.val as int)) }
}
impl PartialOrd<ri32> for ri64 {
    #[verifier::external_body]
    fn partial_cmp(&self, other: &ri32) -> Option<Ordering> { unimplemented!() }
}

impl PartialEqSpecImpl<ri128> for ri64 {
    open spec fn obeys_eq_spec() -> bool { true }
    open spec fn eq_spec(&self, other: &ri128) -> bool { self.val == other.val }
}
impl PartialEq<ri128> for ri64 {
    #[verifier::external_body]
    fn eq(&self, other: &ri128) -> bool { unimplemented!() }
}
impl PartialOrdSpecImpl<ri128> for ri64 {
    open spec fn obeys_partial_cmp_spec() -> bool { true }
    open spec fn partial_cmp_spec(&self, other: &ri128) -> Option<Ordering> { Some(int_cmp(self.val as int, other.val as int)) }
}
impl PartialOrd<ri128> for ri64 {
    #[verifier::external_body]
    fn partial_cmp(&self, other: &ri128) -> Option<Ordering> { unimplemented!() }
}

impl AddSpecImpl<ri64> for ri64 {
    open spec fn obeys_add_spec() -> bool { true }
    open spec fn add_req(self, rhs: ri64) -> bool { i64::MIN <= self.val + rhs.val <= i64::MAX }
    open spec fn add_spec(self, rhs: ri64) -> ri64 { ri64 { val: (self.val + rhs.val) as i64 } }
}
impl core::ops::Add<ri64> for ri64 {
    type Output = ri64;
    #[verifier::external_body]
    fn add(self, rhs: ri64) -> ri64 { unimplemented!() }
}
impl AddAssignSpecImpl<ri64> for ri64 {
    open spec fn obeys_add_assign_spec() -> bool { true }
    open spec fn add_assign_req(&self, rhs: ri64) -> bool { i64::MIN <= self.val + rhs.val <= i64::MAX }
    open spec fn add_assign_spec(&self, rhs: ri64) -> &ri64 { &ri64 { val: (self.val + rhs.val) as i64 } }
}
impl core::ops::AddAssign<ri64> for ri64 {
    #[verifier::external_body]
    fn add_assign(&mut self, rhs: ri64) { unimplemented!() }
}

impl SubSpecImpl<ri64> for ri64 {
    open spec fn obeys_sub_spec() -> bool { true }
    open spec fn sub_req(self, rhs: ri64) -> bool { i64::MIN <= self.val - rhs.val <= i64::MAX }
    open spec fn sub_spec(self, rhs: ri64) -> ri64 { ri64 { val: (self.val - rhs.val) as i64 } }
}
impl core::ops::Sub<ri64> for ri64 {
    type Output = ri64;
    #[verifier::external_body]
    fn sub(self, rhs: ri64) -> ri64 { unimplemented!() }
}
impl SubAssignSpecImpl<ri64> for ri64 {
    open spec fn obeys_sub_assign_spec() -> bool { true }
    open spec fn sub_assign_req(&self, rhs: ri64) -> bool { i64::MIN <= self.val - rhs.val <= i64::MAX }
    open spec fn sub_assign_spec(&self, rhs: ri64) -> &ri64 { &ri64 { val: (self.val - rhs.val) as i64 } }
}
impl core::ops::SubAssign<ri64> for ri64 {
    #[verifier::external_body]
    fn sub_assign(&mut self, rhs: ri64) { unimplemented!() }
}

impl MulSpecImpl<ri64> for ri64 {
    open spec fn obeys_mul_spec() -> bool { true }
    open spec fn mul_req(self, rhs: ri64) -> bool { i64::MIN <= self.val * rhs.val <= i64::MAX }
    open spec fn mul_spec(self, rhs: ri64) -> ri64 { ri64 { val: (self.val * rhs.val) as i64 } }
}
impl core::ops::Mul<ri64> for ri64 {
    type Output = ri64;
    #[verifier::external_body]
    fn mul(self, rhs: ri64) -> ri64 { unimplemented!() }
}
impl MulAssignSpecImpl<ri64> for ri64 {
    open spec fn obeys_mul_assign_spec() -> bool { true }
    open spec fn mul_assign_req(&self, rhs: ri64) -> bool { i64::MIN <= self.val * rhs.val <= i64::MAX }
    open spec fn mul_assign_spec(&self, rhs: ri64) -> &ri64 { &ri64 { val: (self.val * rhs.val) as i64 } }
}
impl core::ops::MulAssign<ri64> for ri64 {
    #[verifier::external_body]
    fn mul_assign(&mut self, rhs: ri64) { unimplemented!() }
}

impl DivSpecImpl<ri64> for ri64 {
    open spec fn obeys_div_spec() -> bool { true }
    open spec fn div_req(self, rhs: ri64) -> bool { rhs.val > 0 }
    open spec fn div_spec(self, rhs: ri64) -> ri64 { ri64 { val: (self.val as int / rhs.val as int) as i64 } }
}
impl core::ops::Div<ri64> for ri64 {
    type Output = ri64;
    #[verifier::external_body]
    fn div(self, rhs: ri64) -> ri64 { unimplemented!() }
}
impl RemSpecImpl<ri64> for ri64 {
    open spec fn obeys_rem_spec() -> bool { true }
    open spec fn rem_req(self, rhs: ri64) -> bool { rhs.val > 0 }
    open spec fn rem_spec(self, rhs: ri64) -> ri64 { ri64 { val: (self.val as int % rhs.val as int) as i64 } }
}
impl core::ops::Rem<ri64> for ri64 {
    type Output = ri64;
    #[verifier::external_body]
    fn rem(self, rhs: ri64) -> ri64 { unimplemented!() }
}

impl AddSpecImpl<Constant> for ri64 {
    open spec fn obeys_add_spec() -> bool { true }
    open spec fn add_req(self, rhs: Constant) -> bool { i64::MIN <= self.val + rhs.0 <= i64::MAX }
    open spec fn add_spec(self, rhs: Constant) -> ri64 { ri64 { val: (self.val + rhs.0) as i64 } }
}
impl core::ops::Add<Constant> for ri64 {
    type Output = ri64;
    #[verifier::external_body]
    fn add(self, rhs: Constant) -> ri64 { unimplemented!() }
}
impl AddAssignSpecImpl<Constant> for ri64 {
    open spec fn obeys_add_assign_spec() -> bool { true }
    open spec fn add_assign_req(&self, rhs: Constant) -> bool { i64::MIN <= self.val + rhs.0 <= i64::MAX }
    open spec fn add_assign_spec(&self, rhs: Constant) -> &ri64 { &ri64 { val: (self.val + rhs.0) as i64 } }
}
impl core::ops::AddAssign<Constant> for ri64 {
    #[verifier::external_body]
    fn add_assign(&mut self, rhs: Constant) { unimplemented!() }
}

impl SubSpecImpl<Constant> for ri64 {
    open spec fn obeys_sub_spec() -> bool { true }
    open spec fn sub_req(self, rhs: Constant) -> bool { i64::MIN <= self.val - rhs.0 <= i64::MAX }
    open spec fn sub_spec(self, rhs: Constant) -> ri64 { ri64 { val: (self.val - rhs.0) as i64 } }
}
impl core::ops::Sub<Constant> for ri64 {
    type Output = ri64;
    #[verifier::external_body]
    fn sub(self, rhs: Constant) -> ri64 { unimplemented!() }
}
impl SubAssignSpecImpl<Constant> for ri64 {
    open spec fn obeys_sub_assign_spec() -> bool { true }
    open spec fn sub_assign_req(&self, rhs: Constant) -> bool { i64::MIN <= self.val - rhs.0 <= i64::MAX }
    open spec fn sub_assign_spec(&self, rhs: Constant) -> &ri64 { &ri64 { val: (self.val - rhs.0) as i64 } }
}
impl core::ops::SubAssign<Constant> for ri64 {
    #[verifier::external_body]
    fn sub_assign(&mut self, rhs: Constant) { unimplemented!() }
}

impl MulSpecImpl<Constant> for ri64 {
    open spec fn obeys_mul_spec() -> bool { true }
    open spec fn mul_req(self, rhs: Constant) -> bool { i64::MIN <= self.val * rhs.0 <= i64::MAX }
    open spec fn mul_spec(self, rhs: Constant) -> ri64 { ri64 { val: (self.val * rhs.0) as i64 } }
}
impl core::ops::Mul<Constant> for ri64 {
    type Output = ri64;
    #[verifier::external_body]
    fn mul(self, rhs: Constant) -> ri64 { unimplemented!() }
}
impl MulAssignSpecImpl<Constant> for ri64 {
    open spec fn obeys_mul_assign_spec() -> bool { true }
    open spec fn mul_assign_req(&self, rhs: Constant) -> bool { i64::MIN <= self.val * rhs.0 <= i64::MAX }
    open spec fn mul_assign_spec(&self, rhs: Constant) -> &ri64 { &ri64 { val: (self.val * rhs.0) as i64 } }
}
impl core::ops::MulAssign<Constant> for ri64 {
    #[verifier::external_body]
    fn mul_assign(&mut self, rhs: Constant) { unimplemented!() }
}

impl DivSpecImpl<Constant> for ri64 {
    open spec fn obeys_div_spec() -> bool { true }
    open spec fn div_req(self, rhs: Constant) -> bool { rhs.0 > 0 }
    open spec fn div_spec(self, rhs: Constant) -> ri64 { ri64 { val: (self.val as int / rhs.0 as int) as i64 } }
}
impl core::ops::Div<Constant> for ri64 {
    type Output = ri64;
    #[verifier::external_body]
    fn div(self, rhs: Constant) -> ri64 { unimplemented!() }
}
impl RemSpecImpl<Constant> for ri64 {
    open spec fn obeys_rem_spec() -> bool { true }
    open spec fn rem_req(self, rhs: Constant) -> bool { rhs.0 > 0 }
    open spec fn rem_spec(self, rhs: Constant) -> ri64 { ri64 { val: (self.val as int % rhs.0 as int) as i64 } }
}
impl core::ops::Rem<Constant> for ri64 {
    type Output = ri64;
    #[verifier::external_body]
    fn rem(self, rhs: Constant) -> ri64 { unimplemented!() }
}

impl AddSpecImpl<ri8> for ri64 {
    open spec fn obeys_add_spec() -> bool { true }
    open spec fn add_req(self, rhs: ri8) -> bool { i64::MIN <= self.val + rhs.val <= i64::MAX }
    open spec fn add_spec(self, rhs: ri8) -> ri64 { ri64 { val: (self.val + rhs.val) as i64 } }
}
impl core::ops::Add<ri8> for ri64 {
    type Output = ri64;
    #[verifier::external_body]
    fn add(self, rhs: ri8) -> ri64 { unimplemented!() }
}
impl AddAssignSpecImpl<ri8> for ri64 {
    open spec fn obeys_add_assign_spec() -> bool { true }
    open spec fn add_assign_req(&self, rhs: ri8) -> bool { i64::MIN <= self.val + rhs.val <= i64::MAX }
    open spec fn add_assign_spec(&self, rhs: ri8) -> &ri64 { &ri64 { val: (self.val + rhs.val) as i64 } }
}
impl core::ops::AddAssign<ri8> for ri64 {
    #[verifier::external_body]
    fn add_assign(&mut self, rhs: ri8) { unimplemented!() }
}

impl SubSpecImpl<ri8> for ri64 {
    open spec fn obeys_sub_spec() -> bool { true }
    open spec fn sub_req(self, rhs: ri8) -> bool { i64::MIN <= self.val - rhs.val <= i64::MAX }
    open spec fn sub_spec(self, rhs: ri8) -> ri64 { ri64 { val: (self.val - rhs.val) as i64 } }
}
impl core::ops::Sub<ri8> for ri64 {
    type Output = ri64;
    #[verifier::external_body]
    fn sub(self, rhs: ri8) -> ri64 { unimplemented!() }
}
impl SubAssignSpecImpl<ri8> for ri64 {
    open spec fn obeys_sub_assign_spec() -> bool { true }
    open spec fn sub_assign_req(&self, rhs: ri8) -> bool { i64::MIN <= self.val - rhs.val <= i64::MAX }
    open spec fn sub_assign_spec(&self, rhs: ri8) -> &ri64 { &ri64 { val: (self.val - rhs.val) as i64 } }
}
impl core::ops::SubAssign<ri8> for ri64 {
    #[verifier::external_body]
    fn sub_assign(&mut self, rhs: ri8) { unimplemented!() }
}

impl MulSpecImpl<ri8> for ri64 {
    open spec fn obeys_mul_spec() -> bool { true }
    open spec fn mul_req(self, rhs: ri8) -> bool { i64::MIN <= self.val * rhs.val <= i64::MAX }
    open spec fn mul_spec(self, rhs: ri8) -> ri64 { ri64 { val: (self.val * rhs.val) as i64 } }
}
impl core::ops::Mul<ri8> for ri64 {
    type Output = ri64;
    #[verifier::external_body]
    fn mul(self, rhs: ri8) -> ri64 { unimplemented!() }
}
impl MulAssignSpecImpl<ri8> for ri64 {
    open spec fn obeys_mul_assign_spec() -> bool { true }
    open spec fn mul_assign_req(&self, rhs: ri8) -> bool { i64::MIN <= self.val * rhs.val <= i64::MAX }
    open spec fn mul_assign_spec(&self, rhs: ri8) -> &ri64 { &ri64 { val: (self.val * rhs.val) as i64 } }
}
impl core::ops::MulAssign<ri8> for ri64 {
    #[verifier::external_body]
    fn mul_assign(&mut self, rhs: ri8) { unimplemented!() }
}

impl DivSpecImpl<ri8> for ri64 {
    open spec fn obeys_div_spec() -> bool { true }
    open spec fn div_req(self, rhs: ri8) -> bool { rhs.val > 0 }
    open spec fn div_spec(self, rhs: ri8) -> ri64 { ri64 { val: (self.val as int / rhs.val as int) as i64 } }
}
impl core::ops::Div<ri8> for ri64 {
    type Output = ri64;
    #[verifier::external_body]
    fn div(self, rhs: ri8) -> ri64 { unimplemented!() }
}
impl RemSpecImpl<ri8> for ri64 {
    open spec fn obeys_rem_spec() -> bool { true }
    open spec fn rem_req(self, rhs: ri8) -> bool { rhs.val > 0 }
    open spec fn rem_spec(self, rhs: ri8) -> ri64 { ri64 { val: (self.val as int % rhs.val as int) as i64 } }
}
impl core::ops::Rem<ri8> for ri64 {
    type Output = ri64;
    #[verifier::external_body]
    fn rem(self, rhs: ri8) -> ri64 { unimplemented!() }
}

impl AddSpecImpl<ri16> for ri64 {
    open spec fn obeys_add_spec() -> bool { true }
    open spec fn add_req(self, rhs: ri16) -> bool { i64::MIN <= self.val + rhs.val <= i64::MAX }
    open spec fn add_spec(self, rhs: ri16) -> ri64 { ri64 { val: (self.val + rhs.val) as i64 } }
}
impl core::ops::Add<ri16> for ri64 {
    type Output = ri64;
    #[verifier::external_body]
    fn add(self, rhs: ri16) -> ri64 { unimplemented!() }
}
impl AddAssignSpecImpl<ri16> for ri64 {
    open spec fn obeys_add_assign_spec() -> bool { true }
    open spec fn add_assign_req(&self, rhs: ri16) -> bool { i64::MIN <= self.val + rhs.val <= i64::MAX }
    open spec fn add_assign_spec(&self, rhs: ri16) -> &ri64 { &ri64 { val: (self.val + rhs.val) as i64 } }
}
impl core::ops::AddAssign<ri16> for ri64 {
    #[verifier::external_body]
    fn add_assign(&mut self, rhs: ri16) { unimplemented!() }
}

impl SubSpecImpl<ri16> for ri64 {
    open spec fn obeys_sub_spec() -> bool { true }
    open spec fn sub_req(self, rhs: ri16) -> bool { i64::MIN <= self.val - rhs.val <= i64::MAX }
    open spec fn sub_spec(self, rhs: ri16) -> ri64 { ri64 { val: (self.val - rhs.val) as i64 } }
}
impl core::ops::Sub<ri16> for ri64 {
    type Output = ri64;
    #[verifier::external_body]
    fn sub(self, rhs: ri16) -> ri64 { unimplemented!() }
}
impl SubAssignSpecImpl<ri16> for ri64 {
    open spec fn obeys_sub_assign_spec() -> bool { true }
    open spec fn sub_assign_req(&self, rhs: ri16) -> bool { i64::MIN <= self.val - rhs.val <= i64::MAX }
    open spec fn sub_assign_spec(&self, rhs: ri16) -> &ri64 { &ri64 { val: (self.val - rhs.val) as i64 } }
}
impl core::ops::SubAssign<ri16> for ri64 {
    #[verifier::external_body]
    fn sub_assign(&mut self, rhs: ri16) { unimplemented!() }
}

impl MulSpecImpl<ri16> for ri64 {
    open spec fn obeys_mul_spec() -> bool { true }
    open spec fn mul_req(self, rhs: ri16) -> bool { i64::MIN <= self.val * rhs.val <= i64::MAX }
    open spec fn mul_spec(self, rhs: ri16) -> ri64 { ri64 { val: (self.val * rhs.val) as i64 } }
}
impl core::ops::Mul<ri16> for ri64 {
    type Output = ri64;
    #[verifier::external_body]
    fn mul(self, rhs: ri16) -> ri64 { unimplemented!() }
}
impl MulAssignSpecImpl<ri16> for ri64 {
    open spec fn obeys_mul_assign_spec() -> bool { true }
    open spec fn mul_assign_req(&self, rhs: ri16) -> bool { i64::MIN <= self.val * rhs.val <= i64::MAX }
    open spec fn mul_assign_spec(&self, rhs: ri16) -> &ri64 { &ri64 { val: (self.val * rhs.val) as i64 } }
}
impl core::ops::MulAssign<ri16> for ri64 {
    #[verifier::external_body]
    fn mul_assign(&mut self, rhs: ri16) { unimplemented!() }
}

impl DivSpecImpl<ri16> for ri64 {
    open spec fn obeys_div_spec() -> bool { true }
    open spec fn div_req(self, rhs: ri16) -> bool { rhs.val > 0 }
    open spec fn div_spec(self, rhs: ri16) -> ri64 { ri64 { val: (self.val as int / rhs.val as int) as i64 } }
}
impl core::ops::Div<ri16> for ri64 {
    type Output = ri64;
    #[verifier::external_body]
    fn div(self, rhs: ri16) -> ri64 { unimplemented!() }
}
impl RemSpecImpl<ri16> for ri64 {
    open spec fn obeys_rem_spec() -> bool { true }
    open spec fn rem_req(self, rhs: ri16) -> bool { rhs.val > 0 }
    open spec fn rem_spec(self, rhs: ri16) -> ri64 { ri64 { val: (self.val as int % rhs.val as int) as i64 } }
}
impl core::ops::Rem<ri16> for ri64 {
    type Output = ri64;
    #[verifier::external_body]
    fn rem(self, rhs: ri16) -> ri64 { unimplemented!() }
}

impl AddSpecImpl<ri32> for ri64 {
    open spec fn obeys_add_spec() -> bool { true }
    open spec fn add_req(self, rhs: ri32) -> bool { i64::MIN <= self.val + rhs.val <= i64::MAX }
    open spec fn add_spec(self, rhs: ri32) -> ri64 { ri64 { val: (self.val + rhs.val) as i64 } }
}
impl core::ops::Add<ri32> for ri64 {
    type Output = ri64;
    #[verifier::external_body]
    fn add(self, rhs: ri32) -> ri64 { unimplemented!() }
}
impl AddAssignSpecImpl<ri32> for ri64 {
    open spec fn obeys_add_assign_spec() -> bool { true }
    open spec fn add_assign_req(&self, rhs: ri32) -> bool { i64::MIN <= self.val + rhs.val <= i64::MAX }
    open spec fn add_assign_spec(&self, rhs: ri32) -> &ri64 { &ri64 { val: (self.val + rhs.val) as i64 } }
}
impl core::ops::AddAssign<ri32> for ri64 {
    #[verifier::external_body]
    fn add_assign(&mut self, rhs: ri32) { unimplemented!() }
}

impl SubSpecImpl<ri32> for ri64 {
    open spec fn obeys_sub_spec() -> bool { true }
    open spec fn sub_req(self, rhs: ri32) -> bool { i64::MIN <= self.val - rhs.val <= i64::MAX }
    open spec fn sub_spec(self, rhs: ri32) -> ri64 { ri64 { val: (self.val - rhs.val) as i64 } }
}
impl core::ops::Sub<ri32> for ri64 {
    type Output = ri64;
    #[verifier::external_body]
    fn sub(self, rhs: ri32) -> ri64 { unimplemented!() }
}
impl SubAssignSpecImpl<ri32> for ri64 {
    open spec fn obeys_sub_assign_spec() -> bool { true }
    open spec fn sub_assign_req(&self, rhs: ri32) -> bool { i64::MIN <= self.val - rhs.val <= i64::MAX }
    open spec fn sub_assign_spec(&self, rhs: ri32) -> &ri64 { &ri64 { val: (self.val - rhs.val) as i64 } }
}
impl core::ops::SubAssign<ri32> for ri64 {
    #[verifier::external_body]
    fn sub_assign(&mut self, rhs: ri32) { unimplemented!() }
}

impl MulSpecImpl<ri32> for ri64 {
    open spec fn obeys_mul_spec() -> bool { true }
    open spec fn mul_req(self, rhs: ri32) -> bool { i64::MIN <= self.val * rhs.val <= i64::MAX }
    open spec fn mul_spec(self, rhs: ri32) -> ri64 { ri64 { val: (self.val * rhs.val) as i64 } }
}
impl core::ops::Mul<ri32> for ri64 {
    type Output = ri64;
    #[verifier::external_body]
    fn mul(self, rhs: ri32) -> ri64 { unimplemented!() }
}
impl MulAssignSpecImpl<ri32> for ri64 {
    open spec fn obeys_mul_assign_spec() -> bool { true }
    open spec fn mul_assign_req(&self, rhs: ri32) -> bool { i64::MIN <= self.val * rhs.val <= i64::MAX }
    open spec fn mul_assign_spec(&self, rhs: ri32) -> &ri64 { &ri64 { val: (self.val * rhs.val) as i64 } }
}
impl core::ops::MulAssign<ri32> for ri64 {
    #[verifier::external_body]
    fn mul_assign(&mut self, rhs: ri32) { unimplemented!() }
}

impl DivSpecImpl<ri32> for ri64 {
    open spec fn obeys_div_spec() -> bool { true }
    open spec fn div_req(self, rhs: ri32) -> bool { rhs.val > 0 }
    open spec fn div_spec(self, rhs: ri32) -> ri64 { ri64 { val: (self.val as int / rhs.val as int) as i64 } }
}
impl core::ops::Div<ri32> for ri64 {
    type Output = ri64;
    #[verifier::external_body]
    fn div(self, rhs: ri32) -> ri64 { unimplemented!() }
}
impl RemSpecImpl<ri32> for ri64 {
    open spec fn obeys_rem_spec() -> bool { true }
    open spec fn rem_req(self, rhs: ri32) -> bool { rhs.val > 0 }
    open spec fn rem_spec(self, rhs: ri32) -> ri64 { ri64 { val: (self.val as int % rhs.val as int) as i64 } }
}
impl core::ops::Rem<ri32> for ri64 {
    type Output = ri64;
    #[verifier::external_body]
    fn rem(self, rhs: ri32) -> ri64 { unimplemented!() }
}

impl AddSpecImpl<ri128> for ri64 {
    open spec fn obeys_add_spec() -> bool { true }
    open spec fn add_req(self, rhs: ri128) -> bool { i64::MIN <= self.val + rhs.val <= i64::MAX }
    open spec fn add_spec(self, rhs: ri128) -> ri64 { ri64 { val: (self.val + rhs.val) as i64 } }
}
impl core::ops::Add<ri128> for ri64 {
    type Output = ri64;
    #[verifier::external_body]
    fn add(self, rhs: ri128) -> ri64 { unimplemented!() }
}
impl AddAssignSpecImpl<ri128> for ri64 {
    open spec fn obeys_add_assign_spec() -> bool { true }
    open spec fn add_assign_req(&self, rhs: ri128) -> bool { i64::MIN <= self.val + rhs.val <= i64::MAX }
    open spec fn add_assign_spec(&self, rhs: ri128) -> &ri64 { &ri64 { val: (self.val + rhs.val) as i64 } }
}
impl core::ops::AddAssign<ri128> for ri64 {
    #[verifier::external_body]
    fn add_assign(&mut self, rhs: ri128) { unimplemented!() }
}

impl SubSpecImpl<ri128> for ri64 {
    open spec fn obeys_sub_spec() -> bool { true }
    open spec fn sub_req(self, rhs: ri128) -> bool { i64::MIN <= self.val - rhs.val <= i64::MAX }
    open spec fn sub_spec(self, rhs: ri128) -> ri64 { ri64 { val: (self.val - rhs.val) as i64 } }
}
impl core::ops::Sub<ri128> for ri64 {
    type Output = ri64;
    #[verifier::external_body]
    fn sub(self, rhs: ri128) -> ri64 { unimplemented!() }
}
impl SubAssignSpecImpl<ri128> for ri64 {
    open spec fn obeys_sub_assign_spec() -> bool { true }
    open spec fn sub_assign_req(&self, rhs: ri128) -> bool { i64::MIN <= self.val - rhs.val <= i64::MAX }
    open spec fn sub_assign_spec(&self, rhs: ri128) -> &ri64 { &ri64 { val: (self.val - rhs.val) as i64 } }
}
impl core::ops::SubAssign<ri128> for ri64 {
    #[verifier::external_body]
    fn sub_assign(&mut self, rhs: ri128) { unimplemented!() }
}

impl MulSpecImpl<ri128> for ri64 {
    open spec fn obeys_mul_spec() -> bool { true }
    open spec fn mul_req(self, rhs: ri128) -> bool { i64::MIN <= self.val * rhs.val <= i64::MAX }
    open spec fn mul_spec(self, rhs: ri128) -> ri64 { ri64 { val: (self.val * rhs.val) as i64 } }
}
impl core::ops::Mul<ri128> for ri64 {
    type Output = ri64;
    #[verifier::external_body]
    fn mul(self, rhs: ri128) -> ri64 { unimplemented!() }
}
impl MulAssignSpecImpl<ri128> for ri64 {
    open spec fn obeys_mul_assign_spec() -> bool { true }
    open spec fn mul_assign_req(&self, rhs: ri128) -> bool { i64::MIN <= self.val * rhs.val <= i64::MAX }
    open spec fn mul_assign_spec(&self, rhs: ri128) -> &ri64 { &ri64 { val: (self.val * rhs.val) as i64 } }
}
impl core::ops::MulAssign<ri128> for ri64 {
    #[verifier::external_body]
    fn mul_assign(&mut self, rhs: ri128) { unimplemented!() }
}

impl DivSpecImpl<ri128> for ri64 {
    open spec fn obeys_div_spec() -> bool { true }
    open spec fn div_req(self, rhs: ri128) -> bool { rhs.val > 0 }
    open spec fn div_spec(self, rhs: ri128) -> ri64 { ri64 { val: (self.val as int / rhs.val as int) as i64 } }
}
impl core::ops::Div<ri128> for ri64 {
    type Output = ri64;
    #[verifier::external_body]
    fn div(self, rhs: ri128) -> ri64 { unimplemented!() }
}
impl RemSpecImpl<ri128> for ri64 {
    open spec fn obeys_rem_spec() -> bool { true }
    open spec fn rem_req(self, rhs: ri128) -> bool { rhs.val > 0 }
    open spec fn rem_spec(self, rhs: ri128) -> ri64 { ri64 { val: (self.val as int % rhs.val as int) as i64 } }
}
impl core::ops::Rem<ri128> for ri64 {
    type Output = ri64;
    #[verifier::external_body]
    fn rem(self, rhs: ri128) -> ri64 { unimplemented!() }
}

impl NegSpecImpl for ri64 {
    open spec fn obeys_neg_spec() -> bool { true }
    open spec fn neg_req(self) -> bool { self.val > i64::MIN }
    open spec fn neg_spec(self) -> ri64 { ri64 { val: (-self.val) as i64 } }
}
impl core::ops::Neg for ri64 {
    type Output = ri64;
    #[verifier::external_body]
    fn neg(self) -> ri64 { unimplemented!() }
}


// ------------------------------------------------------------------ ri128
#[derive(Clone, Copy)]
pub struct ri128 { pub val: i128 }
impl ri128 {
    pub fn new_unchecked(val: i128) -> (r: Self) ensures r.val == val { ri128 { val } }
    pub fn get(self) -> (r: i128) ensures r == self.val { self.val }
    pub fn get_unchecked(self) -> (r: i128) ensures r == self.val { self.val }
    pub fn without_bounds(self) -> (r: Self) ensures r == self { self }
    // `T::N::<VAL>()` is rewritten to `T::verif_N(VAL)`: the constant VAL (release: `Self { val: VAL }`, no bound is consulted).
    // (Not modelled with a const generic: Verus 0.2026.09.13 derives `false` from a negative const generic argument.)
    pub const fn verif_N(v: i128) -> (r: Self) ensures r.val == v { ri128 { val: v } }
    #[verifier::external_body]
    pub fn abs(self) -> (r: Self)
        requires self.val > i128::MIN,
        ensures r.val == (if self.val < 0 { -self.val } else { self.val as int })
    { unimplemented!() }
    // real: returns `riN<-1, 1>` of the SAME width
    pub fn signum(self) -> (r: Self) ensures r.val == (if self.val < 0 { -1int } else if self.val > 0 { 1int } else { 0int })
    { if self.val < 0 { ri128 { val: -1 } } else if self.val > 0 { ri128 { val: 1 } } else { ri128 { val: 0 } } }
    pub fn min<R: RInto<Self>>(self, other: R) -> (r: Self)
        requires other.rinto_req(),
        ensures r.val == (if other.rinto_spec().val < self.val { other.rinto_spec().val } else { self.val })
    { let o = other.rinto(); if o.val < self.val { o } else { self } }
    pub fn max<R: RInto<Self>>(self, other: R) -> (r: Self)
        requires other.rinto_req(),
        ensures r.val == (if other.rinto_spec().val > self.val { other.rinto_spec().val } else { self.val })
    { let o = other.rinto(); if o.val > self.val { o } else { self } }
    // truncating
    #[verifier::external_body]
    pub fn div_ceil<R: RInto<Self>>(self, rhs: R) -> (r: Self)
        requires rhs.rinto_req(), rhs.rinto_spec().val != 0, !(self.val == i128::MIN && rhs.rinto_spec().val == -1),
        ensures r.val == tdiv(self.val as int, rhs.rinto_spec().val as int)
    { unimplemented!() }
    #[verifier::external_body]
    pub fn rem_ceil<R: RInto<Self>>(self, rhs: R) -> (r: Self)
        requires rhs.rinto_req(), rhs.rinto_spec().val != 0, !(self.val == i128::MIN && rhs.rinto_spec().val == -1),
        ensures r.val == trem(self.val as int, rhs.rinto_spec().val as int)
    { unimplemented!() }
    // Euclidean (divisor > 0 required here; every use in jiff divides by a positive quantity)
    #[verifier::external_body]
    pub fn div_floor<R: RInto<Self>>(self, rhs: R) -> (r: Self)
        requires rhs.rinto_req(), rhs.rinto_spec().val > 0,
        ensures r.val == (self.val as int) / (rhs.rinto_spec().val as int)
    { unimplemented!() }
    #[verifier::external_body]
    pub fn rem_floor<R: RInto<Self>>(self, rhs: R) -> (r: Self)
        requires rhs.rinto_req(), rhs.rinto_spec().val > 0,
        ensures r.val == (self.val as int) % (rhs.rinto_spec().val as int)
    { unimplemented!() }
    #[verifier::external_body]
    pub fn saturating_mul<R: RInto<Self>>(self, rhs: R) -> (r: Self)
        requires rhs.rinto_req(),
        ensures i128::MIN <= self.val * rhs.rinto_spec().val <= i128::MAX ==> r.val == self.val * rhs.rinto_spec().val,
                self.val * rhs.rinto_spec().val > i128::MAX ==> r.val == i128::MAX,
                self.val * rhs.rinto_spec().val < i128::MIN ==> r.val == i128::MIN,
    { unimplemented!() }
    #[verifier::external_body]
    pub fn saturating_add<R: RInto<Self>>(self, rhs: R) -> (r: Self)
        requires rhs.rinto_req(),
        ensures i128::MIN <= self.val + rhs.rinto_spec().val <= i128::MAX ==> r.val == self.val + rhs.rinto_spec().val,
                self.val + rhs.rinto_spec().val > i128::MAX ==> r.val == i128::MAX,
                self.val + rhs.rinto_spec().val < i128::MIN ==> r.val == i128::MIN,
    { unimplemented!() }
}
// `type Range = ri128<{ LO }, { HI }>; Range::try_new("what", v)`: the bounds of an anonymous range are passed explicitly
#[verifier::external_body]
pub fn verif_try_new_range_128(lo: i128, hi: i128, v: i64) -> (res: Result<ri128, Error>)
    requires i128::MIN <= lo, hi <= i128::MAX,
    ensures res.is_ok() <==> lo <= v <= hi, res.is_ok() ==> res.unwrap().val == v
{ unimplemented!() }
impl RInto<ri128> for ri128 {
    open spec fn rinto_spec(self) -> ri128 { self }
    open spec fn rinto_req(self) -> bool { true }
    fn rinto(self) -> (r: ri128) { self }
}
impl RFrom<ri128> for ri128 {
    open spec fn rfrom_spec(t: ri128) -> ri128 { t }
    open spec fn rfrom_req(t: ri128) -> bool { true }
    fn rfrom(t: ri128) -> (r: ri128) { t }
}
impl RInto<ri128> for Constant {
    open spec fn rinto_spec(self) -> ri128 { ri128 { val: self.0 as i128 } }
    open spec fn rinto_req(self) -> bool { i128::MIN <= self.0 <= i128::MAX }
    #[verifier::external_body]
    fn rinto(self) -> (r: ri128) { unimplemented!() }
}
impl RFrom<Constant> for ri128 {
    open spec fn rfrom_spec(t: Constant) -> ri128 { ri128 { val: t.0 as i128 } }
    open spec fn rfrom_req(t: Constant) -> bool { i128::MIN <= t.0 <= i128::MAX }
    #[verifier::external_body]
    fn rfrom(t: Constant) -> (r: ri128) { unimplemented!() }
}
impl RInto<i128> for ri128 {
    open spec fn rinto_spec(self) -> i128 { self.val }
    open spec fn rinto_req(self) -> bool { true }
    fn rinto(self) -> (r: i128) { self.val }
}

impl PartialEqSpecImpl<ri128> for ri128 {
    open spec fn obeys_eq_spec() -> bool { true }
    open spec fn eq_spec(&self, other: &ri128) -> bool { self.val == other.val }
}
impl PartialEq<ri128> for ri128 {
    #[verifier::external_body]
    fn eq(&self, other: &ri128) -> bool { unimplemented!() }
}
impl PartialOrdSpecImpl<ri128> for ri128 {
    open spec fn obeys_partial_cmp_spec() -> bool { true }
    open spec fn partial_cmp_spec(&self, other: &ri128) -> Option<Ordering> { Some(int_cmp(self.val as int, other.val as int)) }
}
impl PartialOrd<ri128> for ri128 {
    #[verifier::external_body]
    fn partial_cmp(&self, other: &ri128) -> Option<Ordering> { unimplemented!() }
}

impl PartialEqSpecImpl<Constant> for ri128 {
    open spec fn obeys_eq_spec() -> bool { true }
    open spec fn eq_spec(&self, other: &Constant) -> bool { self.val == other.0 }
}
impl PartialEq<Constant> for ri128 {
    #[verifier::external_body]
    fn eq(&self, other: &Constant) -> bool { unimplemented!() }
}
impl PartialOrdSpecImpl<Constant> for ri128 {
    open spec fn obeys_partial_cmp_spec() -> bool { true }
    open spec fn partial_cmp_spec(&self, other: &Constant) -> Option<Ordering> { Some(int_cmp(self.val as int, other.0 as int)) }
}
impl PartialOrd<Constant> for ri128 {
    #[verifier::external_body]
    fn partial_cmp(&self, other: &Constant) -> Option<Ordering> { unimplemented!() }
}

impl PartialEqSpecImpl<ri8> for ri128 {
    open spec fn obeys_eq_spec() -> bool { true }
    open spec fn eq_spec(&self, other: &ri8) -> bool { self.val == other.val }
}
impl PartialEq<ri8> for ri128 {
    #[verifier::external_body]
    fn eq(&self, other: &ri8) -> bool { unimplemented!() }
}
impl PartialOrdSpecImpl<ri8> for ri128 {
    open spec fn obeys_partial_cmp_spec() -> bool { true }
    open spec fn partial_cmp_spec(&self, other: &ri8) -> Option<Ordering> { Some(int_cmp(self.val as int, other.val as int)) }
}
impl PartialOrd<ri8> for ri128 {
    #[verifier::external_body]
    fn partial_cmp(&self, other: &ri8) -> Option<Ordering> { unimplemented!() }
}

impl PartialEqSpecImpl<ri16> for ri128 {
    open spec fn obeys_eq_spec() -> bool { true }
    open spec fn eq_spec(&self, other: &ri16) -> bool { self.val == other.val }
}
impl PartialEq<ri16> for ri128 {
    #[verifier::external_body]
    fn eq(&self, other: &ri16) -> bool { unimplemented!() }
}
impl PartialOrdSpecImpl<ri16> for ri128 {
    open spec fn obeys_partial_cmp_spec() -> bool { true }
    open spec fn partial_cmp_spec(&self, other: &ri16) -> Option<Ordering> { Some(int_cmp(self.val as int, other.val as int)) }
}
impl PartialOrd<ri16> for ri128 {
    #[verifier::external_body]
    fn partial_cmp(&self, other: &ri16) -> Option<Ordering> { unimplemented!() }
}

impl PartialEqSpecImpl<ri32> for ri128 {
    open spec fn obeys_eq_spec() -> bool { true }
    open spec fn eq_spec(&self, other: &ri32) -> bool { self.val == other.val }
}
impl PartialEq<ri32> for ri128 {
    #[verifier::external_body]
    fn eq(&self, other: &ri32) -> bool { unimplemented!() }
}
impl PartialOrdSpecImpl<ri32> for ri128 {
    open spec fn obeys_partial_cmp_spec() -> bool { true }
    open spec fn partial_cmp_spec(&self, other: &ri32) -> Option<Ordering> { Some(int_cmp(self.val as int, other.val as int)) }
}
impl PartialOrd<ri32> for ri128 {
    #[verifier::external_body]
    fn partial_cmp(&self, other: &ri32) -> Option<Ordering> { unimplemented!() }
}

impl PartialEqSpecImpl<ri64> for ri128 {
    open spec fn obeys_eq_spec() -> bool { true }
    open spec fn eq_spec(&self, other: &ri64) -> bool { self.val == other.val }
}
impl PartialEq<ri64> for ri128 {
    #[verifier::external_body]
    fn eq(&self, other: &ri64) -> bool { unimplemented!() }
}
impl PartialOrdSpecImpl<ri64> for ri128 {
    open spec fn obeys_partial_cmp_spec() -> bool { true }
    open spec fn partial_cmp_spec(&self, other: &ri64) -> Option<Ordering> { Some(int_cmp(self.val as int, other.val as int)) }
}
impl PartialOrd<ri64> for ri128 {
    #[verifier::external_body]
    fn partial_cmp(&self, other: &ri64) -> Option<Ordering> { unimplemented!() }
}

impl AddSpecImpl<ri128> for ri128 {
    open spec fn obeys_add_spec() -> bool { true }
    open spec fn add_req(self, rhs: ri128) -> bool { i128::MIN <= self.val + rhs.val <= i128::MAX }
    open spec fn add_spec(self, rhs: ri128) -> ri128 { ri128 { val: (self.val + rhs.val) as i128 } }
}
impl core::ops::Add<ri128> for ri128 {
    type Output = ri128;
    #[verifier::external_body]
    fn add(self, rhs: ri128) -> ri128 { unimplemented!() }
}
impl AddAssignSpecImpl<ri128> for ri128 {
    open spec fn obeys_add_assign_spec() -> bool { true }
    open spec fn add_assign_req(&self, rhs: ri128) -> bool { i128::MIN <= self.val + rhs.val <= i128::MAX }
    open spec fn add_assign_spec(&self, rhs: ri128) -> &ri128 { &ri128 { val: (self.val + rhs.val) as i128 } }
}
impl core::ops::AddAssign<ri128> for ri128 {
    #[verifier::external_body]
    fn add_assign(&mut self, rhs: ri128) { unimplemented!() }
}

impl SubSpecImpl<ri128> for ri128 {
    open spec fn obeys_sub_spec() -> bool { true }
    open spec fn sub_req(self, rhs: ri128) -> bool { i128::MIN <= self.val - rhs.val <= i128::MAX }
    open spec fn sub_spec(self, rhs: ri128) -> ri128 { ri128 { val: (self.val - rhs.val) as i128 } }
}
impl core::ops::Sub<ri128> for ri128 {
    type Output = ri128;
    #[verifier::external_body]
    fn sub(self, rhs: ri128) -> ri128 { unimplemented!() }
}
impl SubAssignSpecImpl<ri128> for ri128 {
    open spec fn obeys_sub_assign_spec() -> bool { true }
    open spec fn sub_assign_req(&self, rhs: ri128) -> bool { i128::MIN <= self.val - rhs.val <= i128::MAX }
    open spec fn sub_assign_spec(&self, rhs: ri128) -> &ri128 { &ri128 { val: (self.val - rhs.val) as i128 } }
}
impl core::ops::SubAssign<ri128> for ri128 {
    #[verifier::external_body]
    fn sub_assign(&mut self, rhs: ri128) { unimplemented!() }
}

impl MulSpecImpl<ri128> for ri128 {
    open spec fn obeys_mul_spec() -> bool { true }
    open spec fn mul_req(self, rhs: ri128) -> bool { i128::MIN <= self.val * rhs.val <= i128::MAX }
    open spec fn mul_spec(self, rhs: ri128) -> ri128 { ri128 { val: (self.val * rhs.val) as i128 } }
}
impl core::ops::Mul<ri128> for ri128 {
    type Output = ri128;
    #[verifier::external_body]
    fn mul(self, rhs: ri128) -> ri128 { unimplemented!() }
}
impl MulAssignSpecImpl<ri128> for ri128 {
    open spec fn obeys_mul_assign_spec() -> bool { true }
    open spec fn mul_assign_req(&self, rhs: ri128) -> bool { i128::MIN <= self.val * rhs.val <= i128::MAX }
    open spec fn mul_assign_spec(&self, rhs: ri128) -> &ri128 { &ri128 { val: (self.val * rhs.val) as i128 } }
}
impl core::ops::MulAssign<ri128> for ri128 {
    #[verifier::external_body]
    fn mul_assign(&mut self, rhs: ri128) { unimplemented!() }
}

impl DivSpecImpl<ri128> for ri128 {
    open spec fn obeys_div_spec() -> bool { true }
    open spec fn div_req(self, rhs: ri128) -> bool { rhs.val > 0 }
    open spec fn div_spec(self, rhs: ri128) -> ri128 { ri128 { val: (self.val as int / rhs.val as int) as i128 } }
}
impl core::ops::Div<ri128> for ri128 {
    type Output = ri128;
    #[verifier::external_body]
    fn div(self, rhs: ri128) -> ri128 { unimplemented!() }
}
impl RemSpecImpl<ri128> for ri128 {
    open spec fn obeys_rem_spec() -> bool { true }
    open spec fn rem_req(self, rhs: ri128) -> bool { rhs.val > 0 }
    open spec fn rem_spec(self, rhs: ri128) -> ri128 { ri128 { val: (self.val as int % rhs.val as int) as i128 } }
}
impl core::ops::Rem<ri128> for ri128 {
    type Output = ri128;
    #[verifier::external_body]
    fn rem(self, rhs: ri128) -> ri128 { unimplemented!() }
}

impl AddSpecImpl<Constant> for ri128 {
    open spec fn obeys_add_spec() -> bool { true }
    open spec fn add_req(self, rhs: Constant) -> bool { i128::MIN <= self.val + rhs.0 <= i128::MAX }
    open spec fn add_spec(self, rhs: Constant) -> ri128 { ri128 { val: (self.val + rhs.0) as i128 } }
}
impl core::ops::Add<Constant> for ri128 {
    type Output = ri128;
    #[verifier::external_body]
    fn add(self, rhs: Constant) -> ri128 { unimplemented!() }
}
impl AddAssignSpecImpl<Constant> for ri128 {
    open spec fn obeys_add_assign_spec() -> bool { true }
    open spec fn add_assign_req(&self, rhs: Constant) -> bool { i128::MIN <= self.val + rhs.0 <= i128::MAX }
    open spec fn add_assign_spec(&self, rhs: Constant) -> &ri128 { &ri128 { val: (self.val + rhs.0) as i128 } }
}
impl core::ops::AddAssign<Constant> for ri128 {
    #[verifier::external_body]
    fn add_assign(&mut self, rhs: Constant) { unimplemented!() }
}

impl SubSpecImpl<Constant> for ri128 {
    open spec fn obeys_sub_spec() -> bool { true }
    open spec fn sub_req(self, rhs: Constant) -> bool { i128::MIN <= self.val - rhs.0 <= i128::MAX }
    open spec fn sub_spec(self, rhs: Constant) -> ri128 { ri128 { val: (self.val - rhs.0) as i128 } }
}
impl core::ops::Sub<Constant> for ri128 {
    type Output = ri128;
    #[verifier::external_body]
    fn sub(self, rhs: Constant) -> ri128 { unimplemented!() }
}
impl SubAssignSpecImpl<Constant> for ri128 {
    open spec fn obeys_sub_assign_spec() -> bool { true }
    open spec fn sub_assign_req(&self, rhs: Constant) -> bool { i128::MIN <= self.val - rhs.0 <= i128::MAX }
    open spec fn sub_assign_spec(&self, rhs: Constant) -> &ri128 { &ri128 { val: (self.val - rhs.0) as i128 } }
}
impl core::ops::SubAssign<Constant> for ri128 {
    #[verifier::external_body]
    fn sub_assign(&mut self, rhs: Constant) { unimplemented!() }
}

impl MulSpecImpl<Constant> for ri128 {
    open spec fn obeys_mul_spec() -> bool { true }
    open spec fn mul_req(self, rhs: Constant) -> bool { i128::MIN <= self.val * rhs.0 <= i128::MAX }
    open spec fn mul_spec(self, rhs: Constant) -> ri128 { ri128 { val: (self.val * rhs.0) as i128 } }
}
impl core::ops::Mul<Constant> for ri128 {
    type Output = ri128;
    #[verifier::external_body]
    fn mul(self, rhs: Constant) -> ri128 { unimplemented!() }
}
impl MulAssignSpecImpl<Constant> for ri128 {
    open spec fn obeys_mul_assign_spec() -> bool { true }
    open spec fn mul_assign_req(&self, rhs: Constant) -> bool { i128::MIN <= self.val * rhs.0 <= i128::MAX }
    open spec fn mul_assign_spec(&self, rhs: Constant) -> &ri128 { &ri128 { val: (self.val * rhs.0) as i128 } }
}
impl core::ops::MulAssign<Constant> for ri128 {
    #[verifier::external_body]
    fn mul_assign(&mut self, rhs: Constant) { unimplemented!() }
}

impl DivSpecImpl<Constant> for ri128 {
    open spec fn obeys_div_spec() -> bool { true }
    open spec fn div_req(self, rhs: Constant) -> bool { rhs.0 > 0 }
    open spec fn div_spec(self, rhs: Constant) -> ri128 { ri128 { val: (self.val as int / rhs.0 as int) as i128 } }
}
impl core::ops::Div<Constant> for ri128 {
    type Output = ri128;
    #[verifier::external_body]
    fn div(self, rhs: Constant) -> ri128 { unimplemented!() }
}
impl RemSpecImpl<Constant> for ri128 {
    open spec fn obeys_rem_spec() -> bool { true }
    open spec fn rem_req(self, rhs: Constant) -> bool { rhs.0 > 0 }
    open spec fn rem_spec(self, rhs: Constant) -> ri128 { ri128 { val: (self.val as int % rhs.0 as int) as i128 } }
}
impl core::ops::Rem<Constant> for ri128 {
    type Output = ri128;
    #[verifier::external_body]
    fn rem(self, rhs: Constant) -> ri128 { unimplemented!() }
}

impl AddSpecImpl<ri8> for ri128 {
    open spec fn obeys_add_spec() -> bool { true }
    open spec fn add_req(self, rhs: ri8) -> bool { i128::MIN <= self.val + rhs.val <= i128::MAX }
    open spec fn add_spec(self, rhs: ri8) -> ri128 { ri128 { val: (self.val + rhs.val) as i128 } }
}
impl core::ops::Add<ri8> for ri128 {
    type Output = ri128;
    #[verifier::external_body]
    fn add(self, rhs: ri8) -> ri128 { unimplemented!() }
}
impl AddAssignSpecImpl<ri8> for ri128 {
    open spec fn obeys_add_assign_spec() -> bool { true }
    open spec fn add_assign_req(&self, rhs: ri8) -> bool { i128::MIN <= self.val + rhs.val <= i128::MAX }
    open spec fn add_assign_spec(&self, rhs: ri8) -> &ri128 { &ri128 { val: (self.val + rhs.val) as i128 } }
}
impl core::ops::AddAssign<ri8> for ri128 {
    #[verifier::external_body]
    fn add_assign(&mut self, rhs: ri8) { unimplemented!() }
}

impl SubSpecImpl<ri8> for ri128 {
    open spec fn obeys_sub_spec() -> bool { true }
    open spec fn sub_req(self, rhs: ri8) -> bool { i128::MIN <= self.val - rhs.val <= i128::MAX }
    open spec fn sub_spec(self, rhs: ri8) -> ri128 { ri128 { val: (self.val - rhs.val) as i128 } }
}
impl core::ops::Sub<ri8> for ri128 {
    type Output = ri128;
    #[verifier::external_body]
    fn sub(self, rhs: ri8) -> ri128 { unimplemented!() }
}
impl SubAssignSpecImpl<ri8> for ri128 {
    open spec fn obeys_sub_assign_spec() -> bool { true }
    open spec fn sub_assign_req(&self, rhs: ri8) -> bool { i128::MIN <= self.val - rhs.val <= i128::MAX }
    open spec fn sub_assign_spec(&self, rhs: ri8) -> &ri128 { &ri128 { val: (self.val - rhs.val) as i128 } }
}
impl core::ops::SubAssign<ri8> for ri128 {
    #[verifier::external_body]
    fn sub_assign(&mut self, rhs: ri8) { unimplemented!() }
}

impl MulSpecImpl<ri8> for ri128 {
    open spec fn obeys_mul_spec() -> bool { true }
    open spec fn mul_req(self, rhs: ri8) -> bool { i128::MIN <= self.val * rhs.val <= i128::MAX }
    open spec fn mul_spec(self, rhs: ri8) -> ri128 { ri128 { val: (self.val * rhs.val) as i128 } }
}
impl core::ops::Mul<ri8> for ri128 {
    type Output = ri128;
    #[verifier::external_body]
    fn mul(self, rhs: ri8) -> ri128 { unimplemented!() }
}
impl MulAssignSpecImpl<ri8> for ri128 {
    open spec fn obeys_mul_assign_spec() -> bool { true }
    open spec fn mul_assign_req(&self, rhs: ri8) -> bool { i128::MIN <= self.val * rhs.val <= i128::MAX }
    open spec fn mul_assign_spec(&self, rhs: ri8) -> &ri128 { &ri128 { val: (self.val * rhs.val) as i128 } }
}
impl core::ops::MulAssign<ri8> for ri128 {
    #[verifier::external_body]
    fn mul_assign(&mut self, rhs: ri8) { unimplemented!() }
}

impl DivSpecImpl<ri8> for ri128 {
    open spec fn obeys_div_spec() -> bool { true }
    open spec fn div_req(self, rhs: ri8) -> bool { rhs.val > 0 }
    open spec fn div_spec(self, rhs: ri8) -> ri128 { ri128 { val: (self.val as int / rhs.val as int) as i128 } }
}
impl core::ops::Div<ri8> for ri128 {
    type Output = ri128;
    #[verifier::external_body]
    fn div(self, rhs: ri8) -> ri128 { unimplemented!() }
}
impl RemSpecImpl<ri8> for ri128 {
    open spec fn obeys_rem_spec() -> bool { true }
    open spec fn rem_req(self, rhs: ri8) -> bool { rhs.val > 0 }
    open spec fn rem_spec(self, rhs: ri8) -> ri128 { ri128 { val: (self.val as int % rhs.val as int) as i128 } }
}
impl core::ops::Rem<ri8> for ri128 {
    type Output = ri128;
    #[verifier::external_body]
    fn rem(self, rhs: ri8) -> ri128 { unimplemented!() }
}

impl AddSpecImpl<ri16> for ri128 {
    open spec fn obeys_add_spec() -> bool { true }
    open spec fn add_req(self, rhs: ri16) -> bool { i128::MIN <= self.val + rhs.val <= i128::MAX }
    open spec fn add_spec(self, rhs: ri16) -> ri128 { ri128 { val: (self.val + rhs.val) as i128 } }
}
impl core::ops::Add<ri16> for ri128 {
    type Output = ri128;
    #[verifier::external_body]
    fn add(self, rhs: ri16) -> ri128 { unimplemented!() }
}
impl AddAssignSpecImpl<ri16> for ri128 {
    open spec fn obeys_add_assign_spec() -> bool { true }
    open spec fn add_assign_req(&self, rhs: ri16) -> bool { i128::MIN <= self.val + rhs.val <= i128::MAX }
    open spec fn add_assign_spec(&self, rhs: ri16) -> &ri128 { &ri128 { val: (self.val + rhs.val) as i128 } }
}
impl core::ops::AddAssign<ri16> for ri128 {
    #[verifier::external_body]
    fn add_assign(&mut self, rhs: ri16) { unimplemented!() }
}

impl SubSpecImpl<ri16> for ri128 {
    open spec fn obeys_sub_spec() -> bool { true }
    open spec fn sub_req(self, rhs: ri16) -> bool { i128::MIN <= self.val - rhs.val <= i128::MAX }
    open spec fn sub_spec(self, rhs: ri16) -> ri128 { ri128 { val: (self.val - rhs.val) as i128 } }
}
impl core::ops::Sub<ri16> for ri128 {
    type Output = ri128;
    #[verifier::external_body]
    fn sub(self, rhs: ri16) -> ri128 { unimplemented!() }
}
impl SubAssignSpecImpl<ri16> for ri128 {
    open spec fn obeys_sub_assign_spec() -> bool { true }
    open spec fn sub_assign_req(&self, rhs: ri16) -> bool { i128::MIN <= self.val - rhs.val <= i128::MAX }
    open spec fn sub_assign_spec(&self, rhs: ri16) -> &ri128 { &ri128 { val: (self.val - rhs.val) as i128 } }
}
impl core::ops::SubAssign<ri16> for ri128 {
    #[verifier::external_body]
    fn sub_assign(&mut self, rhs: ri16) { unimplemented!() }
}

impl MulSpecImpl<ri16> for ri128 {
    open spec fn obeys_mul_spec() -> bool { true }
    open spec fn mul_req(self, rhs: ri16) -> bool { i128::MIN <= self.val * rhs.val <= i128::MAX }
    open spec fn mul_spec(self, rhs: ri16) -> ri128 { ri128 { val: (self.val * rhs.val) as i128 } }
}
impl core::ops::Mul<ri16> for ri128 {
    type Output = ri128;
    #[verifier::external_body]
    fn mul(self, rhs: ri16) -> ri128 { unimplemented!() }
}
impl MulAssignSpecImpl<ri16> for ri128 {
    open spec fn obeys_mul_assign_spec() -> bool { true }
    open spec fn mul_assign_req(&self, rhs: ri16) -> bool { i128::MIN <= self.val * rhs.val <= i128::MAX }
    open spec fn mul_assign_spec(&self, rhs: ri16) -> &ri128 { &ri128 { val: (self.val * rhs.val) as i128 } }
}
impl core::ops::MulAssign<ri16> for ri128 {
    #[verifier::external_body]
    fn mul_assign(&mut self, rhs: ri16) { unimplemented!() }
}

impl DivSpecImpl<ri16> for ri128 {
    open spec fn obeys_div_spec() -> bool { true }
    open spec fn div_req(self, rhs: ri16) -> bool { rhs.val > 0 }
    open spec fn div_spec(self, rhs: ri16) -> ri128 { ri128 { val: (self.val as int / rhs.val as int) as i128 } }
}
impl core::ops::Div<ri16> for ri128 {
    type Output = ri128;
    #[verifier::external_body]
    fn div(self, rhs: ri16) -> ri128 { unimplemented!() }
}
impl RemSpecImpl<ri16> for ri128 {
    open spec fn obeys_rem_spec() -> bool { true }
    open spec fn rem_req(self, rhs: ri16) -> bool { rhs.val > 0 }
    open spec fn rem_spec(self, rhs: ri16) -> ri128 { ri128 { val: (self.val as int % rhs.val as int) as i128 } }
}
impl core::ops::Rem<ri16> for ri128 {
    type Output = ri128;
    #[verifier::external_body]
    fn rem(self, rhs: ri16) -> ri128 { unimplemented!() }
}

impl AddSpecImpl<ri32> for ri128 {
    open spec fn obeys_add_spec() -> bool { true }
    open spec fn add_req(self, rhs: ri32) -> bool { i128::MIN <= self.val + rhs.val <= i128::MAX }
    open spec fn add_spec(self, rhs: ri32) -> ri128 { ri128 { val: (self.val + rhs.val) as i128 } }
}
impl core::ops::Add<ri32> for ri128 {
    type Output = ri128;
    #[verifier::external_body]
    fn add(self, rhs: ri32) -> ri128 { unimplemented!() }
}
impl AddAssignSpecImpl<ri32> for ri128 {
    open spec fn obeys_add_assign_spec() -> bool { true }
    open spec fn add_assign_req(&self, rhs: ri32) -> bool { i128::MIN <= self.val + rhs.val <= i128::MAX }
    open spec fn add_assign_spec(&self, rhs: ri32) -> &ri128 { &ri128 { val: (self.val + rhs.val) as i128 } }
}
impl core::ops::AddAssign<ri32> for ri128 {
    #[verifier::external_body]
    fn add_assign(&mut self, rhs: ri32) { unimplemented!() }
}

impl SubSpecImpl<ri32> for ri128 {
    open spec fn obeys_sub_spec() -> bool { true }
    open spec fn sub_req(self, rhs: ri32) -> bool { i128::MIN <= self.val - rhs.val <= i128::MAX }
    open spec fn sub_spec(self, rhs: ri32) -> ri128 { ri128 { val: (self.val - rhs.val) as i128 } }
}
impl core::ops::Sub<ri32> for ri128 {
    type Output = ri128;
    #[verifier::external_body]
    fn sub(self, rhs: ri32) -> ri128 { unimplemented!() }
}
impl SubAssignSpecImpl<ri32> for ri128 {
    open spec fn obeys_sub_assign_spec() -> bool { true }
    open spec fn sub_assign_req(&self, rhs: ri32) -> bool { i128::MIN <= self.val - rhs.val <= i128::MAX }
    open spec fn sub_assign_spec(&self, rhs: ri32) -> &ri128 { &ri128 { val: (self.val - rhs.val) as i128 } }
}
impl core::ops::SubAssign<ri32> for ri128 {
    #[verifier::external_body]
    fn sub_assign(&mut self, rhs: ri32) { unimplemented!() }
}

impl MulSpecImpl<ri32> for ri128 {
    open spec fn obeys_mul_spec() -> bool { true }
    open spec fn mul_req(self, rhs: ri32) -> bool { i128::MIN <= self.val * rhs.val <= i128::MAX }
    open spec fn mul_spec(self, rhs: ri32) -> ri128 { ri128 { val: (self.val * rhs.val) as i128 } }
}
impl core::ops::Mul<ri32> for ri128 {
    type Output = ri128;
    #[verifier::external_body]
    fn mul(self, rhs: ri32) -> ri128 { unimplemented!() }
}
impl MulAssignSpecImpl<ri32> for ri128 {
    open spec fn obeys_mul_assign_spec() -> bool { true }
    open spec fn mul_assign_req(&self, rhs: ri32) -> bool { i128::MIN <= self.val * rhs.val <= i128::MAX }
    open spec fn mul_assign_spec(&self, rhs: ri32) -> &ri128 { &ri128 { val: (self.val * rhs.val) as i128 } }
}
impl core::ops::MulAssign<ri32> for ri128 {
    #[verifier::external_body]
    fn mul_assign(&mut self, rhs: ri32) { unimplemented!() }
}

impl DivSpecImpl<ri32> for ri128 {
    open spec fn obeys_div_spec() -> bool { true }
    open spec fn div_req(self, rhs: ri32) -> bool { rhs.val > 0 }
    open spec fn div_spec(self, rhs: ri32) -> ri128 { ri128 { val: (self.val as int / rhs.val as int) as i128 } }
}
impl core::ops::Div<ri32> for ri128 {
    type Output = ri128;
    #[verifier::external_body]
    fn div(self, rhs: ri32) -> ri128 { unimplemented!() }
}
impl RemSpecImpl<ri32> for ri128 {
    open spec fn obeys_rem_spec() -> bool { true }
    open spec fn rem_req(self, rhs: ri32) -> bool { rhs.val > 0 }
    open spec fn rem_spec(self, rhs: ri32) -> ri128 { ri128 { val: (self.val as int % rhs.val as int) as i128 } }
}
impl core::ops::Rem<ri32> for ri128 {
    type Output = ri128;
    #[verifier::external_body]
    fn rem(self, rhs: ri32) -> ri128 { unimplemented!() }
}

impl AddSpecImpl<ri64> for ri128 {
    open spec fn obeys_add_spec() -> bool { true }
    open spec fn add_req(self, rhs: ri64) -> bool { i128::MIN <= self.val + rhs.val <= i128::MAX }
    open spec fn add_spec(self, rhs: ri64) -> ri128 { ri128 { val: (self.val + rhs.val) as i128 } }
}
impl core::ops::Add<ri64> for ri128 {
    type Output = ri128;
    #[verifier::external_body]
    fn add(self, rhs: ri64) -> ri128 { unimplemented!() }
}
impl AddAssignSpecImpl<ri64> for ri128 {
    open spec fn obeys_add_assign_spec() -> bool { true }
    open spec fn add_assign_req(&self, rhs: ri64) -> bool { i128::MIN <= self.val + rhs.val <= i128::MAX }
    open spec fn add_assign_spec(&self, rhs: ri64) -> &ri128 { &ri128 { val: (self.val + rhs.val) as i128 } }
}
impl core::ops::AddAssign<ri64> for ri128 {
    #[verifier::external_body]
    fn add_assign(&mut self, rhs: ri64) { unimplemented!() }
}

impl SubSpecImpl<ri64> for ri128 {
    open spec fn obeys_sub_spec() -> bool { true }
    open spec fn sub_req(self, rhs: ri64) -> bool { i128::MIN <= self.val - rhs.val <= i128::MAX }
    open spec fn sub_spec(self, rhs: ri64) -> ri128 { ri128 { val: (self.val - rhs.val) as i128 } }
}
impl core::ops::Sub<ri64> for ri128 {
    type Output = ri128;
    #[verifier::external_body]
    fn sub(self, rhs: ri64) -> ri128 { unimplemented!() }
}
impl SubAssignSpecImpl<ri64> for ri128 {
    open spec fn obeys_sub_assign_spec() -> bool { true }
    open spec fn sub_assign_req(&self, rhs: ri64) -> bool { i128::MIN <= self.val - rhs.val <= i128::MAX }
    open spec fn sub_assign_spec(&self, rhs: ri64) -> &ri128 { &ri128 { val: (self.val - rhs.val) as i128 } }
}
impl core::ops::SubAssign<ri64> for ri128 {
    #[verifier::external_body]
    fn sub_assign(&mut self, rhs: ri64) { unimplemented!() }
}

impl MulSpecImpl<ri64> for ri128 {
    open spec fn obeys_mul_spec() -> bool { true }
    open spec fn mul_req(self, rhs: ri64) -> bool { i128::MIN <= self.val * rhs.val <= i128::MAX }
    open spec fn mul_spec(self, rhs: ri64) -> ri128 { ri128 { val: (self.val * rhs.val) as i128 } }
}
impl core::ops::Mul<ri64> for ri128 {
    type Output = ri128;
    #[verifier::external_body]
    fn mul(self, rhs: ri64) -> ri128 { unimplemented!() }
}
impl MulAssignSpecImpl<ri64> for ri128 {
    open spec fn obeys_mul_assign_spec() -> bool { true }
    open spec fn mul_assign_req(&self, rhs: ri64) -> bool { i128::MIN <= self.val * rhs.val <= i128::MAX }
    open spec fn mul_assign_spec(&self, rhs: ri64) -> &ri128 { &ri128 { val: (self.val * rhs.val) as i128 } }
}
impl core::ops::MulAssign<ri64> for ri128 {
    #[verifier::external_body]
    fn mul_assign(&mut self, rhs: ri64) { unimplemented!() }
}

impl DivSpecImpl<ri64> for ri128 {
    open spec fn obeys_div_spec() -> bool { true }
    open spec fn div_req(self, rhs: ri64) -> bool { rhs.val > 0 }
    open spec fn div_spec(self, rhs: ri64) -> ri128 { ri128 { val: (self.val as int / rhs.val as int) as i128 } }
}
impl core::ops::Div<ri64> for ri128 {
    type Output = ri128;
    #[verifier::external_body]
    fn div(self, rhs: ri64) -> ri128 { unimplemented!() }
}
impl RemSpecImpl<ri64> for ri128 {
    open spec fn obeys_rem_spec() -> bool { true }
    open spec fn rem_req(self, rhs: ri64) -> bool { rhs.val > 0 }
    open spec fn rem_spec(self, rhs: ri64) -> ri128 { ri128 { val: (self.val as int % rhs.val as int) as i128 } }
}
impl core::ops::Rem<ri64> for ri128 {
    type Output = ri128;
    #[verifier::external_body]
    fn rem(self, rhs: ri64) -> ri128 { unimplemented!() }
}

impl NegSpecImpl for ri128 {
    open spec fn obeys_neg_spec() -> bool { true }
    open spec fn neg_req(self) -> bool { self.val > i128::MIN }
    open spec fn neg_spec(self) -> ri128 { ri128 { val: (-self.val) as i128 } }
}
impl core::ops::Neg for ri128 {
    type Output = ri128;
    #[verifier::external_body]
    fn neg(self) -> ri128 { unimplemented!() }
}

impl RInto<ri16> for ri8 {
    open spec fn rinto_spec(self) -> ri16 { ri16 { val: self.val as i16 } }
    open spec fn rinto_req(self) -> bool { true }
    #[verifier::external_body]
    fn rinto(self) -> (r: ri16) { unimplemented!() }
}
impl RFrom<ri8> for ri16 {
    open spec fn rfrom_spec(t: ri8) -> ri16 { ri16 { val: t.val as i16 } }
    open spec fn rfrom_req(t: ri8) -> bool { true }
    #[verifier::external_body]
    fn rfrom(t: ri8) -> (r: ri16) { unimplemented!() }
}

impl RInto<ri32> for ri8 {
    open spec fn rinto_spec(self) -> ri32 { ri32 { val: self.val as i32 } }
    open spec fn rinto_req(self) -> bool { true }
    #[verifier::external_body]
    fn rinto(self) -> (r: ri32) { unimplemented!() }
}
impl RFrom<ri8> for ri32 {
    open spec fn rfrom_spec(t: ri8) -> ri32 { ri32 { val: t.val as i32 } }
    open spec fn rfrom_req(t: ri8) -> bool { true }
    #[verifier::external_body]
    fn rfrom(t: ri8) -> (r: ri32) { unimplemented!() }
}

impl RInto<ri64> for ri8 {
    open spec fn rinto_spec(self) -> ri64 { ri64 { val: self.val as i64 } }
    open spec fn rinto_req(self) -> bool { true }
    #[verifier::external_body]
    fn rinto(self) -> (r: ri64) { unimplemented!() }
}
impl RFrom<ri8> for ri64 {
    open spec fn rfrom_spec(t: ri8) -> ri64 { ri64 { val: t.val as i64 } }
    open spec fn rfrom_req(t: ri8) -> bool { true }
    #[verifier::external_body]
    fn rfrom(t: ri8) -> (r: ri64) { unimplemented!() }
}

impl RInto<ri128> for ri8 {
    open spec fn rinto_spec(self) -> ri128 { ri128 { val: self.val as i128 } }
    open spec fn rinto_req(self) -> bool { true }
    #[verifier::external_body]
    fn rinto(self) -> (r: ri128) { unimplemented!() }
}
impl RFrom<ri8> for ri128 {
    open spec fn rfrom_spec(t: ri8) -> ri128 { ri128 { val: t.val as i128 } }
    open spec fn rfrom_req(t: ri8) -> bool { true }
    #[verifier::external_body]
    fn rfrom(t: ri8) -> (r: ri128) { unimplemented!() }
}

impl RInto<ri8> for ri16 {
    open spec fn rinto_spec(self) -> ri8 { ri8 { val: self.val as i8 } }
    open spec fn rinto_req(self) -> bool { i8::MIN <= self.val <= i8::MAX }
    #[verifier::external_body]
    fn rinto(self) -> (r: ri8) { unimplemented!() }
}
impl RFrom<ri16> for ri8 {
    open spec fn rfrom_spec(t: ri16) -> ri8 { ri8 { val: t.val as i8 } }
    open spec fn rfrom_req(t: ri16) -> bool { i8::MIN <= t.val <= i8::MAX }
    #[verifier::external_body]
    fn rfrom(t: ri16) -> (r: ri8) { unimplemented!() }
}

impl RInto<ri32> for ri16 {
    open spec fn rinto_spec(self) -> ri32 { ri32 { val: self.val as i32 } }
    open spec fn rinto_req(self) -> bool { true }
    #[verifier::external_body]
    fn rinto(self) -> (r: ri32) { unimplemented!() }
}
impl RFrom<ri16> for ri32 {
    open spec fn rfrom_spec(t: ri16) -> ri32 { ri32 { val: t.val as i32 } }
    open spec fn rfrom_req(t: ri16) -> bool { true }
    #[verifier::external_body]
    fn rfrom(t: ri16) -> (r: ri32) { unimplemented!() }
}

impl RInto<ri64> for ri16 {
    open spec fn rinto_spec(self) -> ri64 { ri64 { val: self.val as i64 } }
    open spec fn rinto_req(self) -> bool { true }
    #[verifier::external_body]
    fn rinto(self) -> (r: ri64) { unimplemented!() }
}
impl RFrom<ri16> for ri64 {
    open spec fn rfrom_spec(t: ri16) -> ri64 { ri64 { val: t.val as i64 } }
    open spec fn rfrom_req(t: ri16) -> bool { true }
    #[verifier::external_body]
    fn rfrom(t: ri16) -> (r: ri64) { unimplemented!() }
}

impl RInto<ri128> for ri16 {
    open spec fn rinto_spec(self) -> ri128 { ri128 { val: self.val as i128 } }
    open spec fn rinto_req(self) -> bool { true }
    #[verifier::external_body]
    fn rinto(self) -> (r: ri128) { unimplemented!() }
}
impl RFrom<ri16> for ri128 {
    open spec fn rfrom_spec(t: ri16) -> ri128 { ri128 { val: t.val as i128 } }
    open spec fn rfrom_req(t: ri16) -> bool { true }
    #[verifier::external_body]
    fn rfrom(t: ri16) -> (r: ri128) { unimplemented!() }
}

impl RInto<ri8> for ri32 {
    open spec fn rinto_spec(self) -> ri8 { ri8 { val: self.val as i8 } }
    open spec fn rinto_req(self) -> bool { i8::MIN <= self.val <= i8::MAX }
    #[verifier::external_body]
    fn rinto(self) -> (r: ri8) { unimplemented!() }
}
impl RFrom<ri32> for ri8 {
    open spec fn rfrom_spec(t: ri32) -> ri8 { ri8 { val: t.val as i8 } }
    open spec fn rfrom_req(t: ri32) -> bool { i8::MIN <= t.val <= i8::MAX }
    #[verifier::external_body]
    fn rfrom(t: ri32) -> (r: ri8) { unimplemented!() }
}

impl RInto<ri16> for ri32 {
    open spec fn rinto_spec(self) -> ri16 { ri16 { val: self.val as i16 } }
    open spec fn rinto_req(self) -> bool { i16::MIN <= self.val <= i16::MAX }
    #[verifier::external_body]
    fn rinto(self) -> (r: ri16) { unimplemented!() }
}
impl RFrom<ri32> for ri16 {
    open spec fn rfrom_spec(t: ri32) -> ri16 { ri16 { val: t.val as i16 } }
    open spec fn rfrom_req(t: ri32) -> bool { i16::MIN <= t.val <= i16::MAX }
    #[verifier::external_body]
    fn rfrom(t: ri32) -> (r: ri16) { unimplemented!() }
}

impl RInto<ri64> for ri32 {
    open spec fn rinto_spec(self) -> ri64 { ri64 { val: self.val as i64 } }
    open spec fn rinto_req(self) -> bool { true }
    #[verifier::external_body]
    fn rinto(self) -> (r: ri64) { unimplemented!() }
}
impl RFrom<ri32> for ri64 {
    open spec fn rfrom_spec(t: ri32) -> ri64 { ri64 { val: t.val as i64 } }
    open spec fn rfrom_req(t: ri32) -> bool { true }
    #[verifier::external_body]
    fn rfrom(t: ri32) -> (r: ri64) { unimplemented!() }
}

impl RInto<ri128> for ri32 {
    open spec fn rinto_spec(self) -> ri128 { ri128 { val: self.val as i128 } }
    open spec fn rinto_req(self) -> bool { true }
    #[verifier::external_body]
    fn rinto(self) -> (r: ri128) { unimplemented!() }
}
impl RFrom<ri32> for ri128 {
    open spec fn rfrom_spec(t: ri32) -> ri128 { ri128 { val: t.val as i128 } }
    open spec fn rfrom_req(t: ri32) -> bool { true }
    #[verifier::external_body]
    fn rfrom(t: ri32) -> (r: ri128) { unimplemented!() }
}

impl RInto<ri8> for ri64 {
    open spec fn rinto_spec(self) -> ri8 { ri8 { val: self.val as i8 } }
    open spec fn rinto_req(self) -> bool { i8::MIN <= self.val <= i8::MAX }
    #[verifier::external_body]
    fn rinto(self) -> (r: ri8) { unimplemented!() }
}
impl RFrom<ri64> for ri8 {
    open spec fn rfrom_spec(t: ri64) -> ri8 { ri8 { val: t.val as i8 } }
    open spec fn rfrom_req(t: ri64) -> bool { i8::MIN <= t.val <= i8::MAX }
    #[verifier::external_body]
    fn rfrom(t: ri64) -> (r: ri8) { unimplemented!() }
}

impl RInto<ri16> for ri64 {
    open spec fn rinto_spec(self) -> ri16 { ri16 { val: self.val as i16 } }
    open spec fn rinto_req(self) -> bool { i16::MIN <= self.val <= i16::MAX }
    #[verifier::external_body]
    fn rinto(self) -> (r: ri16) { unimplemented!() }
}
impl RFrom<ri64> for ri16 {
    open spec fn rfrom_spec(t: ri64) -> ri16 { ri16 { val: t.val as i16 } }
    open spec fn rfrom_req(t: ri64) -> bool { i16::MIN <= t.val <= i16::MAX }
    #[verifier::external_body]
    fn rfrom(t: ri64) -> (r: ri16) { unimplemented!() }
}

impl RInto<ri32> for ri64 {
    open spec fn rinto_spec(self) -> ri32 { ri32 { val: self.val as i32 } }
    open spec fn rinto_req(self) -> bool { i32::MIN <= self.val <= i32::MAX }
    #[verifier::external_body]
    fn rinto(self) -> (r: ri32) { unimplemented!() }
}
impl RFrom<ri64> for ri32 {
    open spec fn rfrom_spec(t: ri64) -> ri32 { ri32 { val: t.val as i32 } }
    open spec fn rfrom_req(t: ri64) -> bool { i32::MIN <= t.val <= i32::MAX }
    #[verifier::external_body]
    fn rfrom(t: ri64) -> (r: ri32) { unimplemented!() }
}

impl RInto<ri128> for ri64 {
    open spec fn rinto_spec(self) -> ri128 { ri128 { val: self.val as i128 } }
    open spec fn rinto_req(self) -> bool { true }
    #[verifier::external_body]
    fn rinto(self) -> (r: ri128) { unimplemented!() }
}
impl RFrom<ri64> for ri128 {
    open spec fn rfrom_spec(t: ri64) -> ri128 { ri128 { val: t.val as i128 } }
    open spec fn rfrom_req(t: ri64) -> bool { true }
    #[verifier::external_body]
    fn rfrom(t: ri64) -> (r: ri128) { unimplemented!() }
}

impl RInto<ri8> for ri128 {
    open spec fn rinto_spec(self) -> ri8 { ri8 { val: self.val as i8 } }
    open spec fn rinto_req(self) -> bool { i8::MIN <= self.val <= i8::MAX }
    #[verifier::external_body]
    fn rinto(self) -> (r: ri8) { unimplemented!() }
}
impl RFrom<ri128> for ri8 {
    open spec fn rfrom_spec(t: ri128) -> ri8 { ri8 { val: t.val as i8 } }
    open spec fn rfrom_req(t: ri128) -> bool { i8::MIN <= t.val <= i8::MAX }
    #[verifier::external_body]
    fn rfrom(t: ri128) -> (r: ri8) { unimplemented!() }
}

impl RInto<ri16> for ri128 {
    open spec fn rinto_spec(self) -> ri16 { ri16 { val: self.val as i16 } }
    open spec fn rinto_req(self) -> bool { i16::MIN <= self.val <= i16::MAX }
    #[verifier::external_body]
    fn rinto(self) -> (r: ri16) { unimplemented!() }
}
impl RFrom<ri128> for ri16 {
    open spec fn rfrom_spec(t: ri128) -> ri16 { ri16 { val: t.val as i16 } }
    open spec fn rfrom_req(t: ri128) -> bool { i16::MIN <= t.val <= i16::MAX }
    #[verifier::external_body]
    fn rfrom(t: ri128) -> (r: ri16) { unimplemented!() }
}

impl RInto<ri32> for ri128 {
    open spec fn rinto_spec(self) -> ri32 { ri32 { val: self.val as i32 } }
    open spec fn rinto_req(self) -> bool { i32::MIN <= self.val <= i32::MAX }
    #[verifier::external_body]
    fn rinto(self) -> (r: ri32) { unimplemented!() }
}
impl RFrom<ri128> for ri32 {
    open spec fn rfrom_spec(t: ri128) -> ri32 { ri32 { val: t.val as i32 } }
    open spec fn rfrom_req(t: ri128) -> bool { i32::MIN <= t.val <= i32::MAX }
    #[verifier::external_body]
    fn rfrom(t: ri128) -> (r: ri32) { unimplemented!() }
}

impl RInto<ri64> for ri128 {
    open spec fn rinto_spec(self) -> ri64 { ri64 { val: self.val as i64 } }
    open spec fn rinto_req(self) -> bool { i64::MIN <= self.val <= i64::MAX }
    #[verifier::external_body]
    fn rinto(self) -> (r: ri64) { unimplemented!() }
}
impl RFrom<ri128> for ri64 {
    open spec fn rfrom_spec(t: ri128) -> ri64 { ri64 { val: t.val as i64 } }
    open spec fn rfrom_req(t: ri128) -> bool { i64::MIN <= t.val <= i64::MAX }
    #[verifier::external_body]
    fn rfrom(t: ri128) -> (r: ri64) { unimplemented!() }
}


// ------------------------------------------------------------------ aliases (bounds re-introduced here only)
#[verifier::external_body]
#[derive(Debug)]
pub struct Error { _p: () }
#[verifier::external_body]
pub fn verif_err() -> Error { unimplemented!() }
pub type NoUnits = ri64;
pub open spec fn NoUnits_MIN() -> int { -9223372036854775808 }
pub open spec fn NoUnits_MAX() -> int { 9223372036854775807 }
pub open spec fn in_NoUnits(v: int) -> bool { -9223372036854775808 <= v <= 9223372036854775807 }
#[verifier::external_body]
pub fn verif_try_rfrom_NoUnits_8(r: ri8) -> (res: Result<ri64, Error>)
    ensures res.is_ok() <==> in_NoUnits(r.val as int), res.is_ok() ==> res.unwrap().val == r.val
{ unimplemented!() }
#[verifier::external_body]
pub fn verif_try_rfrom_NoUnits_16(r: ri16) -> (res: Result<ri64, Error>)
    ensures res.is_ok() <==> in_NoUnits(r.val as int), res.is_ok() ==> res.unwrap().val == r.val
{ unimplemented!() }
#[verifier::external_body]
pub fn verif_try_rfrom_NoUnits_32(r: ri32) -> (res: Result<ri64, Error>)
    ensures res.is_ok() <==> in_NoUnits(r.val as int), res.is_ok() ==> res.unwrap().val == r.val
{ unimplemented!() }
#[verifier::external_body]
pub fn verif_try_rfrom_NoUnits_64(r: ri64) -> (res: Result<ri64, Error>)
    ensures res.is_ok() <==> in_NoUnits(r.val as int), res.is_ok() ==> res.unwrap().val == r.val
{ unimplemented!() }
#[verifier::external_body]
pub fn verif_try_rfrom_NoUnits_128(r: ri128) -> (res: Result<ri64, Error>)
    ensures res.is_ok() <==> in_NoUnits(r.val as int), res.is_ok() ==> res.unwrap().val == r.val
{ unimplemented!() }
#[verifier::external_body]
pub fn verif_try_new_NoUnits(v: i64) -> (res: Result<ri64, Error>)
    ensures res.is_ok() <==> in_NoUnits(v as int), res.is_ok() ==> res.unwrap().val == v
{ unimplemented!() }
#[verifier::external_body]
pub fn verif_try_new128_NoUnits(v: i128) -> (res: Result<ri64, Error>)
    ensures res.is_ok() <==> in_NoUnits(v as int), res.is_ok() ==> res.unwrap().val == v
{ unimplemented!() }
// `NoUnits::MIN` / `NoUnits::MAX` (associated consts of type i128)
pub fn verif_MIN_NoUnits() -> (r: i128) ensures r == NoUnits_MIN() { -9223372036854775808 }
pub fn verif_MAX_NoUnits() -> (r: i128) ensures r == NoUnits_MAX() { 9223372036854775807 }
// `x.try_checked_mul("what", rhs)` with x: NoUnits -- Ok iff the exact product lies within NoUnits::MIN..=MAX
#[verifier::external_body]
pub fn verif_try_checked_mul_NoUnits<R: RInto<ri64>>(x: ri64, rhs: R) -> (res: Result<ri64, Error>)
    requires rhs.rinto_req(),
    ensures res.is_ok() <==> in_NoUnits(x.val * rhs.rinto_spec().val), res.is_ok() ==> res.unwrap().val == x.val * rhs.rinto_spec().val
{ unimplemented!() }
// `x.try_checked_add/sub("what", rhs)` and `x.checked_add/sub/mul(rhs)` with x: NoUnits -- fail iff the exact result leaves NoUnits::MIN..=MAX
#[verifier::external_body]
pub fn verif_try_checked_add_NoUnits<R: RInto<ri64>>(x: ri64, rhs: R) -> (res: Result<ri64, Error>)
    requires rhs.rinto_req(),
    ensures res.is_ok() <==> in_NoUnits(x.val + rhs.rinto_spec().val), res.is_ok() ==> res.unwrap().val == x.val + rhs.rinto_spec().val
{ unimplemented!() }
#[verifier::external_body]
pub fn verif_try_checked_sub_NoUnits<R: RInto<ri64>>(x: ri64, rhs: R) -> (res: Result<ri64, Error>)
    requires rhs.rinto_req(),
    ensures res.is_ok() <==> in_NoUnits(x.val - rhs.rinto_spec().val), res.is_ok() ==> res.unwrap().val == x.val - rhs.rinto_spec().val
{ unimplemented!() }
#[verifier::external_body]
pub fn verif_checked_add_NoUnits<R: RInto<ri64>>(x: ri64, rhs: R) -> (res: Option<ri64>)
    requires rhs.rinto_req(),
    ensures res.is_some() <==> in_NoUnits(x.val + rhs.rinto_spec().val), res.is_some() ==> res.unwrap().val == x.val + rhs.rinto_spec().val
{ unimplemented!() }
#[verifier::external_body]
pub fn verif_checked_sub_NoUnits<R: RInto<ri64>>(x: ri64, rhs: R) -> (res: Option<ri64>)
    requires rhs.rinto_req(),
    ensures res.is_some() <==> in_NoUnits(x.val - rhs.rinto_spec().val), res.is_some() ==> res.unwrap().val == x.val - rhs.rinto_spec().val
{ unimplemented!() }
#[verifier::external_body]
pub fn verif_checked_mul_NoUnits<R: RInto<ri64>>(x: ri64, rhs: R) -> (res: Option<ri64>)
    requires rhs.rinto_req(),
    ensures res.is_some() <==> in_NoUnits(x.val * rhs.rinto_spec().val), res.is_some() ==> res.unwrap().val == x.val * rhs.rinto_spec().val
{ unimplemented!() }
pub type NoUnits128 = ri128;
pub open spec fn NoUnits128_MIN() -> int { -170141183460469231731687303715884105728 }
pub open spec fn NoUnits128_MAX() -> int { 170141183460469231731687303715884105727 }
pub open spec fn in_NoUnits128(v: int) -> bool { -170141183460469231731687303715884105728 <= v <= 170141183460469231731687303715884105727 }
#[verifier::external_body]
pub fn verif_try_rfrom_NoUnits128_8(r: ri8) -> (res: Result<ri128, Error>)
    ensures res.is_ok() <==> in_NoUnits128(r.val as int), res.is_ok() ==> res.unwrap().val == r.val
{ unimplemented!() }
#[verifier::external_body]
pub fn verif_try_rfrom_NoUnits128_16(r: ri16) -> (res: Result<ri128, Error>)
    ensures res.is_ok() <==> in_NoUnits128(r.val as int), res.is_ok() ==> res.unwrap().val == r.val
{ unimplemented!() }
#[verifier::external_body]
pub fn verif_try_rfrom_NoUnits128_32(r: ri32) -> (res: Result<ri128, Error>)
    ensures res.is_ok() <==> in_NoUnits128(r.val as int), res.is_ok() ==> res.unwrap().val == r.val
{ unimplemented!() }
#[verifier::external_body]
pub fn verif_try_rfrom_NoUnits128_64(r: ri64) -> (res: Result<ri128, Error>)
    ensures res.is_ok() <==> in_NoUnits128(r.val as int), res.is_ok() ==> res.unwrap().val == r.val
{ unimplemented!() }
#[verifier::external_body]
pub fn verif_try_rfrom_NoUnits128_128(r: ri128) -> (res: Result<ri128, Error>)
    ensures res.is_ok() <==> in_NoUnits128(r.val as int), res.is_ok() ==> res.unwrap().val == r.val
{ unimplemented!() }
#[verifier::external_body]
pub fn verif_try_new_NoUnits128(v: i64) -> (res: Result<ri128, Error>)
    ensures res.is_ok() <==> in_NoUnits128(v as int), res.is_ok() ==> res.unwrap().val == v
{ unimplemented!() }
#[verifier::external_body]
pub fn verif_try_new128_NoUnits128(v: i128) -> (res: Result<ri128, Error>)
    ensures res.is_ok() <==> in_NoUnits128(v as int), res.is_ok() ==> res.unwrap().val == v
{ unimplemented!() }
// `NoUnits128::MIN` / `NoUnits128::MAX` (associated consts of type i128)
pub fn verif_MIN_NoUnits128() -> (r: i128) ensures r == NoUnits128_MIN() { -170141183460469231731687303715884105728 }
pub fn verif_MAX_NoUnits128() -> (r: i128) ensures r == NoUnits128_MAX() { 170141183460469231731687303715884105727 }
// `x.try_checked_mul("what", rhs)` with x: NoUnits128 -- Ok iff the exact product lies within NoUnits128::MIN..=MAX
#[verifier::external_body]
pub fn verif_try_checked_mul_NoUnits128<R: RInto<ri128>>(x: ri128, rhs: R) -> (res: Result<ri128, Error>)
    requires rhs.rinto_req(),
    ensures res.is_ok() <==> in_NoUnits128(x.val * rhs.rinto_spec().val), res.is_ok() ==> res.unwrap().val == x.val * rhs.rinto_spec().val
{ unimplemented!() }
// `x.try_checked_add/sub("what", rhs)` and `x.checked_add/sub/mul(rhs)` with x: NoUnits128 -- fail iff the exact result leaves NoUnits128::MIN..=MAX
#[verifier::external_body]
pub fn verif_try_checked_add_NoUnits128<R: RInto<ri128>>(x: ri128, rhs: R) -> (res: Result<ri128, Error>)
    requires rhs.rinto_req(),
    ensures res.is_ok() <==> in_NoUnits128(x.val + rhs.rinto_spec().val), res.is_ok() ==> res.unwrap().val == x.val + rhs.rinto_spec().val
{ unimplemented!() }
#[verifier::external_body]
pub fn verif_try_checked_sub_NoUnits128<R: RInto<ri128>>(x: ri128, rhs: R) -> (res: Result<ri128, Error>)
    requires rhs.rinto_req(),
    ensures res.is_ok() <==> in_NoUnits128(x.val - rhs.rinto_spec().val), res.is_ok() ==> res.unwrap().val == x.val - rhs.rinto_spec().val
{ unimplemented!() }
#[verifier::external_body]
pub fn verif_checked_add_NoUnits128<R: RInto<ri128>>(x: ri128, rhs: R) -> (res: Option<ri128>)
    requires rhs.rinto_req(),
    ensures res.is_some() <==> in_NoUnits128(x.val + rhs.rinto_spec().val), res.is_some() ==> res.unwrap().val == x.val + rhs.rinto_spec().val
{ unimplemented!() }
#[verifier::external_body]
pub fn verif_checked_sub_NoUnits128<R: RInto<ri128>>(x: ri128, rhs: R) -> (res: Option<ri128>)
    requires rhs.rinto_req(),
    ensures res.is_some() <==> in_NoUnits128(x.val - rhs.rinto_spec().val), res.is_some() ==> res.unwrap().val == x.val - rhs.rinto_spec().val
{ unimplemented!() }
#[verifier::external_body]
pub fn verif_checked_mul_NoUnits128<R: RInto<ri128>>(x: ri128, rhs: R) -> (res: Option<ri128>)
    requires rhs.rinto_req(),
    ensures res.is_some() <==> in_NoUnits128(x.val * rhs.rinto_spec().val), res.is_some() ==> res.unwrap().val == x.val * rhs.rinto_spec().val
{ unimplemented!() }
pub type NoUnits96 = ri128;
pub open spec fn NoUnits96_MIN() -> int { -39614081257132168796771975168 }
pub open spec fn NoUnits96_MAX() -> int { 39614081257132168796771975167 }
pub open spec fn in_NoUnits96(v: int) -> bool { -39614081257132168796771975168 <= v <= 39614081257132168796771975167 }
#[verifier::external_body]
pub fn verif_try_rfrom_NoUnits96_8(r: ri8) -> (res: Result<ri128, Error>)
    ensures res.is_ok() <==> in_NoUnits96(r.val as int), res.is_ok() ==> res.unwrap().val == r.val
{ unimplemented!() }
#[verifier::external_body]
pub fn verif_try_rfrom_NoUnits96_16(r: ri16) -> (res: Result<ri128, Error>)
    ensures res.is_ok() <==> in_NoUnits96(r.val as int), res.is_ok() ==> res.unwrap().val == r.val
{ unimplemented!() }
#[verifier::external_body]
pub fn verif_try_rfrom_NoUnits96_32(r: ri32) -> (res: Result<ri128, Error>)
    ensures res.is_ok() <==> in_NoUnits96(r.val as int), res.is_ok() ==> res.unwrap().val == r.val
{ unimplemented!() }
#[verifier::external_body]
pub fn verif_try_rfrom_NoUnits96_64(r: ri64) -> (res: Result<ri128, Error>)
    ensures res.is_ok() <==> in_NoUnits96(r.val as int), res.is_ok() ==> res.unwrap().val == r.val
{ unimplemented!() }
#[verifier::external_body]
pub fn verif_try_rfrom_NoUnits96_128(r: ri128) -> (res: Result<ri128, Error>)
    ensures res.is_ok() <==> in_NoUnits96(r.val as int), res.is_ok() ==> res.unwrap().val == r.val
{ unimplemented!() }
#[verifier::external_body]
pub fn verif_try_new_NoUnits96(v: i64) -> (res: Result<ri128, Error>)
    ensures res.is_ok() <==> in_NoUnits96(v as int), res.is_ok() ==> res.unwrap().val == v
{ unimplemented!() }
#[verifier::external_body]
pub fn verif_try_new128_NoUnits96(v: i128) -> (res: Result<ri128, Error>)
    ensures res.is_ok() <==> in_NoUnits96(v as int), res.is_ok() ==> res.unwrap().val == v
{ unimplemented!() }
// `NoUnits96::MIN` / `NoUnits96::MAX` (associated consts of type i128)
pub fn verif_MIN_NoUnits96() -> (r: i128) ensures r == NoUnits96_MIN() { -39614081257132168796771975168 }
pub fn verif_MAX_NoUnits96() -> (r: i128) ensures r == NoUnits96_MAX() { 39614081257132168796771975167 }
// `x.try_checked_mul("what", rhs)` with x: NoUnits96 -- Ok iff the exact product lies within NoUnits96::MIN..=MAX
#[verifier::external_body]
pub fn verif_try_checked_mul_NoUnits96<R: RInto<ri128>>(x: ri128, rhs: R) -> (res: Result<ri128, Error>)
    requires rhs.rinto_req(),
    ensures res.is_ok() <==> in_NoUnits96(x.val * rhs.rinto_spec().val), res.is_ok() ==> res.unwrap().val == x.val * rhs.rinto_spec().val
{ unimplemented!() }
// `x.try_checked_add/sub("what", rhs)` and `x.checked_add/sub/mul(rhs)` with x: NoUnits96 -- fail iff the exact result leaves NoUnits96::MIN..=MAX
#[verifier::external_body]
pub fn verif_try_checked_add_NoUnits96<R: RInto<ri128>>(x: ri128, rhs: R) -> (res: Result<ri128, Error>)
    requires rhs.rinto_req(),
    ensures res.is_ok() <==> in_NoUnits96(x.val + rhs.rinto_spec().val), res.is_ok() ==> res.unwrap().val == x.val + rhs.rinto_spec().val
{ unimplemented!() }
#[verifier::external_body]
pub fn verif_try_checked_sub_NoUnits96<R: RInto<ri128>>(x: ri128, rhs: R) -> (res: Result<ri128, Error>)
    requires rhs.rinto_req(),
    ensures res.is_ok() <==> in_NoUnits96(x.val - rhs.rinto_spec().val), res.is_ok() ==> res.unwrap().val == x.val - rhs.rinto_spec().val
{ unimplemented!() }
#[verifier::external_body]
pub fn verif_checked_add_NoUnits96<R: RInto<ri128>>(x: ri128, rhs: R) -> (res: Option<ri128>)
    requires rhs.rinto_req(),
    ensures res.is_some() <==> in_NoUnits96(x.val + rhs.rinto_spec().val), res.is_some() ==> res.unwrap().val == x.val + rhs.rinto_spec().val
{ unimplemented!() }
#[verifier::external_body]
pub fn verif_checked_sub_NoUnits96<R: RInto<ri128>>(x: ri128, rhs: R) -> (res: Option<ri128>)
    requires rhs.rinto_req(),
    ensures res.is_some() <==> in_NoUnits96(x.val - rhs.rinto_spec().val), res.is_some() ==> res.unwrap().val == x.val - rhs.rinto_spec().val
{ unimplemented!() }
#[verifier::external_body]
pub fn verif_checked_mul_NoUnits96<R: RInto<ri128>>(x: ri128, rhs: R) -> (res: Option<ri128>)
    requires rhs.rinto_req(),
    ensures res.is_some() <==> in_NoUnits96(x.val * rhs.rinto_spec().val), res.is_some() ==> res.unwrap().val == x.val * rhs.rinto_spec().val
{ unimplemented!() }
pub type NoUnits32 = ri32;
pub open spec fn NoUnits32_MIN() -> int { -2147483648 }
pub open spec fn NoUnits32_MAX() -> int { 2147483647 }
pub open spec fn in_NoUnits32(v: int) -> bool { -2147483648 <= v <= 2147483647 }
#[verifier::external_body]
pub fn verif_try_rfrom_NoUnits32_8(r: ri8) -> (res: Result<ri32, Error>)
    ensures res.is_ok() <==> in_NoUnits32(r.val as int), res.is_ok() ==> res.unwrap().val == r.val
{ unimplemented!() }
#[verifier::external_body]
pub fn verif_try_rfrom_NoUnits32_16(r: ri16) -> (res: Result<ri32, Error>)
    ensures res.is_ok() <==> in_NoUnits32(r.val as int), res.is_ok() ==> res.unwrap().val == r.val
{ unimplemented!() }
#[verifier::external_body]
pub fn verif_try_rfrom_NoUnits32_32(r: ri32) -> (res: Result<ri32, Error>)
    ensures res.is_ok() <==> in_NoUnits32(r.val as int), res.is_ok() ==> res.unwrap().val == r.val
{ unimplemented!() }
#[verifier::external_body]
pub fn verif_try_rfrom_NoUnits32_64(r: ri64) -> (res: Result<ri32, Error>)
    ensures res.is_ok() <==> in_NoUnits32(r.val as int), res.is_ok() ==> res.unwrap().val == r.val
{ unimplemented!() }
#[verifier::external_body]
pub fn verif_try_rfrom_NoUnits32_128(r: ri128) -> (res: Result<ri32, Error>)
    ensures res.is_ok() <==> in_NoUnits32(r.val as int), res.is_ok() ==> res.unwrap().val == r.val
{ unimplemented!() }
#[verifier::external_body]
pub fn verif_try_new_NoUnits32(v: i64) -> (res: Result<ri32, Error>)
    ensures res.is_ok() <==> in_NoUnits32(v as int), res.is_ok() ==> res.unwrap().val == v
{ unimplemented!() }
#[verifier::external_body]
pub fn verif_try_new128_NoUnits32(v: i128) -> (res: Result<ri32, Error>)
    ensures res.is_ok() <==> in_NoUnits32(v as int), res.is_ok() ==> res.unwrap().val == v
{ unimplemented!() }
// `NoUnits32::MIN` / `NoUnits32::MAX` (associated consts of type i128)
pub fn verif_MIN_NoUnits32() -> (r: i128) ensures r == NoUnits32_MIN() { -2147483648 }
pub fn verif_MAX_NoUnits32() -> (r: i128) ensures r == NoUnits32_MAX() { 2147483647 }
// `x.try_checked_mul("what", rhs)` with x: NoUnits32 -- Ok iff the exact product lies within NoUnits32::MIN..=MAX
#[verifier::external_body]
pub fn verif_try_checked_mul_NoUnits32<R: RInto<ri32>>(x: ri32, rhs: R) -> (res: Result<ri32, Error>)
    requires rhs.rinto_req(),
    ensures res.is_ok() <==> in_NoUnits32(x.val * rhs.rinto_spec().val), res.is_ok() ==> res.unwrap().val == x.val * rhs.rinto_spec().val
{ unimplemented!() }
// `x.try_checked_add/sub("what", rhs)` and `x.checked_add/sub/mul(rhs)` with x: NoUnits32 -- fail iff the exact result leaves NoUnits32::MIN..=MAX
#[verifier::external_body]
pub fn verif_try_checked_add_NoUnits32<R: RInto<ri32>>(x: ri32, rhs: R) -> (res: Result<ri32, Error>)
    requires rhs.rinto_req(),
    ensures res.is_ok() <==> in_NoUnits32(x.val + rhs.rinto_spec().val), res.is_ok() ==> res.unwrap().val == x.val + rhs.rinto_spec().val
{ unimplemented!() }
#[verifier::external_body]
pub fn verif_try_checked_sub_NoUnits32<R: RInto<ri32>>(x: ri32, rhs: R) -> (res: Result<ri32, Error>)
    requires rhs.rinto_req(),
    ensures res.is_ok() <==> in_NoUnits32(x.val - rhs.rinto_spec().val), res.is_ok() ==> res.unwrap().val == x.val - rhs.rinto_spec().val
{ unimplemented!() }
#[verifier::external_body]
pub fn verif_checked_add_NoUnits32<R: RInto<ri32>>(x: ri32, rhs: R) -> (res: Option<ri32>)
    requires rhs.rinto_req(),
    ensures res.is_some() <==> in_NoUnits32(x.val + rhs.rinto_spec().val), res.is_some() ==> res.unwrap().val == x.val + rhs.rinto_spec().val
{ unimplemented!() }
#[verifier::external_body]
pub fn verif_checked_sub_NoUnits32<R: RInto<ri32>>(x: ri32, rhs: R) -> (res: Option<ri32>)
    requires rhs.rinto_req(),
    ensures res.is_some() <==> in_NoUnits32(x.val - rhs.rinto_spec().val), res.is_some() ==> res.unwrap().val == x.val - rhs.rinto_spec().val
{ unimplemented!() }
#[verifier::external_body]
pub fn verif_checked_mul_NoUnits32<R: RInto<ri32>>(x: ri32, rhs: R) -> (res: Option<ri32>)
    requires rhs.rinto_req(),
    ensures res.is_some() <==> in_NoUnits32(x.val * rhs.rinto_spec().val), res.is_some() ==> res.unwrap().val == x.val * rhs.rinto_spec().val
{ unimplemented!() }
pub type NoUnits16 = ri16;
pub open spec fn NoUnits16_MIN() -> int { -32768 }
pub open spec fn NoUnits16_MAX() -> int { 32767 }
pub open spec fn in_NoUnits16(v: int) -> bool { -32768 <= v <= 32767 }
#[verifier::external_body]
pub fn verif_try_rfrom_NoUnits16_8(r: ri8) -> (res: Result<ri16, Error>)
    ensures res.is_ok() <==> in_NoUnits16(r.val as int), res.is_ok() ==> res.unwrap().val == r.val
{ unimplemented!() }
#[verifier::external_body]
pub fn verif_try_rfrom_NoUnits16_16(r: ri16) -> (res: Result<ri16, Error>)
    ensures res.is_ok() <==> in_NoUnits16(r.val as int), res.is_ok() ==> res.unwrap().val == r.val
{ unimplemented!() }
#[verifier::external_body]
pub fn verif_try_rfrom_NoUnits16_32(r: ri32) -> (res: Result<ri16, Error>)
    ensures res.is_ok() <==> in_NoUnits16(r.val as int), res.is_ok() ==> res.unwrap().val == r.val
{ unimplemented!() }
#[verifier::external_body]
pub fn verif_try_rfrom_NoUnits16_64(r: ri64) -> (res: Result<ri16, Error>)
    ensures res.is_ok() <==> in_NoUnits16(r.val as int), res.is_ok() ==> res.unwrap().val == r.val
{ unimplemented!() }
#[verifier::external_body]
pub fn verif_try_rfrom_NoUnits16_128(r: ri128) -> (res: Result<ri16, Error>)
    ensures res.is_ok() <==> in_NoUnits16(r.val as int), res.is_ok() ==> res.unwrap().val == r.val
{ unimplemented!() }
#[verifier::external_body]
pub fn verif_try_new_NoUnits16(v: i64) -> (res: Result<ri16, Error>)
    ensures res.is_ok() <==> in_NoUnits16(v as int), res.is_ok() ==> res.unwrap().val == v
{ unimplemented!() }
#[verifier::external_body]
pub fn verif_try_new128_NoUnits16(v: i128) -> (res: Result<ri16, Error>)
    ensures res.is_ok() <==> in_NoUnits16(v as int), res.is_ok() ==> res.unwrap().val == v
{ unimplemented!() }
// `NoUnits16::MIN` / `NoUnits16::MAX` (associated consts of type i128)
pub fn verif_MIN_NoUnits16() -> (r: i128) ensures r == NoUnits16_MIN() { -32768 }
pub fn verif_MAX_NoUnits16() -> (r: i128) ensures r == NoUnits16_MAX() { 32767 }
// `x.try_checked_mul("what", rhs)` with x: NoUnits16 -- Ok iff the exact product lies within NoUnits16::MIN..=MAX
#[verifier::external_body]
pub fn verif_try_checked_mul_NoUnits16<R: RInto<ri16>>(x: ri16, rhs: R) -> (res: Result<ri16, Error>)
    requires rhs.rinto_req(),
    ensures res.is_ok() <==> in_NoUnits16(x.val * rhs.rinto_spec().val), res.is_ok() ==> res.unwrap().val == x.val * rhs.rinto_spec().val
{ unimplemented!() }
// `x.try_checked_add/sub("what", rhs)` and `x.checked_add/sub/mul(rhs)` with x: NoUnits16 -- fail iff the exact result leaves NoUnits16::MIN..=MAX
#[verifier::external_body]
pub fn verif_try_checked_add_NoUnits16<R: RInto<ri16>>(x: ri16, rhs: R) -> (res: Result<ri16, Error>)
    requires rhs.rinto_req(),
    ensures res.is_ok() <==> in_NoUnits16(x.val + rhs.rinto_spec().val), res.is_ok() ==> res.unwrap().val == x.val + rhs.rinto_spec().val
{ unimplemented!() }
#[verifier::external_body]
pub fn verif_try_checked_sub_NoUnits16<R: RInto<ri16>>(x: ri16, rhs: R) -> (res: Result<ri16, Error>)
    requires rhs.rinto_req(),
    ensures res.is_ok() <==> in_NoUnits16(x.val - rhs.rinto_spec().val), res.is_ok() ==> res.unwrap().val == x.val - rhs.rinto_spec().val
{ unimplemented!() }
#[verifier::external_body]
pub fn verif_checked_add_NoUnits16<R: RInto<ri16>>(x: ri16, rhs: R) -> (res: Option<ri16>)
    requires rhs.rinto_req(),
    ensures res.is_some() <==> in_NoUnits16(x.val + rhs.rinto_spec().val), res.is_some() ==> res.unwrap().val == x.val + rhs.rinto_spec().val
{ unimplemented!() }
#[verifier::external_body]
pub fn verif_checked_sub_NoUnits16<R: RInto<ri16>>(x: ri16, rhs: R) -> (res: Option<ri16>)
    requires rhs.rinto_req(),
    ensures res.is_some() <==> in_NoUnits16(x.val - rhs.rinto_spec().val), res.is_some() ==> res.unwrap().val == x.val - rhs.rinto_spec().val
{ unimplemented!() }
#[verifier::external_body]
pub fn verif_checked_mul_NoUnits16<R: RInto<ri16>>(x: ri16, rhs: R) -> (res: Option<ri16>)
    requires rhs.rinto_req(),
    ensures res.is_some() <==> in_NoUnits16(x.val * rhs.rinto_spec().val), res.is_some() ==> res.unwrap().val == x.val * rhs.rinto_spec().val
{ unimplemented!() }
pub type NoUnits8 = ri8;
pub open spec fn NoUnits8_MIN() -> int { -128 }
pub open spec fn NoUnits8_MAX() -> int { 127 }
pub open spec fn in_NoUnits8(v: int) -> bool { -128 <= v <= 127 }
#[verifier::external_body]
pub fn verif_try_rfrom_NoUnits8_8(r: ri8) -> (res: Result<ri8, Error>)
    ensures res.is_ok() <==> in_NoUnits8(r.val as int), res.is_ok() ==> res.unwrap().val == r.val
{ unimplemented!() }
#[verifier::external_body]
pub fn verif_try_rfrom_NoUnits8_16(r: ri16) -> (res: Result<ri8, Error>)
    ensures res.is_ok() <==> in_NoUnits8(r.val as int), res.is_ok() ==> res.unwrap().val == r.val
{ unimplemented!() }
#[verifier::external_body]
pub fn verif_try_rfrom_NoUnits8_32(r: ri32) -> (res: Result<ri8, Error>)
    ensures res.is_ok() <==> in_NoUnits8(r.val as int), res.is_ok() ==> res.unwrap().val == r.val
{ unimplemented!() }
#[verifier::external_body]
pub fn verif_try_rfrom_NoUnits8_64(r: ri64) -> (res: Result<ri8, Error>)
    ensures res.is_ok() <==> in_NoUnits8(r.val as int), res.is_ok() ==> res.unwrap().val == r.val
{ unimplemented!() }
#[verifier::external_body]
pub fn verif_try_rfrom_NoUnits8_128(r: ri128) -> (res: Result<ri8, Error>)
    ensures res.is_ok() <==> in_NoUnits8(r.val as int), res.is_ok() ==> res.unwrap().val == r.val
{ unimplemented!() }
#[verifier::external_body]
pub fn verif_try_new_NoUnits8(v: i64) -> (res: Result<ri8, Error>)
    ensures res.is_ok() <==> in_NoUnits8(v as int), res.is_ok() ==> res.unwrap().val == v
{ unimplemented!() }
#[verifier::external_body]
pub fn verif_try_new128_NoUnits8(v: i128) -> (res: Result<ri8, Error>)
    ensures res.is_ok() <==> in_NoUnits8(v as int), res.is_ok() ==> res.unwrap().val == v
{ unimplemented!() }
// `NoUnits8::MIN` / `NoUnits8::MAX` (associated consts of type i128)
pub fn verif_MIN_NoUnits8() -> (r: i128) ensures r == NoUnits8_MIN() { -128 }
pub fn verif_MAX_NoUnits8() -> (r: i128) ensures r == NoUnits8_MAX() { 127 }
// `x.try_checked_mul("what", rhs)` with x: NoUnits8 -- Ok iff the exact product lies within NoUnits8::MIN..=MAX
#[verifier::external_body]
pub fn verif_try_checked_mul_NoUnits8<R: RInto<ri8>>(x: ri8, rhs: R) -> (res: Result<ri8, Error>)
    requires rhs.rinto_req(),
    ensures res.is_ok() <==> in_NoUnits8(x.val * rhs.rinto_spec().val), res.is_ok() ==> res.unwrap().val == x.val * rhs.rinto_spec().val
{ unimplemented!() }
// `x.try_checked_add/sub("what", rhs)` and `x.checked_add/sub/mul(rhs)` with x: NoUnits8 -- fail iff the exact result leaves NoUnits8::MIN..=MAX
#[verifier::external_body]
pub fn verif_try_checked_add_NoUnits8<R: RInto<ri8>>(x: ri8, rhs: R) -> (res: Result<ri8, Error>)
    requires rhs.rinto_req(),
    ensures res.is_ok() <==> in_NoUnits8(x.val + rhs.rinto_spec().val), res.is_ok() ==> res.unwrap().val == x.val + rhs.rinto_spec().val
{ unimplemented!() }
#[verifier::external_body]
pub fn verif_try_checked_sub_NoUnits8<R: RInto<ri8>>(x: ri8, rhs: R) -> (res: Result<ri8, Error>)
    requires rhs.rinto_req(),
    ensures res.is_ok() <==> in_NoUnits8(x.val - rhs.rinto_spec().val), res.is_ok() ==> res.unwrap().val == x.val - rhs.rinto_spec().val
{ unimplemented!() }
#[verifier::external_body]
pub fn verif_checked_add_NoUnits8<R: RInto<ri8>>(x: ri8, rhs: R) -> (res: Option<ri8>)
    requires rhs.rinto_req(),
    ensures res.is_some() <==> in_NoUnits8(x.val + rhs.rinto_spec().val), res.is_some() ==> res.unwrap().val == x.val + rhs.rinto_spec().val
{ unimplemented!() }
#[verifier::external_body]
pub fn verif_checked_sub_NoUnits8<R: RInto<ri8>>(x: ri8, rhs: R) -> (res: Option<ri8>)
    requires rhs.rinto_req(),
    ensures res.is_some() <==> in_NoUnits8(x.val - rhs.rinto_spec().val), res.is_some() ==> res.unwrap().val == x.val - rhs.rinto_spec().val
{ unimplemented!() }
#[verifier::external_body]
pub fn verif_checked_mul_NoUnits8<R: RInto<ri8>>(x: ri8, rhs: R) -> (res: Option<ri8>)
    requires rhs.rinto_req(),
    ensures res.is_some() <==> in_NoUnits8(x.val * rhs.rinto_spec().val), res.is_some() ==> res.unwrap().val == x.val * rhs.rinto_spec().val
{ unimplemented!() }
pub type Sign = ri8;
pub open spec fn Sign_MIN() -> int { -1 }
pub open spec fn Sign_MAX() -> int { 1 }
pub open spec fn in_Sign(v: int) -> bool { -1 <= v <= 1 }
#[verifier::external_body]
pub fn verif_try_rfrom_Sign_8(r: ri8) -> (res: Result<ri8, Error>)
    ensures res.is_ok() <==> in_Sign(r.val as int), res.is_ok() ==> res.unwrap().val == r.val
{ unimplemented!() }
#[verifier::external_body]
pub fn verif_try_rfrom_Sign_16(r: ri16) -> (res: Result<ri8, Error>)
    ensures res.is_ok() <==> in_Sign(r.val as int), res.is_ok() ==> res.unwrap().val == r.val
{ unimplemented!() }
#[verifier::external_body]
pub fn verif_try_rfrom_Sign_32(r: ri32) -> (res: Result<ri8, Error>)
    ensures res.is_ok() <==> in_Sign(r.val as int), res.is_ok() ==> res.unwrap().val == r.val
{ unimplemented!() }
#[verifier::external_body]
pub fn verif_try_rfrom_Sign_64(r: ri64) -> (res: Result<ri8, Error>)
    ensures res.is_ok() <==> in_Sign(r.val as int), res.is_ok() ==> res.unwrap().val == r.val
{ unimplemented!() }
#[verifier::external_body]
pub fn verif_try_rfrom_Sign_128(r: ri128) -> (res: Result<ri8, Error>)
    ensures res.is_ok() <==> in_Sign(r.val as int), res.is_ok() ==> res.unwrap().val == r.val
{ unimplemented!() }
#[verifier::external_body]
pub fn verif_try_new_Sign(v: i64) -> (res: Result<ri8, Error>)
    ensures res.is_ok() <==> in_Sign(v as int), res.is_ok() ==> res.unwrap().val == v
{ unimplemented!() }
#[verifier::external_body]
pub fn verif_try_new128_Sign(v: i128) -> (res: Result<ri8, Error>)
    ensures res.is_ok() <==> in_Sign(v as int), res.is_ok() ==> res.unwrap().val == v
{ unimplemented!() }
// `Sign::MIN` / `Sign::MAX` (associated consts of type i128)
pub fn verif_MIN_Sign() -> (r: i128) ensures r == Sign_MIN() { -1 }
pub fn verif_MAX_Sign() -> (r: i128) ensures r == Sign_MAX() { 1 }
// `x.try_checked_mul("what", rhs)` with x: Sign -- Ok iff the exact product lies within Sign::MIN..=MAX
#[verifier::external_body]
pub fn verif_try_checked_mul_Sign<R: RInto<ri8>>(x: ri8, rhs: R) -> (res: Result<ri8, Error>)
    requires rhs.rinto_req(),
    ensures res.is_ok() <==> in_Sign(x.val * rhs.rinto_spec().val), res.is_ok() ==> res.unwrap().val == x.val * rhs.rinto_spec().val
{ unimplemented!() }
// `x.try_checked_add/sub("what", rhs)` and `x.checked_add/sub/mul(rhs)` with x: Sign -- fail iff the exact result leaves Sign::MIN..=MAX
#[verifier::external_body]
pub fn verif_try_checked_add_Sign<R: RInto<ri8>>(x: ri8, rhs: R) -> (res: Result<ri8, Error>)
    requires rhs.rinto_req(),
    ensures res.is_ok() <==> in_Sign(x.val + rhs.rinto_spec().val), res.is_ok() ==> res.unwrap().val == x.val + rhs.rinto_spec().val
{ unimplemented!() }
#[verifier::external_body]
pub fn verif_try_checked_sub_Sign<R: RInto<ri8>>(x: ri8, rhs: R) -> (res: Result<ri8, Error>)
    requires rhs.rinto_req(),
    ensures res.is_ok() <==> in_Sign(x.val - rhs.rinto_spec().val), res.is_ok() ==> res.unwrap().val == x.val - rhs.rinto_spec().val
{ unimplemented!() }
#[verifier::external_body]
pub fn verif_checked_add_Sign<R: RInto<ri8>>(x: ri8, rhs: R) -> (res: Option<ri8>)
    requires rhs.rinto_req(),
    ensures res.is_some() <==> in_Sign(x.val + rhs.rinto_spec().val), res.is_some() ==> res.unwrap().val == x.val + rhs.rinto_spec().val
{ unimplemented!() }
#[verifier::external_body]
pub fn verif_checked_sub_Sign<R: RInto<ri8>>(x: ri8, rhs: R) -> (res: Option<ri8>)
    requires rhs.rinto_req(),
    ensures res.is_some() <==> in_Sign(x.val - rhs.rinto_spec().val), res.is_some() ==> res.unwrap().val == x.val - rhs.rinto_spec().val
{ unimplemented!() }
#[verifier::external_body]
pub fn verif_checked_mul_Sign<R: RInto<ri8>>(x: ri8, rhs: R) -> (res: Option<ri8>)
    requires rhs.rinto_req(),
    ensures res.is_some() <==> in_Sign(x.val * rhs.rinto_spec().val), res.is_some() ==> res.unwrap().val == x.val * rhs.rinto_spec().val
{ unimplemented!() }
pub type Year = ri16;
pub open spec fn Year_MIN() -> int { -9999 }
pub open spec fn Year_MAX() -> int { 9999 }
pub open spec fn in_Year(v: int) -> bool { -9999 <= v <= 9999 }
#[verifier::external_body]
pub fn verif_try_rfrom_Year_8(r: ri8) -> (res: Result<ri16, Error>)
    ensures res.is_ok() <==> in_Year(r.val as int), res.is_ok() ==> res.unwrap().val == r.val
{ unimplemented!() }
#[verifier::external_body]
pub fn verif_try_rfrom_Year_16(r: ri16) -> (res: Result<ri16, Error>)
    ensures res.is_ok() <==> in_Year(r.val as int), res.is_ok() ==> res.unwrap().val == r.val
{ unimplemented!() }
#[verifier::external_body]
pub fn verif_try_rfrom_Year_32(r: ri32) -> (res: Result<ri16, Error>)
    ensures res.is_ok() <==> in_Year(r.val as int), res.is_ok() ==> res.unwrap().val == r.val
{ unimplemented!() }
#[verifier::external_body]
pub fn verif_try_rfrom_Year_64(r: ri64) -> (res: Result<ri16, Error>)
    ensures res.is_ok() <==> in_Year(r.val as int), res.is_ok() ==> res.unwrap().val == r.val
{ unimplemented!() }
#[verifier::external_body]
pub fn verif_try_rfrom_Year_128(r: ri128) -> (res: Result<ri16, Error>)
    ensures res.is_ok() <==> in_Year(r.val as int), res.is_ok() ==> res.unwrap().val == r.val
{ unimplemented!() }
#[verifier::external_body]
pub fn verif_try_new_Year(v: i64) -> (res: Result<ri16, Error>)
    ensures res.is_ok() <==> in_Year(v as int), res.is_ok() ==> res.unwrap().val == v
{ unimplemented!() }
#[verifier::external_body]
pub fn verif_try_new128_Year(v: i128) -> (res: Result<ri16, Error>)
    ensures res.is_ok() <==> in_Year(v as int), res.is_ok() ==> res.unwrap().val == v
{ unimplemented!() }
// `Year::MIN` / `Year::MAX` (associated consts of type i128)
pub fn verif_MIN_Year() -> (r: i128) ensures r == Year_MIN() { -9999 }
pub fn verif_MAX_Year() -> (r: i128) ensures r == Year_MAX() { 9999 }
// `x.try_checked_mul("what", rhs)` with x: Year -- Ok iff the exact product lies within Year::MIN..=MAX
#[verifier::external_body]
pub fn verif_try_checked_mul_Year<R: RInto<ri16>>(x: ri16, rhs: R) -> (res: Result<ri16, Error>)
    requires rhs.rinto_req(),
    ensures res.is_ok() <==> in_Year(x.val * rhs.rinto_spec().val), res.is_ok() ==> res.unwrap().val == x.val * rhs.rinto_spec().val
{ unimplemented!() }
// `x.try_checked_add/sub("what", rhs)` and `x.checked_add/sub/mul(rhs)` with x: Year -- fail iff the exact result leaves Year::MIN..=MAX
#[verifier::external_body]
pub fn verif_try_checked_add_Year<R: RInto<ri16>>(x: ri16, rhs: R) -> (res: Result<ri16, Error>)
    requires rhs.rinto_req(),
    ensures res.is_ok() <==> in_Year(x.val + rhs.rinto_spec().val), res.is_ok() ==> res.unwrap().val == x.val + rhs.rinto_spec().val
{ unimplemented!() }
#[verifier::external_body]
pub fn verif_try_checked_sub_Year<R: RInto<ri16>>(x: ri16, rhs: R) -> (res: Result<ri16, Error>)
    requires rhs.rinto_req(),
    ensures res.is_ok() <==> in_Year(x.val - rhs.rinto_spec().val), res.is_ok() ==> res.unwrap().val == x.val - rhs.rinto_spec().val
{ unimplemented!() }
#[verifier::external_body]
pub fn verif_checked_add_Year<R: RInto<ri16>>(x: ri16, rhs: R) -> (res: Option<ri16>)
    requires rhs.rinto_req(),
    ensures res.is_some() <==> in_Year(x.val + rhs.rinto_spec().val), res.is_some() ==> res.unwrap().val == x.val + rhs.rinto_spec().val
{ unimplemented!() }
#[verifier::external_body]
pub fn verif_checked_sub_Year<R: RInto<ri16>>(x: ri16, rhs: R) -> (res: Option<ri16>)
    requires rhs.rinto_req(),
    ensures res.is_some() <==> in_Year(x.val - rhs.rinto_spec().val), res.is_some() ==> res.unwrap().val == x.val - rhs.rinto_spec().val
{ unimplemented!() }
#[verifier::external_body]
pub fn verif_checked_mul_Year<R: RInto<ri16>>(x: ri16, rhs: R) -> (res: Option<ri16>)
    requires rhs.rinto_req(),
    ensures res.is_some() <==> in_Year(x.val * rhs.rinto_spec().val), res.is_some() ==> res.unwrap().val == x.val * rhs.rinto_spec().val
{ unimplemented!() }
pub type Month = ri8;
pub open spec fn Month_MIN() -> int { 1 }
pub open spec fn Month_MAX() -> int { 12 }
pub open spec fn in_Month(v: int) -> bool { 1 <= v <= 12 }
#[verifier::external_body]
pub fn verif_try_rfrom_Month_8(r: ri8) -> (res: Result<ri8, Error>)
    ensures res.is_ok() <==> in_Month(r.val as int), res.is_ok() ==> res.unwrap().val == r.val
{ unimplemented!() }
#[verifier::external_body]
pub fn verif_try_rfrom_Month_16(r: ri16) -> (res: Result<ri8, Error>)
    ensures res.is_ok() <==> in_Month(r.val as int), res.is_ok() ==> res.unwrap().val == r.val
{ unimplemented!() }
#[verifier::external_body]
pub fn verif_try_rfrom_Month_32(r: ri32) -> (res: Result<ri8, Error>)
    ensures res.is_ok() <==> in_Month(r.val as int), res.is_ok() ==> res.unwrap().val == r.val
{ unimplemented!() }
#[verifier::external_body]
pub fn verif_try_rfrom_Month_64(r: ri64) -> (res: Result<ri8, Error>)
    ensures res.is_ok() <==> in_Month(r.val as int), res.is_ok() ==> res.unwrap().val == r.val
{ unimplemented!() }
#[verifier::external_body]
pub fn verif_try_rfrom_Month_128(r: ri128) -> (res: Result<ri8, Error>)
    ensures res.is_ok() <==> in_Month(r.val as int), res.is_ok() ==> res.unwrap().val == r.val
{ unimplemented!() }
#[verifier::external_body]
pub fn verif_try_new_Month(v: i64) -> (res: Result<ri8, Error>)
    ensures res.is_ok() <==> in_Month(v as int), res.is_ok() ==> res.unwrap().val == v
{ unimplemented!() }
#[verifier::external_body]
pub fn verif_try_new128_Month(v: i128) -> (res: Result<ri8, Error>)
    ensures res.is_ok() <==> in_Month(v as int), res.is_ok() ==> res.unwrap().val == v
{ unimplemented!() }
// `Month::MIN` / `Month::MAX` (associated consts of type i128)
pub fn verif_MIN_Month() -> (r: i128) ensures r == Month_MIN() { 1 }
pub fn verif_MAX_Month() -> (r: i128) ensures r == Month_MAX() { 12 }
// `x.try_checked_mul("what", rhs)` with x: Month -- Ok iff the exact product lies within Month::MIN..=MAX
#[verifier::external_body]
pub fn verif_try_checked_mul_Month<R: RInto<ri8>>(x: ri8, rhs: R) -> (res: Result<ri8, Error>)
    requires rhs.rinto_req(),
    ensures res.is_ok() <==> in_Month(x.val * rhs.rinto_spec().val), res.is_ok() ==> res.unwrap().val == x.val * rhs.rinto_spec().val
{ unimplemented!() }
// `x.try_checked_add/sub("what", rhs)` and `x.checked_add/sub/mul(rhs)` with x: Month -- fail iff the exact result leaves Month::MIN..=MAX
#[verifier::external_body]
pub fn verif_try_checked_add_Month<R: RInto<ri8>>(x: ri8, rhs: R) -> (res: Result<ri8, Error>)
    requires rhs.rinto_req(),
    ensures res.is_ok() <==> in_Month(x.val + rhs.rinto_spec().val), res.is_ok() ==> res.unwrap().val == x.val + rhs.rinto_spec().val
{ unimplemented!() }
#[verifier::external_body]
pub fn verif_try_checked_sub_Month<R: RInto<ri8>>(x: ri8, rhs: R) -> (res: Result<ri8, Error>)
    requires rhs.rinto_req(),
    ensures res.is_ok() <==> in_Month(x.val - rhs.rinto_spec().val), res.is_ok() ==> res.unwrap().val == x.val - rhs.rinto_spec().val
{ unimplemented!() }
#[verifier::external_body]
pub fn verif_checked_add_Month<R: RInto<ri8>>(x: ri8, rhs: R) -> (res: Option<ri8>)
    requires rhs.rinto_req(),
    ensures res.is_some() <==> in_Month(x.val + rhs.rinto_spec().val), res.is_some() ==> res.unwrap().val == x.val + rhs.rinto_spec().val
{ unimplemented!() }
#[verifier::external_body]
pub fn verif_checked_sub_Month<R: RInto<ri8>>(x: ri8, rhs: R) -> (res: Option<ri8>)
    requires rhs.rinto_req(),
    ensures res.is_some() <==> in_Month(x.val - rhs.rinto_spec().val), res.is_some() ==> res.unwrap().val == x.val - rhs.rinto_spec().val
{ unimplemented!() }
#[verifier::external_body]
pub fn verif_checked_mul_Month<R: RInto<ri8>>(x: ri8, rhs: R) -> (res: Option<ri8>)
    requires rhs.rinto_req(),
    ensures res.is_some() <==> in_Month(x.val * rhs.rinto_spec().val), res.is_some() ==> res.unwrap().val == x.val * rhs.rinto_spec().val
{ unimplemented!() }
pub type Day = ri8;
pub open spec fn Day_MIN() -> int { 1 }
pub open spec fn Day_MAX() -> int { 31 }
pub open spec fn in_Day(v: int) -> bool { 1 <= v <= 31 }
#[verifier::external_body]
pub fn verif_try_rfrom_Day_8(r: ri8) -> (res: Result<ri8, Error>)
    ensures res.is_ok() <==> in_Day(r.val as int), res.is_ok() ==> res.unwrap().val == r.val
{ unimplemented!() }
#[verifier::external_body]
pub fn verif_try_rfrom_Day_16(r: ri16) -> (res: Result<ri8, Error>)
    ensures res.is_ok() <==> in_Day(r.val as int), res.is_ok() ==> res.unwrap().val == r.val
{ unimplemented!() }
#[verifier::external_body]
pub fn verif_try_rfrom_Day_32(r: ri32) -> (res: Result<ri8, Error>)
    ensures res.is_ok() <==> in_Day(r.val as int), res.is_ok() ==> res.unwrap().val == r.val
{ unimplemented!() }
#[verifier::external_body]
pub fn verif_try_rfrom_Day_64(r: ri64) -> (res: Result<ri8, Error>)
    ensures res.is_ok() <==> in_Day(r.val as int), res.is_ok() ==> res.unwrap().val == r.val
{ unimplemented!() }
#[verifier::external_body]
pub fn verif_try_rfrom_Day_128(r: ri128) -> (res: Result<ri8, Error>)
    ensures res.is_ok() <==> in_Day(r.val as int), res.is_ok() ==> res.unwrap().val == r.val
{ unimplemented!() }
#[verifier::external_body]
pub fn verif_try_new_Day(v: i64) -> (res: Result<ri8, Error>)
    ensures res.is_ok() <==> in_Day(v as int), res.is_ok() ==> res.unwrap().val == v
{ unimplemented!() }
#[verifier::external_body]
pub fn verif_try_new128_Day(v: i128) -> (res: Result<ri8, Error>)
    ensures res.is_ok() <==> in_Day(v as int), res.is_ok() ==> res.unwrap().val == v
{ unimplemented!() }
// `Day::MIN` / `Day::MAX` (associated consts of type i128)
pub fn verif_MIN_Day() -> (r: i128) ensures r == Day_MIN() { 1 }
pub fn verif_MAX_Day() -> (r: i128) ensures r == Day_MAX() { 31 }
// `x.try_checked_mul("what", rhs)` with x: Day -- Ok iff the exact product lies within Day::MIN..=MAX
#[verifier::external_body]
pub fn verif_try_checked_mul_Day<R: RInto<ri8>>(x: ri8, rhs: R) -> (res: Result<ri8, Error>)
    requires rhs.rinto_req(),
    ensures res.is_ok() <==> in_Day(x.val * rhs.rinto_spec().val), res.is_ok() ==> res.unwrap().val == x.val * rhs.rinto_spec().val
{ unimplemented!() }
// `x.try_checked_add/sub("what", rhs)` and `x.checked_add/sub/mul(rhs)` with x: Day -- fail iff the exact result leaves Day::MIN..=MAX
#[verifier::external_body]
pub fn verif_try_checked_add_Day<R: RInto<ri8>>(x: ri8, rhs: R) -> (res: Result<ri8, Error>)
    requires rhs.rinto_req(),
    ensures res.is_ok() <==> in_Day(x.val + rhs.rinto_spec().val), res.is_ok() ==> res.unwrap().val == x.val + rhs.rinto_spec().val
{ unimplemented!() }
#[verifier::external_body]
pub fn verif_try_checked_sub_Day<R: RInto<ri8>>(x: ri8, rhs: R) -> (res: Result<ri8, Error>)
    requires rhs.rinto_req(),
    ensures res.is_ok() <==> in_Day(x.val - rhs.rinto_spec().val), res.is_ok() ==> res.unwrap().val == x.val - rhs.rinto_spec().val
{ unimplemented!() }
#[verifier::external_body]
pub fn verif_checked_add_Day<R: RInto<ri8>>(x: ri8, rhs: R) -> (res: Option<ri8>)
    requires rhs.rinto_req(),
    ensures res.is_some() <==> in_Day(x.val + rhs.rinto_spec().val), res.is_some() ==> res.unwrap().val == x.val + rhs.rinto_spec().val
{ unimplemented!() }
#[verifier::external_body]
pub fn verif_checked_sub_Day<R: RInto<ri8>>(x: ri8, rhs: R) -> (res: Option<ri8>)
    requires rhs.rinto_req(),
    ensures res.is_some() <==> in_Day(x.val - rhs.rinto_spec().val), res.is_some() ==> res.unwrap().val == x.val - rhs.rinto_spec().val
{ unimplemented!() }
#[verifier::external_body]
pub fn verif_checked_mul_Day<R: RInto<ri8>>(x: ri8, rhs: R) -> (res: Option<ri8>)
    requires rhs.rinto_req(),
    ensures res.is_some() <==> in_Day(x.val * rhs.rinto_spec().val), res.is_some() ==> res.unwrap().val == x.val * rhs.rinto_spec().val
{ unimplemented!() }
pub type Hour = ri8;
pub open spec fn Hour_MIN() -> int { 0 }
pub open spec fn Hour_MAX() -> int { 23 }
pub open spec fn in_Hour(v: int) -> bool { 0 <= v <= 23 }
#[verifier::external_body]
pub fn verif_try_rfrom_Hour_8(r: ri8) -> (res: Result<ri8, Error>)
    ensures res.is_ok() <==> in_Hour(r.val as int), res.is_ok() ==> res.unwrap().val == r.val
{ unimplemented!() }
#[verifier::external_body]
pub fn verif_try_rfrom_Hour_16(r: ri16) -> (res: Result<ri8, Error>)
    ensures res.is_ok() <==> in_Hour(r.val as int), res.is_ok() ==> res.unwrap().val == r.val
{ unimplemented!() }
#[verifier::external_body]
pub fn verif_try_rfrom_Hour_32(r: ri32) -> (res: Result<ri8, Error>)
    ensures res.is_ok() <==> in_Hour(r.val as int), res.is_ok() ==> res.unwrap().val == r.val
{ unimplemented!() }
#[verifier::external_body]
pub fn verif_try_rfrom_Hour_64(r: ri64) -> (res: Result<ri8, Error>)
    ensures res.is_ok() <==> in_Hour(r.val as int), res.is_ok() ==> res.unwrap().val == r.val
{ unimplemented!() }
#[verifier::external_body]
pub fn verif_try_rfrom_Hour_128(r: ri128) -> (res: Result<ri8, Error>)
    ensures res.is_ok() <==> in_Hour(r.val as int), res.is_ok() ==> res.unwrap().val == r.val
{ unimplemented!() }
#[verifier::external_body]
pub fn verif_try_new_Hour(v: i64) -> (res: Result<ri8, Error>)
    ensures res.is_ok() <==> in_Hour(v as int), res.is_ok() ==> res.unwrap().val == v
{ unimplemented!() }
#[verifier::external_body]
pub fn verif_try_new128_Hour(v: i128) -> (res: Result<ri8, Error>)
    ensures res.is_ok() <==> in_Hour(v as int), res.is_ok() ==> res.unwrap().val == v
{ unimplemented!() }
// `Hour::MIN` / `Hour::MAX` (associated consts of type i128)
pub fn verif_MIN_Hour() -> (r: i128) ensures r == Hour_MIN() { 0 }
pub fn verif_MAX_Hour() -> (r: i128) ensures r == Hour_MAX() { 23 }
// `x.try_checked_mul("what", rhs)` with x: Hour -- Ok iff the exact product lies within Hour::MIN..=MAX
#[verifier::external_body]
pub fn verif_try_checked_mul_Hour<R: RInto<ri8>>(x: ri8, rhs: R) -> (res: Result<ri8, Error>)
    requires rhs.rinto_req(),
    ensures res.is_ok() <==> in_Hour(x.val * rhs.rinto_spec().val), res.is_ok() ==> res.unwrap().val == x.val * rhs.rinto_spec().val
{ unimplemented!() }
// `x.try_checked_add/sub("what", rhs)` and `x.checked_add/sub/mul(rhs)` with x: Hour -- fail iff the exact result leaves Hour::MIN..=MAX
#[verifier::external_body]
pub fn verif_try_checked_add_Hour<R: RInto<ri8>>(x: ri8, rhs: R) -> (res: Result<ri8, Error>)
    requires rhs.rinto_req(),
    ensures res.is_ok() <==> in_Hour(x.val + rhs.rinto_spec().val), res.is_ok() ==> res.unwrap().val == x.val + rhs.rinto_spec().val
{ unimplemented!() }
#[verifier::external_body]
pub fn verif_try_checked_sub_Hour<R: RInto<ri8>>(x: ri8, rhs: R) -> (res: Result<ri8, Error>)
    requires rhs.rinto_req(),
    ensures res.is_ok() <==> in_Hour(x.val - rhs.rinto_spec().val), res.is_ok() ==> res.unwrap().val == x.val - rhs.rinto_spec().val
{ unimplemented!() }
#[verifier::external_body]
pub fn verif_checked_add_Hour<R: RInto<ri8>>(x: ri8, rhs: R) -> (res: Option<ri8>)
    requires rhs.rinto_req(),
    ensures res.is_some() <==> in_Hour(x.val + rhs.rinto_spec().val), res.is_some() ==> res.unwrap().val == x.val + rhs.rinto_spec().val
{ unimplemented!() }
#[verifier::external_body]
pub fn verif_checked_sub_Hour<R: RInto<ri8>>(x: ri8, rhs: R) -> (res: Option<ri8>)
    requires rhs.rinto_req(),
    ensures res.is_some() <==> in_Hour(x.val - rhs.rinto_spec().val), res.is_some() ==> res.unwrap().val == x.val - rhs.rinto_spec().val
{ unimplemented!() }
#[verifier::external_body]
pub fn verif_checked_mul_Hour<R: RInto<ri8>>(x: ri8, rhs: R) -> (res: Option<ri8>)
    requires rhs.rinto_req(),
    ensures res.is_some() <==> in_Hour(x.val * rhs.rinto_spec().val), res.is_some() ==> res.unwrap().val == x.val * rhs.rinto_spec().val
{ unimplemented!() }
pub type Minute = ri8;
pub open spec fn Minute_MIN() -> int { 0 }
pub open spec fn Minute_MAX() -> int { 59 }
pub open spec fn in_Minute(v: int) -> bool { 0 <= v <= 59 }
#[verifier::external_body]
pub fn verif_try_rfrom_Minute_8(r: ri8) -> (res: Result<ri8, Error>)
    ensures res.is_ok() <==> in_Minute(r.val as int), res.is_ok() ==> res.unwrap().val == r.val
{ unimplemented!() }
#[verifier::external_body]
pub fn verif_try_rfrom_Minute_16(r: ri16) -> (res: Result<ri8, Error>)
    ensures res.is_ok() <==> in_Minute(r.val as int), res.is_ok() ==> res.unwrap().val == r.val
{ unimplemented!() }
#[verifier::external_body]
pub fn verif_try_rfrom_Minute_32(r: ri32) -> (res: Result<ri8, Error>)
    ensures res.is_ok() <==> in_Minute(r.val as int), res.is_ok() ==> res.unwrap().val == r.val
{ unimplemented!() }
#[verifier::external_body]
pub fn verif_try_rfrom_Minute_64(r: ri64) -> (res: Result<ri8, Error>)
    ensures res.is_ok() <==> in_Minute(r.val as int), res.is_ok() ==> res.unwrap().val == r.val
{ unimplemented!() }
#[verifier::external_body]
pub fn verif_try_rfrom_Minute_128(r: ri128) -> (res: Result<ri8, Error>)
    ensures res.is_ok() <==> in_Minute(r.val as int), res.is_ok() ==> res.unwrap().val == r.val
{ unimplemented!() }
#[verifier::external_body]
pub fn verif_try_new_Minute(v: i64) -> (res: Result<ri8, Error>)
    ensures res.is_ok() <==> in_Minute(v as int), res.is_ok() ==> res.unwrap().val == v
{ unimplemented!() }
#[verifier::external_body]
pub fn verif_try_new128_Minute(v: i128) -> (res: Result<ri8, Error>)
    ensures res.is_ok() <==> in_Minute(v as int), res.is_ok() ==> res.unwrap().val == v
{ unimplemented!() }
// `Minute::MIN` / `Minute::MAX` (associated consts of type i128)
pub fn verif_MIN_Minute() -> (r: i128) ensures r == Minute_MIN() { 0 }
pub fn verif_MAX_Minute() -> (r: i128) ensures r == Minute_MAX() { 59 }
// `x.try_checked_mul("what", rhs)` with x: Minute -- Ok iff the exact product lies within Minute::MIN..=MAX
#[verifier::external_body]
pub fn verif_try_checked_mul_Minute<R: RInto<ri8>>(x: ri8, rhs: R) -> (res: Result<ri8, Error>)
    requires rhs.rinto_req(),
    ensures res.is_ok() <==> in_Minute(x.val * rhs.rinto_spec().val), res.is_ok() ==> res.unwrap().val == x.val * rhs.rinto_spec().val
{ unimplemented!() }
// `x.try_checked_add/sub("what", rhs)` and `x.checked_add/sub/mul(rhs)` with x: Minute -- fail iff the exact result leaves Minute::MIN..=MAX
#[verifier::external_body]
pub fn verif_try_checked_add_Minute<R: RInto<ri8>>(x: ri8, rhs: R) -> (res: Result<ri8, Error>)
    requires rhs.rinto_req(),
    ensures res.is_ok() <==> in_Minute(x.val + rhs.rinto_spec().val), res.is_ok() ==> res.unwrap().val == x.val + rhs.rinto_spec().val
{ unimplemented!() }
#[verifier::external_body]
pub fn verif_try_checked_sub_Minute<R: RInto<ri8>>(x: ri8, rhs: R) -> (res: Result<ri8, Error>)
    requires rhs.rinto_req(),
    ensures res.is_ok() <==> in_Minute(x.val - rhs.rinto_spec().val), res.is_ok() ==> res.unwrap().val == x.val - rhs.rinto_spec().val
{ unimplemented!() }
#[verifier::external_body]
pub fn verif_checked_add_Minute<R: RInto<ri8>>(x: ri8, rhs: R) -> (res: Option<ri8>)
    requires rhs.rinto_req(),
    ensures res.is_some() <==> in_Minute(x.val + rhs.rinto_spec().val), res.is_some() ==> res.unwrap().val == x.val + rhs.rinto_spec().val
{ unimplemented!() }
#[verifier::external_body]
pub fn verif_checked_sub_Minute<R: RInto<ri8>>(x: ri8, rhs: R) -> (res: Option<ri8>)
    requires rhs.rinto_req(),
    ensures res.is_some() <==> in_Minute(x.val - rhs.rinto_spec().val), res.is_some() ==> res.unwrap().val == x.val - rhs.rinto_spec().val
{ unimplemented!() }
#[verifier::external_body]
pub fn verif_checked_mul_Minute<R: RInto<ri8>>(x: ri8, rhs: R) -> (res: Option<ri8>)
    requires rhs.rinto_req(),
    ensures res.is_some() <==> in_Minute(x.val * rhs.rinto_spec().val), res.is_some() ==> res.unwrap().val == x.val * rhs.rinto_spec().val
{ unimplemented!() }
pub type Second = ri8;
pub open spec fn Second_MIN() -> int { 0 }
pub open spec fn Second_MAX() -> int { 59 }
pub open spec fn in_Second(v: int) -> bool { 0 <= v <= 59 }
#[verifier::external_body]
pub fn verif_try_rfrom_Second_8(r: ri8) -> (res: Result<ri8, Error>)
    ensures res.is_ok() <==> in_Second(r.val as int), res.is_ok() ==> res.unwrap().val == r.val
{ unimplemented!() }
#[verifier::external_body]
pub fn verif_try_rfrom_Second_16(r: ri16) -> (res: Result<ri8, Error>)
    ensures res.is_ok() <==> in_Second(r.val as int), res.is_ok() ==> res.unwrap().val == r.val
{ unimplemented!() }
#[verifier::external_body]
pub fn verif_try_rfrom_Second_32(r: ri32) -> (res: Result<ri8, Error>)
    ensures res.is_ok() <==> in_Second(r.val as int), res.is_ok() ==> res.unwrap().val == r.val
{ unimplemented!() }
#[verifier::external_body]
pub fn verif_try_rfrom_Second_64(r: ri64) -> (res: Result<ri8, Error>)
    ensures res.is_ok() <==> in_Second(r.val as int), res.is_ok() ==> res.unwrap().val == r.val
{ unimplemented!() }
#[verifier::external_body]
pub fn verif_try_rfrom_Second_128(r: ri128) -> (res: Result<ri8, Error>)
    ensures res.is_ok() <==> in_Second(r.val as int), res.is_ok() ==> res.unwrap().val == r.val
{ unimplemented!() }
#[verifier::external_body]
pub fn verif_try_new_Second(v: i64) -> (res: Result<ri8, Error>)
    ensures res.is_ok() <==> in_Second(v as int), res.is_ok() ==> res.unwrap().val == v
{ unimplemented!() }
#[verifier::external_body]
pub fn verif_try_new128_Second(v: i128) -> (res: Result<ri8, Error>)
    ensures res.is_ok() <==> in_Second(v as int), res.is_ok() ==> res.unwrap().val == v
{ unimplemented!() }
// `Second::MIN` / `Second::MAX` (associated consts of type i128)
pub fn verif_MIN_Second() -> (r: i128) ensures r == Second_MIN() { 0 }
pub fn verif_MAX_Second() -> (r: i128) ensures r == Second_MAX() { 59 }
// `x.try_checked_mul("what", rhs)` with x: Second -- Ok iff the exact product lies within Second::MIN..=MAX
#[verifier::external_body]
pub fn verif_try_checked_mul_Second<R: RInto<ri8>>(x: ri8, rhs: R) -> (res: Result<ri8, Error>)
    requires rhs.rinto_req(),
    ensures res.is_ok() <==> in_Second(x.val * rhs.rinto_spec().val), res.is_ok() ==> res.unwrap().val == x.val * rhs.rinto_spec().val
{ unimplemented!() }
// `x.try_checked_add/sub("what", rhs)` and `x.checked_add/sub/mul(rhs)` with x: Second -- fail iff the exact result leaves Second::MIN..=MAX
#[verifier::external_body]
pub fn verif_try_checked_add_Second<R: RInto<ri8>>(x: ri8, rhs: R) -> (res: Result<ri8, Error>)
    requires rhs.rinto_req(),
    ensures res.is_ok() <==> in_Second(x.val + rhs.rinto_spec().val), res.is_ok() ==> res.unwrap().val == x.val + rhs.rinto_spec().val
{ unimplemented!() }
#[verifier::external_body]
pub fn verif_try_checked_sub_Second<R: RInto<ri8>>(x: ri8, rhs: R) -> (res: Result<ri8, Error>)
    requires rhs.rinto_req(),
    ensures res.is_ok() <==> in_Second(x.val - rhs.rinto_spec().val), res.is_ok() ==> res.unwrap().val == x.val - rhs.rinto_spec().val
{ unimplemented!() }
#[verifier::external_body]
pub fn verif_checked_add_Second<R: RInto<ri8>>(x: ri8, rhs: R) -> (res: Option<ri8>)
    requires rhs.rinto_req(),
    ensures res.is_some() <==> in_Second(x.val + rhs.rinto_spec().val), res.is_some() ==> res.unwrap().val == x.val + rhs.rinto_spec().val
{ unimplemented!() }
#[verifier::external_body]
pub fn verif_checked_sub_Second<R: RInto<ri8>>(x: ri8, rhs: R) -> (res: Option<ri8>)
    requires rhs.rinto_req(),
    ensures res.is_some() <==> in_Second(x.val - rhs.rinto_spec().val), res.is_some() ==> res.unwrap().val == x.val - rhs.rinto_spec().val
{ unimplemented!() }
#[verifier::external_body]
pub fn verif_checked_mul_Second<R: RInto<ri8>>(x: ri8, rhs: R) -> (res: Option<ri8>)
    requires rhs.rinto_req(),
    ensures res.is_some() <==> in_Second(x.val * rhs.rinto_spec().val), res.is_some() ==> res.unwrap().val == x.val * rhs.rinto_spec().val
{ unimplemented!() }
pub type SubsecNanosecond = ri32;
pub open spec fn SubsecNanosecond_MIN() -> int { 0 }
pub open spec fn SubsecNanosecond_MAX() -> int { 999999999 }
pub open spec fn in_SubsecNanosecond(v: int) -> bool { 0 <= v <= 999999999 }
#[verifier::external_body]
pub fn verif_try_rfrom_SubsecNanosecond_8(r: ri8) -> (res: Result<ri32, Error>)
    ensures res.is_ok() <==> in_SubsecNanosecond(r.val as int), res.is_ok() ==> res.unwrap().val == r.val
{ unimplemented!() }
#[verifier::external_body]
pub fn verif_try_rfrom_SubsecNanosecond_16(r: ri16) -> (res: Result<ri32, Error>)
    ensures res.is_ok() <==> in_SubsecNanosecond(r.val as int), res.is_ok() ==> res.unwrap().val == r.val
{ unimplemented!() }
#[verifier::external_body]
pub fn verif_try_rfrom_SubsecNanosecond_32(r: ri32) -> (res: Result<ri32, Error>)
    ensures res.is_ok() <==> in_SubsecNanosecond(r.val as int), res.is_ok() ==> res.unwrap().val == r.val
{ unimplemented!() }
#[verifier::external_body]
pub fn verif_try_rfrom_SubsecNanosecond_64(r: ri64) -> (res: Result<ri32, Error>)
    ensures res.is_ok() <==> in_SubsecNanosecond(r.val as int), res.is_ok() ==> res.unwrap().val == r.val
{ unimplemented!() }
#[verifier::external_body]
pub fn verif_try_rfrom_SubsecNanosecond_128(r: ri128) -> (res: Result<ri32, Error>)
    ensures res.is_ok() <==> in_SubsecNanosecond(r.val as int), res.is_ok() ==> res.unwrap().val == r.val
{ unimplemented!() }
#[verifier::external_body]
pub fn verif_try_new_SubsecNanosecond(v: i64) -> (res: Result<ri32, Error>)
    ensures res.is_ok() <==> in_SubsecNanosecond(v as int), res.is_ok() ==> res.unwrap().val == v
{ unimplemented!() }
#[verifier::external_body]
pub fn verif_try_new128_SubsecNanosecond(v: i128) -> (res: Result<ri32, Error>)
    ensures res.is_ok() <==> in_SubsecNanosecond(v as int), res.is_ok() ==> res.unwrap().val == v
{ unimplemented!() }
// `SubsecNanosecond::MIN` / `SubsecNanosecond::MAX` (associated consts of type i128)
pub fn verif_MIN_SubsecNanosecond() -> (r: i128) ensures r == SubsecNanosecond_MIN() { 0 }
pub fn verif_MAX_SubsecNanosecond() -> (r: i128) ensures r == SubsecNanosecond_MAX() { 999999999 }
// `x.try_checked_mul("what", rhs)` with x: SubsecNanosecond -- Ok iff the exact product lies within SubsecNanosecond::MIN..=MAX
#[verifier::external_body]
pub fn verif_try_checked_mul_SubsecNanosecond<R: RInto<ri32>>(x: ri32, rhs: R) -> (res: Result<ri32, Error>)
    requires rhs.rinto_req(),
    ensures res.is_ok() <==> in_SubsecNanosecond(x.val * rhs.rinto_spec().val), res.is_ok() ==> res.unwrap().val == x.val * rhs.rinto_spec().val
{ unimplemented!() }
// `x.try_checked_add/sub("what", rhs)` and `x.checked_add/sub/mul(rhs)` with x: SubsecNanosecond -- fail iff the exact result leaves SubsecNanosecond::MIN..=MAX
#[verifier::external_body]
pub fn verif_try_checked_add_SubsecNanosecond<R: RInto<ri32>>(x: ri32, rhs: R) -> (res: Result<ri32, Error>)
    requires rhs.rinto_req(),
    ensures res.is_ok() <==> in_SubsecNanosecond(x.val + rhs.rinto_spec().val), res.is_ok() ==> res.unwrap().val == x.val + rhs.rinto_spec().val
{ unimplemented!() }
#[verifier::external_body]
pub fn verif_try_checked_sub_SubsecNanosecond<R: RInto<ri32>>(x: ri32, rhs: R) -> (res: Result<ri32, Error>)
    requires rhs.rinto_req(),
    ensures res.is_ok() <==> in_SubsecNanosecond(x.val - rhs.rinto_spec().val), res.is_ok() ==> res.unwrap().val == x.val - rhs.rinto_spec().val
{ unimplemented!() }
#[verifier::external_body]
pub fn verif_checked_add_SubsecNanosecond<R: RInto<ri32>>(x: ri32, rhs: R) -> (res: Option<ri32>)
    requires rhs.rinto_req(),
    ensures res.is_some() <==> in_SubsecNanosecond(x.val + rhs.rinto_spec().val), res.is_some() ==> res.unwrap().val == x.val + rhs.rinto_spec().val
{ unimplemented!() }
#[verifier::external_body]
pub fn verif_checked_sub_SubsecNanosecond<R: RInto<ri32>>(x: ri32, rhs: R) -> (res: Option<ri32>)
    requires rhs.rinto_req(),
    ensures res.is_some() <==> in_SubsecNanosecond(x.val - rhs.rinto_spec().val), res.is_some() ==> res.unwrap().val == x.val - rhs.rinto_spec().val
{ unimplemented!() }
#[verifier::external_body]
pub fn verif_checked_mul_SubsecNanosecond<R: RInto<ri32>>(x: ri32, rhs: R) -> (res: Option<ri32>)
    requires rhs.rinto_req(),
    ensures res.is_some() <==> in_SubsecNanosecond(x.val * rhs.rinto_spec().val), res.is_some() ==> res.unwrap().val == x.val * rhs.rinto_spec().val
{ unimplemented!() }
pub type CivilDayNanosecond = ri64;
pub open spec fn CivilDayNanosecond_MIN() -> int { 0 }
pub open spec fn CivilDayNanosecond_MAX() -> int { 86399999999999 }
pub open spec fn in_CivilDayNanosecond(v: int) -> bool { 0 <= v <= 86399999999999 }
#[verifier::external_body]
pub fn verif_try_rfrom_CivilDayNanosecond_8(r: ri8) -> (res: Result<ri64, Error>)
    ensures res.is_ok() <==> in_CivilDayNanosecond(r.val as int), res.is_ok() ==> res.unwrap().val == r.val
{ unimplemented!() }
#[verifier::external_body]
pub fn verif_try_rfrom_CivilDayNanosecond_16(r: ri16) -> (res: Result<ri64, Error>)
    ensures res.is_ok() <==> in_CivilDayNanosecond(r.val as int), res.is_ok() ==> res.unwrap().val == r.val
{ unimplemented!() }
#[verifier::external_body]
pub fn verif_try_rfrom_CivilDayNanosecond_32(r: ri32) -> (res: Result<ri64, Error>)
    ensures res.is_ok() <==> in_CivilDayNanosecond(r.val as int), res.is_ok() ==> res.unwrap().val == r.val
{ unimplemented!() }
#[verifier::external_body]
pub fn verif_try_rfrom_CivilDayNanosecond_64(r: ri64) -> (res: Result<ri64, Error>)
    ensures res.is_ok() <==> in_CivilDayNanosecond(r.val as int), res.is_ok() ==> res.unwrap().val == r.val
{ unimplemented!() }
#[verifier::external_body]
pub fn verif_try_rfrom_CivilDayNanosecond_128(r: ri128) -> (res: Result<ri64, Error>)
    ensures res.is_ok() <==> in_CivilDayNanosecond(r.val as int), res.is_ok() ==> res.unwrap().val == r.val
{ unimplemented!() }
#[verifier::external_body]
pub fn verif_try_new_CivilDayNanosecond(v: i64) -> (res: Result<ri64, Error>)
    ensures res.is_ok() <==> in_CivilDayNanosecond(v as int), res.is_ok() ==> res.unwrap().val == v
{ unimplemented!() }
#[verifier::external_body]
pub fn verif_try_new128_CivilDayNanosecond(v: i128) -> (res: Result<ri64, Error>)
    ensures res.is_ok() <==> in_CivilDayNanosecond(v as int), res.is_ok() ==> res.unwrap().val == v
{ unimplemented!() }
// `CivilDayNanosecond::MIN` / `CivilDayNanosecond::MAX` (associated consts of type i128)
pub fn verif_MIN_CivilDayNanosecond() -> (r: i128) ensures r == CivilDayNanosecond_MIN() { 0 }
pub fn verif_MAX_CivilDayNanosecond() -> (r: i128) ensures r == CivilDayNanosecond_MAX() { 86399999999999 }
// `x.try_checked_mul("what", rhs)` with x: CivilDayNanosecond -- Ok iff the exact product lies within CivilDayNanosecond::MIN..=MAX
#[verifier::external_body]
pub fn verif_try_checked_mul_CivilDayNanosecond<R: RInto<ri64>>(x: ri64, rhs: R) -> (res: Result<ri64, Error>)
    requires rhs.rinto_req(),
    ensures res.is_ok() <==> in_CivilDayNanosecond(x.val * rhs.rinto_spec().val), res.is_ok() ==> res.unwrap().val == x.val * rhs.rinto_spec().val
{ unimplemented!() }
// `x.try_checked_add/sub("what", rhs)` and `x.checked_add/sub/mul(rhs)` with x: CivilDayNanosecond -- fail iff the exact result leaves CivilDayNanosecond::MIN..=MAX
#[verifier::external_body]
pub fn verif_try_checked_add_CivilDayNanosecond<R: RInto<ri64>>(x: ri64, rhs: R) -> (res: Result<ri64, Error>)
    requires rhs.rinto_req(),
    ensures res.is_ok() <==> in_CivilDayNanosecond(x.val + rhs.rinto_spec().val), res.is_ok() ==> res.unwrap().val == x.val + rhs.rinto_spec().val
{ unimplemented!() }
#[verifier::external_body]
pub fn verif_try_checked_sub_CivilDayNanosecond<R: RInto<ri64>>(x: ri64, rhs: R) -> (res: Result<ri64, Error>)
    requires rhs.rinto_req(),
    ensures res.is_ok() <==> in_CivilDayNanosecond(x.val - rhs.rinto_spec().val), res.is_ok() ==> res.unwrap().val == x.val - rhs.rinto_spec().val
{ unimplemented!() }
#[verifier::external_body]
pub fn verif_checked_add_CivilDayNanosecond<R: RInto<ri64>>(x: ri64, rhs: R) -> (res: Option<ri64>)
    requires rhs.rinto_req(),
    ensures res.is_some() <==> in_CivilDayNanosecond(x.val + rhs.rinto_spec().val), res.is_some() ==> res.unwrap().val == x.val + rhs.rinto_spec().val
{ unimplemented!() }
#[verifier::external_body]
pub fn verif_checked_sub_CivilDayNanosecond<R: RInto<ri64>>(x: ri64, rhs: R) -> (res: Option<ri64>)
    requires rhs.rinto_req(),
    ensures res.is_some() <==> in_CivilDayNanosecond(x.val - rhs.rinto_spec().val), res.is_some() ==> res.unwrap().val == x.val - rhs.rinto_spec().val
{ unimplemented!() }
#[verifier::external_body]
pub fn verif_checked_mul_CivilDayNanosecond<R: RInto<ri64>>(x: ri64, rhs: R) -> (res: Option<ri64>)
    requires rhs.rinto_req(),
    ensures res.is_some() <==> in_CivilDayNanosecond(x.val * rhs.rinto_spec().val), res.is_some() ==> res.unwrap().val == x.val * rhs.rinto_spec().val
{ unimplemented!() }
pub type CivilDaySecond = ri32;
pub open spec fn CivilDaySecond_MIN() -> int { 0 }
pub open spec fn CivilDaySecond_MAX() -> int { 86399 }
pub open spec fn in_CivilDaySecond(v: int) -> bool { 0 <= v <= 86399 }
#[verifier::external_body]
pub fn verif_try_rfrom_CivilDaySecond_8(r: ri8) -> (res: Result<ri32, Error>)
    ensures res.is_ok() <==> in_CivilDaySecond(r.val as int), res.is_ok() ==> res.unwrap().val == r.val
{ unimplemented!() }
#[verifier::external_body]
pub fn verif_try_rfrom_CivilDaySecond_16(r: ri16) -> (res: Result<ri32, Error>)
    ensures res.is_ok() <==> in_CivilDaySecond(r.val as int), res.is_ok() ==> res.unwrap().val == r.val
{ unimplemented!() }
#[verifier::external_body]
pub fn verif_try_rfrom_CivilDaySecond_32(r: ri32) -> (res: Result<ri32, Error>)
    ensures res.is_ok() <==> in_CivilDaySecond(r.val as int), res.is_ok() ==> res.unwrap().val == r.val
{ unimplemented!() }
#[verifier::external_body]
pub fn verif_try_rfrom_CivilDaySecond_64(r: ri64) -> (res: Result<ri32, Error>)
    ensures res.is_ok() <==> in_CivilDaySecond(r.val as int), res.is_ok() ==> res.unwrap().val == r.val
{ unimplemented!() }
#[verifier::external_body]
pub fn verif_try_rfrom_CivilDaySecond_128(r: ri128) -> (res: Result<ri32, Error>)
    ensures res.is_ok() <==> in_CivilDaySecond(r.val as int), res.is_ok() ==> res.unwrap().val == r.val
{ unimplemented!() }
#[verifier::external_body]
pub fn verif_try_new_CivilDaySecond(v: i64) -> (res: Result<ri32, Error>)
    ensures res.is_ok() <==> in_CivilDaySecond(v as int), res.is_ok() ==> res.unwrap().val == v
{ unimplemented!() }
#[verifier::external_body]
pub fn verif_try_new128_CivilDaySecond(v: i128) -> (res: Result<ri32, Error>)
    ensures res.is_ok() <==> in_CivilDaySecond(v as int), res.is_ok() ==> res.unwrap().val == v
{ unimplemented!() }
// `CivilDaySecond::MIN` / `CivilDaySecond::MAX` (associated consts of type i128)
pub fn verif_MIN_CivilDaySecond() -> (r: i128) ensures r == CivilDaySecond_MIN() { 0 }
pub fn verif_MAX_CivilDaySecond() -> (r: i128) ensures r == CivilDaySecond_MAX() { 86399 }
// `x.try_checked_mul("what", rhs)` with x: CivilDaySecond -- Ok iff the exact product lies within CivilDaySecond::MIN..=MAX
#[verifier::external_body]
pub fn verif_try_checked_mul_CivilDaySecond<R: RInto<ri32>>(x: ri32, rhs: R) -> (res: Result<ri32, Error>)
    requires rhs.rinto_req(),
    ensures res.is_ok() <==> in_CivilDaySecond(x.val * rhs.rinto_spec().val), res.is_ok() ==> res.unwrap().val == x.val * rhs.rinto_spec().val
{ unimplemented!() }
// `x.try_checked_add/sub("what", rhs)` and `x.checked_add/sub/mul(rhs)` with x: CivilDaySecond -- fail iff the exact result leaves CivilDaySecond::MIN..=MAX
#[verifier::external_body]
pub fn verif_try_checked_add_CivilDaySecond<R: RInto<ri32>>(x: ri32, rhs: R) -> (res: Result<ri32, Error>)
    requires rhs.rinto_req(),
    ensures res.is_ok() <==> in_CivilDaySecond(x.val + rhs.rinto_spec().val), res.is_ok() ==> res.unwrap().val == x.val + rhs.rinto_spec().val
{ unimplemented!() }
#[verifier::external_body]
pub fn verif_try_checked_sub_CivilDaySecond<R: RInto<ri32>>(x: ri32, rhs: R) -> (res: Result<ri32, Error>)
    requires rhs.rinto_req(),
    ensures res.is_ok() <==> in_CivilDaySecond(x.val - rhs.rinto_spec().val), res.is_ok() ==> res.unwrap().val == x.val - rhs.rinto_spec().val
{ unimplemented!() }
#[verifier::external_body]
pub fn verif_checked_add_CivilDaySecond<R: RInto<ri32>>(x: ri32, rhs: R) -> (res: Option<ri32>)
    requires rhs.rinto_req(),
    ensures res.is_some() <==> in_CivilDaySecond(x.val + rhs.rinto_spec().val), res.is_some() ==> res.unwrap().val == x.val + rhs.rinto_spec().val
{ unimplemented!() }
#[verifier::external_body]
pub fn verif_checked_sub_CivilDaySecond<R: RInto<ri32>>(x: ri32, rhs: R) -> (res: Option<ri32>)
    requires rhs.rinto_req(),
    ensures res.is_some() <==> in_CivilDaySecond(x.val - rhs.rinto_spec().val), res.is_some() ==> res.unwrap().val == x.val - rhs.rinto_spec().val
{ unimplemented!() }
#[verifier::external_body]
pub fn verif_checked_mul_CivilDaySecond<R: RInto<ri32>>(x: ri32, rhs: R) -> (res: Option<ri32>)
    requires rhs.rinto_req(),
    ensures res.is_some() <==> in_CivilDaySecond(x.val * rhs.rinto_spec().val), res.is_some() ==> res.unwrap().val == x.val * rhs.rinto_spec().val
{ unimplemented!() }
pub type UnixEpochDay = ri32;
pub open spec fn UnixEpochDay_MIN() -> int { -4371587 }
pub open spec fn UnixEpochDay_MAX() -> int { 2932896 }
pub open spec fn in_UnixEpochDay(v: int) -> bool { -4371587 <= v <= 2932896 }
#[verifier::external_body]
pub fn verif_try_rfrom_UnixEpochDay_8(r: ri8) -> (res: Result<ri32, Error>)
    ensures res.is_ok() <==> in_UnixEpochDay(r.val as int), res.is_ok() ==> res.unwrap().val == r.val
{ unimplemented!() }
#[verifier::external_body]
pub fn verif_try_rfrom_UnixEpochDay_16(r: ri16) -> (res: Result<ri32, Error>)
    ensures res.is_ok() <==> in_UnixEpochDay(r.val as int), res.is_ok() ==> res.unwrap().val == r.val
{ unimplemented!() }
#[verifier::external_body]
pub fn verif_try_rfrom_UnixEpochDay_32(r: ri32) -> (res: Result<ri32, Error>)
    ensures res.is_ok() <==> in_UnixEpochDay(r.val as int), res.is_ok() ==> res.unwrap().val == r.val
{ unimplemented!() }
#[verifier::external_body]
pub fn verif_try_rfrom_UnixEpochDay_64(r: ri64) -> (res: Result<ri32, Error>)
    ensures res.is_ok() <==> in_UnixEpochDay(r.val as int), res.is_ok() ==> res.unwrap().val == r.val
{ unimplemented!() }
#[verifier::external_body]
pub fn verif_try_rfrom_UnixEpochDay_128(r: ri128) -> (res: Result<ri32, Error>)
    ensures res.is_ok() <==> in_UnixEpochDay(r.val as int), res.is_ok() ==> res.unwrap().val == r.val
{ unimplemented!() }
#[verifier::external_body]
pub fn verif_try_new_UnixEpochDay(v: i64) -> (res: Result<ri32, Error>)
    ensures res.is_ok() <==> in_UnixEpochDay(v as int), res.is_ok() ==> res.unwrap().val == v
{ unimplemented!() }
#[verifier::external_body]
pub fn verif_try_new128_UnixEpochDay(v: i128) -> (res: Result<ri32, Error>)
    ensures res.is_ok() <==> in_UnixEpochDay(v as int), res.is_ok() ==> res.unwrap().val == v
{ unimplemented!() }
// `UnixEpochDay::MIN` / `UnixEpochDay::MAX` (associated consts of type i128)
pub fn verif_MIN_UnixEpochDay() -> (r: i128) ensures r == UnixEpochDay_MIN() { -4371587 }
pub fn verif_MAX_UnixEpochDay() -> (r: i128) ensures r == UnixEpochDay_MAX() { 2932896 }
// `x.try_checked_mul("what", rhs)` with x: UnixEpochDay -- Ok iff the exact product lies within UnixEpochDay::MIN..=MAX
#[verifier::external_body]
pub fn verif_try_checked_mul_UnixEpochDay<R: RInto<ri32>>(x: ri32, rhs: R) -> (res: Result<ri32, Error>)
    requires rhs.rinto_req(),
    ensures res.is_ok() <==> in_UnixEpochDay(x.val * rhs.rinto_spec().val), res.is_ok() ==> res.unwrap().val == x.val * rhs.rinto_spec().val
{ unimplemented!() }
// `x.try_checked_add/sub("what", rhs)` and `x.checked_add/sub/mul(rhs)` with x: UnixEpochDay -- fail iff the exact result leaves UnixEpochDay::MIN..=MAX
#[verifier::external_body]
pub fn verif_try_checked_add_UnixEpochDay<R: RInto<ri32>>(x: ri32, rhs: R) -> (res: Result<ri32, Error>)
    requires rhs.rinto_req(),
    ensures res.is_ok() <==> in_UnixEpochDay(x.val + rhs.rinto_spec().val), res.is_ok() ==> res.unwrap().val == x.val + rhs.rinto_spec().val
{ unimplemented!() }
#[verifier::external_body]
pub fn verif_try_checked_sub_UnixEpochDay<R: RInto<ri32>>(x: ri32, rhs: R) -> (res: Result<ri32, Error>)
    requires rhs.rinto_req(),
    ensures res.is_ok() <==> in_UnixEpochDay(x.val - rhs.rinto_spec().val), res.is_ok() ==> res.unwrap().val == x.val - rhs.rinto_spec().val
{ unimplemented!() }
#[verifier::external_body]
pub fn verif_checked_add_UnixEpochDay<R: RInto<ri32>>(x: ri32, rhs: R) -> (res: Option<ri32>)
    requires rhs.rinto_req(),
    ensures res.is_some() <==> in_UnixEpochDay(x.val + rhs.rinto_spec().val), res.is_some() ==> res.unwrap().val == x.val + rhs.rinto_spec().val
{ unimplemented!() }
#[verifier::external_body]
pub fn verif_checked_sub_UnixEpochDay<R: RInto<ri32>>(x: ri32, rhs: R) -> (res: Option<ri32>)
    requires rhs.rinto_req(),
    ensures res.is_some() <==> in_UnixEpochDay(x.val - rhs.rinto_spec().val), res.is_some() ==> res.unwrap().val == x.val - rhs.rinto_spec().val
{ unimplemented!() }
#[verifier::external_body]
pub fn verif_checked_mul_UnixEpochDay<R: RInto<ri32>>(x: ri32, rhs: R) -> (res: Option<ri32>)
    requires rhs.rinto_req(),
    ensures res.is_some() <==> in_UnixEpochDay(x.val * rhs.rinto_spec().val), res.is_some() ==> res.unwrap().val == x.val * rhs.rinto_spec().val
{ unimplemented!() }
pub type UnixSeconds = ri64;
pub open spec fn UnixSeconds_MIN() -> int { -377705023201 }
pub open spec fn UnixSeconds_MAX() -> int { 253402207200 }
pub open spec fn in_UnixSeconds(v: int) -> bool { -377705023201 <= v <= 253402207200 }
#[verifier::external_body]
pub fn verif_try_rfrom_UnixSeconds_8(r: ri8) -> (res: Result<ri64, Error>)
    ensures res.is_ok() <==> in_UnixSeconds(r.val as int), res.is_ok() ==> res.unwrap().val == r.val
{ unimplemented!() }
#[verifier::external_body]
pub fn verif_try_rfrom_UnixSeconds_16(r: ri16) -> (res: Result<ri64, Error>)
    ensures res.is_ok() <==> in_UnixSeconds(r.val as int), res.is_ok() ==> res.unwrap().val == r.val
{ unimplemented!() }
#[verifier::external_body]
pub fn verif_try_rfrom_UnixSeconds_32(r: ri32) -> (res: Result<ri64, Error>)
    ensures res.is_ok() <==> in_UnixSeconds(r.val as int), res.is_ok() ==> res.unwrap().val == r.val
{ unimplemented!() }
#[verifier::external_body]
pub fn verif_try_rfrom_UnixSeconds_64(r: ri64) -> (res: Result<ri64, Error>)
    ensures res.is_ok() <==> in_UnixSeconds(r.val as int), res.is_ok() ==> res.unwrap().val == r.val
{ unimplemented!() }
#[verifier::external_body]
pub fn verif_try_rfrom_UnixSeconds_128(r: ri128) -> (res: Result<ri64, Error>)
    ensures res.is_ok() <==> in_UnixSeconds(r.val as int), res.is_ok() ==> res.unwrap().val == r.val
{ unimplemented!() }
#[verifier::external_body]
pub fn verif_try_new_UnixSeconds(v: i64) -> (res: Result<ri64, Error>)
    ensures res.is_ok() <==> in_UnixSeconds(v as int), res.is_ok() ==> res.unwrap().val == v
{ unimplemented!() }
#[verifier::external_body]
pub fn verif_try_new128_UnixSeconds(v: i128) -> (res: Result<ri64, Error>)
    ensures res.is_ok() <==> in_UnixSeconds(v as int), res.is_ok() ==> res.unwrap().val == v
{ unimplemented!() }
// `UnixSeconds::MIN` / `UnixSeconds::MAX` (associated consts of type i128)
pub fn verif_MIN_UnixSeconds() -> (r: i128) ensures r == UnixSeconds_MIN() { -377705023201 }
pub fn verif_MAX_UnixSeconds() -> (r: i128) ensures r == UnixSeconds_MAX() { 253402207200 }
// `x.try_checked_mul("what", rhs)` with x: UnixSeconds -- Ok iff the exact product lies within UnixSeconds::MIN..=MAX
#[verifier::external_body]
pub fn verif_try_checked_mul_UnixSeconds<R: RInto<ri64>>(x: ri64, rhs: R) -> (res: Result<ri64, Error>)
    requires rhs.rinto_req(),
    ensures res.is_ok() <==> in_UnixSeconds(x.val * rhs.rinto_spec().val), res.is_ok() ==> res.unwrap().val == x.val * rhs.rinto_spec().val
{ unimplemented!() }
// `x.try_checked_add/sub("what", rhs)` and `x.checked_add/sub/mul(rhs)` with x: UnixSeconds -- fail iff the exact result leaves UnixSeconds::MIN..=MAX
#[verifier::external_body]
pub fn verif_try_checked_add_UnixSeconds<R: RInto<ri64>>(x: ri64, rhs: R) -> (res: Result<ri64, Error>)
    requires rhs.rinto_req(),
    ensures res.is_ok() <==> in_UnixSeconds(x.val + rhs.rinto_spec().val), res.is_ok() ==> res.unwrap().val == x.val + rhs.rinto_spec().val
{ unimplemented!() }
#[verifier::external_body]
pub fn verif_try_checked_sub_UnixSeconds<R: RInto<ri64>>(x: ri64, rhs: R) -> (res: Result<ri64, Error>)
    requires rhs.rinto_req(),
    ensures res.is_ok() <==> in_UnixSeconds(x.val - rhs.rinto_spec().val), res.is_ok() ==> res.unwrap().val == x.val - rhs.rinto_spec().val
{ unimplemented!() }
#[verifier::external_body]
pub fn verif_checked_add_UnixSeconds<R: RInto<ri64>>(x: ri64, rhs: R) -> (res: Option<ri64>)
    requires rhs.rinto_req(),
    ensures res.is_some() <==> in_UnixSeconds(x.val + rhs.rinto_spec().val), res.is_some() ==> res.unwrap().val == x.val + rhs.rinto_spec().val
{ unimplemented!() }
#[verifier::external_body]
pub fn verif_checked_sub_UnixSeconds<R: RInto<ri64>>(x: ri64, rhs: R) -> (res: Option<ri64>)
    requires rhs.rinto_req(),
    ensures res.is_some() <==> in_UnixSeconds(x.val - rhs.rinto_spec().val), res.is_some() ==> res.unwrap().val == x.val - rhs.rinto_spec().val
{ unimplemented!() }
#[verifier::external_body]
pub fn verif_checked_mul_UnixSeconds<R: RInto<ri64>>(x: ri64, rhs: R) -> (res: Option<ri64>)
    requires rhs.rinto_req(),
    ensures res.is_some() <==> in_UnixSeconds(x.val * rhs.rinto_spec().val), res.is_some() ==> res.unwrap().val == x.val * rhs.rinto_spec().val
{ unimplemented!() }
pub type UnixNanoseconds = ri128;
pub open spec fn UnixNanoseconds_MIN() -> int { -377705023201000000000 }
pub open spec fn UnixNanoseconds_MAX() -> int { 253402207200999999999 }
pub open spec fn in_UnixNanoseconds(v: int) -> bool { -377705023201000000000 <= v <= 253402207200999999999 }
#[verifier::external_body]
pub fn verif_try_rfrom_UnixNanoseconds_8(r: ri8) -> (res: Result<ri128, Error>)
    ensures res.is_ok() <==> in_UnixNanoseconds(r.val as int), res.is_ok() ==> res.unwrap().val == r.val
{ unimplemented!() }
#[verifier::external_body]
pub fn verif_try_rfrom_UnixNanoseconds_16(r: ri16) -> (res: Result<ri128, Error>)
    ensures res.is_ok() <==> in_UnixNanoseconds(r.val as int), res.is_ok() ==> res.unwrap().val == r.val
{ unimplemented!() }
#[verifier::external_body]
pub fn verif_try_rfrom_UnixNanoseconds_32(r: ri32) -> (res: Result<ri128, Error>)
    ensures res.is_ok() <==> in_UnixNanoseconds(r.val as int), res.is_ok() ==> res.unwrap().val == r.val
{ unimplemented!() }
#[verifier::external_body]
pub fn verif_try_rfrom_UnixNanoseconds_64(r: ri64) -> (res: Result<ri128, Error>)
    ensures res.is_ok() <==> in_UnixNanoseconds(r.val as int), res.is_ok() ==> res.unwrap().val == r.val
{ unimplemented!() }
#[verifier::external_body]
pub fn verif_try_rfrom_UnixNanoseconds_128(r: ri128) -> (res: Result<ri128, Error>)
    ensures res.is_ok() <==> in_UnixNanoseconds(r.val as int), res.is_ok() ==> res.unwrap().val == r.val
{ unimplemented!() }
#[verifier::external_body]
pub fn verif_try_new_UnixNanoseconds(v: i64) -> (res: Result<ri128, Error>)
    ensures res.is_ok() <==> in_UnixNanoseconds(v as int), res.is_ok() ==> res.unwrap().val == v
{ unimplemented!() }
#[verifier::external_body]
pub fn verif_try_new128_UnixNanoseconds(v: i128) -> (res: Result<ri128, Error>)
    ensures res.is_ok() <==> in_UnixNanoseconds(v as int), res.is_ok() ==> res.unwrap().val == v
{ unimplemented!() }
// `UnixNanoseconds::MIN` / `UnixNanoseconds::MAX` (associated consts of type i128)
pub fn verif_MIN_UnixNanoseconds() -> (r: i128) ensures r == UnixNanoseconds_MIN() { -377705023201000000000 }
pub fn verif_MAX_UnixNanoseconds() -> (r: i128) ensures r == UnixNanoseconds_MAX() { 253402207200999999999 }
// `x.try_checked_mul("what", rhs)` with x: UnixNanoseconds -- Ok iff the exact product lies within UnixNanoseconds::MIN..=MAX
#[verifier::external_body]
pub fn verif_try_checked_mul_UnixNanoseconds<R: RInto<ri128>>(x: ri128, rhs: R) -> (res: Result<ri128, Error>)
    requires rhs.rinto_req(),
    ensures res.is_ok() <==> in_UnixNanoseconds(x.val * rhs.rinto_spec().val), res.is_ok() ==> res.unwrap().val == x.val * rhs.rinto_spec().val
{ unimplemented!() }
// `x.try_checked_add/sub("what", rhs)` and `x.checked_add/sub/mul(rhs)` with x: UnixNanoseconds -- fail iff the exact result leaves UnixNanoseconds::MIN..=MAX
#[verifier::external_body]
pub fn verif_try_checked_add_UnixNanoseconds<R: RInto<ri128>>(x: ri128, rhs: R) -> (res: Result<ri128, Error>)
    requires rhs.rinto_req(),
    ensures res.is_ok() <==> in_UnixNanoseconds(x.val + rhs.rinto_spec().val), res.is_ok() ==> res.unwrap().val == x.val + rhs.rinto_spec().val
{ unimplemented!() }
#[verifier::external_body]
pub fn verif_try_checked_sub_UnixNanoseconds<R: RInto<ri128>>(x: ri128, rhs: R) -> (res: Result<ri128, Error>)
    requires rhs.rinto_req(),
    ensures res.is_ok() <==> in_UnixNanoseconds(x.val - rhs.rinto_spec().val), res.is_ok() ==> res.unwrap().val == x.val - rhs.rinto_spec().val
{ unimplemented!() }
#[verifier::external_body]
pub fn verif_checked_add_UnixNanoseconds<R: RInto<ri128>>(x: ri128, rhs: R) -> (res: Option<ri128>)
    requires rhs.rinto_req(),
    ensures res.is_some() <==> in_UnixNanoseconds(x.val + rhs.rinto_spec().val), res.is_some() ==> res.unwrap().val == x.val + rhs.rinto_spec().val
{ unimplemented!() }
#[verifier::external_body]
pub fn verif_checked_sub_UnixNanoseconds<R: RInto<ri128>>(x: ri128, rhs: R) -> (res: Option<ri128>)
    requires rhs.rinto_req(),
    ensures res.is_some() <==> in_UnixNanoseconds(x.val - rhs.rinto_spec().val), res.is_some() ==> res.unwrap().val == x.val - rhs.rinto_spec().val
{ unimplemented!() }
#[verifier::external_body]
pub fn verif_checked_mul_UnixNanoseconds<R: RInto<ri128>>(x: ri128, rhs: R) -> (res: Option<ri128>)
    requires rhs.rinto_req(),
    ensures res.is_some() <==> in_UnixNanoseconds(x.val * rhs.rinto_spec().val), res.is_some() ==> res.unwrap().val == x.val * rhs.rinto_spec().val
{ unimplemented!() }
pub type SpanYears = ri16;
pub open spec fn SpanYears_MIN() -> int { -19998 }
pub open spec fn SpanYears_MAX() -> int { 19998 }
pub open spec fn in_SpanYears(v: int) -> bool { -19998 <= v <= 19998 }
#[verifier::external_body]
pub fn verif_try_rfrom_SpanYears_8(r: ri8) -> (res: Result<ri16, Error>)
    ensures res.is_ok() <==> in_SpanYears(r.val as int), res.is_ok() ==> res.unwrap().val == r.val
{ unimplemented!() }
#[verifier::external_body]
pub fn verif_try_rfrom_SpanYears_16(r: ri16) -> (res: Result<ri16, Error>)
    ensures res.is_ok() <==> in_SpanYears(r.val as int), res.is_ok() ==> res.unwrap().val == r.val
{ unimplemented!() }
#[verifier::external_body]
pub fn verif_try_rfrom_SpanYears_32(r: ri32) -> (res: Result<ri16, Error>)
    ensures res.is_ok() <==> in_SpanYears(r.val as int), res.is_ok() ==> res.unwrap().val == r.val
{ unimplemented!() }
#[verifier::external_body]
pub fn verif_try_rfrom_SpanYears_64(r: ri64) -> (res: Result<ri16, Error>)
    ensures res.is_ok() <==> in_SpanYears(r.val as int), res.is_ok() ==> res.unwrap().val == r.val
{ unimplemented!() }
#[verifier::external_body]
pub fn verif_try_rfrom_SpanYears_128(r: ri128) -> (res: Result<ri16, Error>)
    ensures res.is_ok() <==> in_SpanYears(r.val as int), res.is_ok() ==> res.unwrap().val == r.val
{ unimplemented!() }
#[verifier::external_body]
pub fn verif_try_new_SpanYears(v: i64) -> (res: Result<ri16, Error>)
    ensures res.is_ok() <==> in_SpanYears(v as int), res.is_ok() ==> res.unwrap().val == v
{ unimplemented!() }
#[verifier::external_body]
pub fn verif_try_new128_SpanYears(v: i128) -> (res: Result<ri16, Error>)
    ensures res.is_ok() <==> in_SpanYears(v as int), res.is_ok() ==> res.unwrap().val == v
{ unimplemented!() }
// `SpanYears::MIN` / `SpanYears::MAX` (associated consts of type i128)
pub fn verif_MIN_SpanYears() -> (r: i128) ensures r == SpanYears_MIN() { -19998 }
pub fn verif_MAX_SpanYears() -> (r: i128) ensures r == SpanYears_MAX() { 19998 }
// `x.try_checked_mul("what", rhs)` with x: SpanYears -- Ok iff the exact product lies within SpanYears::MIN..=MAX
#[verifier::external_body]
pub fn verif_try_checked_mul_SpanYears<R: RInto<ri16>>(x: ri16, rhs: R) -> (res: Result<ri16, Error>)
    requires rhs.rinto_req(),
    ensures res.is_ok() <==> in_SpanYears(x.val * rhs.rinto_spec().val), res.is_ok() ==> res.unwrap().val == x.val * rhs.rinto_spec().val
{ unimplemented!() }
// `x.try_checked_add/sub("what", rhs)` and `x.checked_add/sub/mul(rhs)` with x: SpanYears -- fail iff the exact result leaves SpanYears::MIN..=MAX
#[verifier::external_body]
pub fn verif_try_checked_add_SpanYears<R: RInto<ri16>>(x: ri16, rhs: R) -> (res: Result<ri16, Error>)
    requires rhs.rinto_req(),
    ensures res.is_ok() <==> in_SpanYears(x.val + rhs.rinto_spec().val), res.is_ok() ==> res.unwrap().val == x.val + rhs.rinto_spec().val
{ unimplemented!() }
#[verifier::external_body]
pub fn verif_try_checked_sub_SpanYears<R: RInto<ri16>>(x: ri16, rhs: R) -> (res: Result<ri16, Error>)
    requires rhs.rinto_req(),
    ensures res.is_ok() <==> in_SpanYears(x.val - rhs.rinto_spec().val), res.is_ok() ==> res.unwrap().val == x.val - rhs.rinto_spec().val
{ unimplemented!() }
#[verifier::external_body]
pub fn verif_checked_add_SpanYears<R: RInto<ri16>>(x: ri16, rhs: R) -> (res: Option<ri16>)
    requires rhs.rinto_req(),
    ensures res.is_some() <==> in_SpanYears(x.val + rhs.rinto_spec().val), res.is_some() ==> res.unwrap().val == x.val + rhs.rinto_spec().val
{ unimplemented!() }
#[verifier::external_body]
pub fn verif_checked_sub_SpanYears<R: RInto<ri16>>(x: ri16, rhs: R) -> (res: Option<ri16>)
    requires rhs.rinto_req(),
    ensures res.is_some() <==> in_SpanYears(x.val - rhs.rinto_spec().val), res.is_some() ==> res.unwrap().val == x.val - rhs.rinto_spec().val
{ unimplemented!() }
#[verifier::external_body]
pub fn verif_checked_mul_SpanYears<R: RInto<ri16>>(x: ri16, rhs: R) -> (res: Option<ri16>)
    requires rhs.rinto_req(),
    ensures res.is_some() <==> in_SpanYears(x.val * rhs.rinto_spec().val), res.is_some() ==> res.unwrap().val == x.val * rhs.rinto_spec().val
{ unimplemented!() }
pub type SpanMonths = ri32;
pub open spec fn SpanMonths_MIN() -> int { -239976 }
pub open spec fn SpanMonths_MAX() -> int { 239976 }
pub open spec fn in_SpanMonths(v: int) -> bool { -239976 <= v <= 239976 }
#[verifier::external_body]
pub fn verif_try_rfrom_SpanMonths_8(r: ri8) -> (res: Result<ri32, Error>)
    ensures res.is_ok() <==> in_SpanMonths(r.val as int), res.is_ok() ==> res.unwrap().val == r.val
{ unimplemented!() }
#[verifier::external_body]
pub fn verif_try_rfrom_SpanMonths_16(r: ri16) -> (res: Result<ri32, Error>)
    ensures res.is_ok() <==> in_SpanMonths(r.val as int), res.is_ok() ==> res.unwrap().val == r.val
{ unimplemented!() }
#[verifier::external_body]
pub fn verif_try_rfrom_SpanMonths_32(r: ri32) -> (res: Result<ri32, Error>)
    ensures res.is_ok() <==> in_SpanMonths(r.val as int), res.is_ok() ==> res.unwrap().val == r.val
{ unimplemented!() }
#[verifier::external_body]
pub fn verif_try_rfrom_SpanMonths_64(r: ri64) -> (res: Result<ri32, Error>)
    ensures res.is_ok() <==> in_SpanMonths(r.val as int), res.is_ok() ==> res.unwrap().val == r.val
{ unimplemented!() }
#[verifier::external_body]
pub fn verif_try_rfrom_SpanMonths_128(r: ri128) -> (res: Result<ri32, Error>)
    ensures res.is_ok() <==> in_SpanMonths(r.val as int), res.is_ok() ==> res.unwrap().val == r.val
{ unimplemented!() }
#[verifier::external_body]
pub fn verif_try_new_SpanMonths(v: i64) -> (res: Result<ri32, Error>)
    ensures res.is_ok() <==> in_SpanMonths(v as int), res.is_ok() ==> res.unwrap().val == v
{ unimplemented!() }
#[verifier::external_body]
pub fn verif_try_new128_SpanMonths(v: i128) -> (res: Result<ri32, Error>)
    ensures res.is_ok() <==> in_SpanMonths(v as int), res.is_ok() ==> res.unwrap().val == v
{ unimplemented!() }
// `SpanMonths::MIN` / `SpanMonths::MAX` (associated consts of type i128)
pub fn verif_MIN_SpanMonths() -> (r: i128) ensures r == SpanMonths_MIN() { -239976 }
pub fn verif_MAX_SpanMonths() -> (r: i128) ensures r == SpanMonths_MAX() { 239976 }
// `x.try_checked_mul("what", rhs)` with x: SpanMonths -- Ok iff the exact product lies within SpanMonths::MIN..=MAX
#[verifier::external_body]
pub fn verif_try_checked_mul_SpanMonths<R: RInto<ri32>>(x: ri32, rhs: R) -> (res: Result<ri32, Error>)
    requires rhs.rinto_req(),
    ensures res.is_ok() <==> in_SpanMonths(x.val * rhs.rinto_spec().val), res.is_ok() ==> res.unwrap().val == x.val * rhs.rinto_spec().val
{ unimplemented!() }
// `x.try_checked_add/sub("what", rhs)` and `x.checked_add/sub/mul(rhs)` with x: SpanMonths -- fail iff the exact result leaves SpanMonths::MIN..=MAX
#[verifier::external_body]
pub fn verif_try_checked_add_SpanMonths<R: RInto<ri32>>(x: ri32, rhs: R) -> (res: Result<ri32, Error>)
    requires rhs.rinto_req(),
    ensures res.is_ok() <==> in_SpanMonths(x.val + rhs.rinto_spec().val), res.is_ok() ==> res.unwrap().val == x.val + rhs.rinto_spec().val
{ unimplemented!() }
#[verifier::external_body]
pub fn verif_try_checked_sub_SpanMonths<R: RInto<ri32>>(x: ri32, rhs: R) -> (res: Result<ri32, Error>)
    requires rhs.rinto_req(),
    ensures res.is_ok() <==> in_SpanMonths(x.val - rhs.rinto_spec().val), res.is_ok() ==> res.unwrap().val == x.val - rhs.rinto_spec().val
{ unimplemented!() }
#[verifier::external_body]
pub fn verif_checked_add_SpanMonths<R: RInto<ri32>>(x: ri32, rhs: R) -> (res: Option<ri32>)
    requires rhs.rinto_req(),
    ensures res.is_some() <==> in_SpanMonths(x.val + rhs.rinto_spec().val), res.is_some() ==> res.unwrap().val == x.val + rhs.rinto_spec().val
{ unimplemented!() }
#[verifier::external_body]
pub fn verif_checked_sub_SpanMonths<R: RInto<ri32>>(x: ri32, rhs: R) -> (res: Option<ri32>)
    requires rhs.rinto_req(),
    ensures res.is_some() <==> in_SpanMonths(x.val - rhs.rinto_spec().val), res.is_some() ==> res.unwrap().val == x.val - rhs.rinto_spec().val
{ unimplemented!() }
#[verifier::external_body]
pub fn verif_checked_mul_SpanMonths<R: RInto<ri32>>(x: ri32, rhs: R) -> (res: Option<ri32>)
    requires rhs.rinto_req(),
    ensures res.is_some() <==> in_SpanMonths(x.val * rhs.rinto_spec().val), res.is_some() ==> res.unwrap().val == x.val * rhs.rinto_spec().val
{ unimplemented!() }
pub type SpanWeeks = ri32;
pub open spec fn SpanWeeks_MIN() -> int { -1043497 }
pub open spec fn SpanWeeks_MAX() -> int { 1043497 }
pub open spec fn in_SpanWeeks(v: int) -> bool { -1043497 <= v <= 1043497 }
#[verifier::external_body]
pub fn verif_try_rfrom_SpanWeeks_8(r: ri8) -> (res: Result<ri32, Error>)
    ensures res.is_ok() <==> in_SpanWeeks(r.val as int), res.is_ok() ==> res.unwrap().val == r.val
{ unimplemented!() }
#[verifier::external_body]
pub fn verif_try_rfrom_SpanWeeks_16(r: ri16) -> (res: Result<ri32, Error>)
    ensures res.is_ok() <==> in_SpanWeeks(r.val as int), res.is_ok() ==> res.unwrap().val == r.val
{ unimplemented!() }
#[verifier::external_body]
pub fn verif_try_rfrom_SpanWeeks_32(r: ri32) -> (res: Result<ri32, Error>)
    ensures res.is_ok() <==> in_SpanWeeks(r.val as int), res.is_ok() ==> res.unwrap().val == r.val
{ unimplemented!() }
#[verifier::external_body]
pub fn verif_try_rfrom_SpanWeeks_64(r: ri64) -> (res: Result<ri32, Error>)
    ensures res.is_ok() <==> in_SpanWeeks(r.val as int), res.is_ok() ==> res.unwrap().val == r.val
{ unimplemented!() }
#[verifier::external_body]
pub fn verif_try_rfrom_SpanWeeks_128(r: ri128) -> (res: Result<ri32, Error>)
    ensures res.is_ok() <==> in_SpanWeeks(r.val as int), res.is_ok() ==> res.unwrap().val == r.val
{ unimplemented!() }
#[verifier::external_body]
pub fn verif_try_new_SpanWeeks(v: i64) -> (res: Result<ri32, Error>)
    ensures res.is_ok() <==> in_SpanWeeks(v as int), res.is_ok() ==> res.unwrap().val == v
{ unimplemented!() }
#[verifier::external_body]
pub fn verif_try_new128_SpanWeeks(v: i128) -> (res: Result<ri32, Error>)
    ensures res.is_ok() <==> in_SpanWeeks(v as int), res.is_ok() ==> res.unwrap().val == v
{ unimplemented!() }
// `SpanWeeks::MIN` / `SpanWeeks::MAX` (associated consts of type i128)
pub fn verif_MIN_SpanWeeks() -> (r: i128) ensures r == SpanWeeks_MIN() { -1043497 }
pub fn verif_MAX_SpanWeeks() -> (r: i128) ensures r == SpanWeeks_MAX() { 1043497 }
// `x.try_checked_mul("what", rhs)` with x: SpanWeeks -- Ok iff the exact product lies within SpanWeeks::MIN..=MAX
#[verifier::external_body]
pub fn verif_try_checked_mul_SpanWeeks<R: RInto<ri32>>(x: ri32, rhs: R) -> (res: Result<ri32, Error>)
    requires rhs.rinto_req(),
    ensures res.is_ok() <==> in_SpanWeeks(x.val * rhs.rinto_spec().val), res.is_ok() ==> res.unwrap().val == x.val * rhs.rinto_spec().val
{ unimplemented!() }
// `x.try_checked_add/sub("what", rhs)` and `x.checked_add/sub/mul(rhs)` with x: SpanWeeks -- fail iff the exact result leaves SpanWeeks::MIN..=MAX
#[verifier::external_body]
pub fn verif_try_checked_add_SpanWeeks<R: RInto<ri32>>(x: ri32, rhs: R) -> (res: Result<ri32, Error>)
    requires rhs.rinto_req(),
    ensures res.is_ok() <==> in_SpanWeeks(x.val + rhs.rinto_spec().val), res.is_ok() ==> res.unwrap().val == x.val + rhs.rinto_spec().val
{ unimplemented!() }
#[verifier::external_body]
pub fn verif_try_checked_sub_SpanWeeks<R: RInto<ri32>>(x: ri32, rhs: R) -> (res: Result<ri32, Error>)
    requires rhs.rinto_req(),
    ensures res.is_ok() <==> in_SpanWeeks(x.val - rhs.rinto_spec().val), res.is_ok() ==> res.unwrap().val == x.val - rhs.rinto_spec().val
{ unimplemented!() }
#[verifier::external_body]
pub fn verif_checked_add_SpanWeeks<R: RInto<ri32>>(x: ri32, rhs: R) -> (res: Option<ri32>)
    requires rhs.rinto_req(),
    ensures res.is_some() <==> in_SpanWeeks(x.val + rhs.rinto_spec().val), res.is_some() ==> res.unwrap().val == x.val + rhs.rinto_spec().val
{ unimplemented!() }
#[verifier::external_body]
pub fn verif_checked_sub_SpanWeeks<R: RInto<ri32>>(x: ri32, rhs: R) -> (res: Option<ri32>)
    requires rhs.rinto_req(),
    ensures res.is_some() <==> in_SpanWeeks(x.val - rhs.rinto_spec().val), res.is_some() ==> res.unwrap().val == x.val - rhs.rinto_spec().val
{ unimplemented!() }
#[verifier::external_body]
pub fn verif_checked_mul_SpanWeeks<R: RInto<ri32>>(x: ri32, rhs: R) -> (res: Option<ri32>)
    requires rhs.rinto_req(),
    ensures res.is_some() <==> in_SpanWeeks(x.val * rhs.rinto_spec().val), res.is_some() ==> res.unwrap().val == x.val * rhs.rinto_spec().val
{ unimplemented!() }
pub type SpanDays = ri32;
pub open spec fn SpanDays_MIN() -> int { -7304484 }
pub open spec fn SpanDays_MAX() -> int { 7304484 }
pub open spec fn in_SpanDays(v: int) -> bool { -7304484 <= v <= 7304484 }
#[verifier::external_body]
pub fn verif_try_rfrom_SpanDays_8(r: ri8) -> (res: Result<ri32, Error>)
    ensures res.is_ok() <==> in_SpanDays(r.val as int), res.is_ok() ==> res.unwrap().val == r.val
{ unimplemented!() }
#[verifier::external_body]
pub fn verif_try_rfrom_SpanDays_16(r: ri16) -> (res: Result<ri32, Error>)
    ensures res.is_ok() <==> in_SpanDays(r.val as int), res.is_ok() ==> res.unwrap().val == r.val
{ unimplemented!() }
#[verifier::external_body]
pub fn verif_try_rfrom_SpanDays_32(r: ri32) -> (res: Result<ri32, Error>)
    ensures res.is_ok() <==> in_SpanDays(r.val as int), res.is_ok() ==> res.unwrap().val == r.val
{ unimplemented!() }
#[verifier::external_body]
pub fn verif_try_rfrom_SpanDays_64(r: ri64) -> (res: Result<ri32, Error>)
    ensures res.is_ok() <==> in_SpanDays(r.val as int), res.is_ok() ==> res.unwrap().val == r.val
{ unimplemented!() }
#[verifier::external_body]
pub fn verif_try_rfrom_SpanDays_128(r: ri128) -> (res: Result<ri32, Error>)
    ensures res.is_ok() <==> in_SpanDays(r.val as int), res.is_ok() ==> res.unwrap().val == r.val
{ unimplemented!() }
#[verifier::external_body]
pub fn verif_try_new_SpanDays(v: i64) -> (res: Result<ri32, Error>)
    ensures res.is_ok() <==> in_SpanDays(v as int), res.is_ok() ==> res.unwrap().val == v
{ unimplemented!() }
#[verifier::external_body]
pub fn verif_try_new128_SpanDays(v: i128) -> (res: Result<ri32, Error>)
    ensures res.is_ok() <==> in_SpanDays(v as int), res.is_ok() ==> res.unwrap().val == v
{ unimplemented!() }
// `SpanDays::MIN` / `SpanDays::MAX` (associated consts of type i128)
pub fn verif_MIN_SpanDays() -> (r: i128) ensures r == SpanDays_MIN() { -7304484 }
pub fn verif_MAX_SpanDays() -> (r: i128) ensures r == SpanDays_MAX() { 7304484 }
// `x.try_checked_mul("what", rhs)` with x: SpanDays -- Ok iff the exact product lies within SpanDays::MIN..=MAX
#[verifier::external_body]
pub fn verif_try_checked_mul_SpanDays<R: RInto<ri32>>(x: ri32, rhs: R) -> (res: Result<ri32, Error>)
    requires rhs.rinto_req(),
    ensures res.is_ok() <==> in_SpanDays(x.val * rhs.rinto_spec().val), res.is_ok() ==> res.unwrap().val == x.val * rhs.rinto_spec().val
{ unimplemented!() }
// `x.try_checked_add/sub("what", rhs)` and `x.checked_add/sub/mul(rhs)` with x: SpanDays -- fail iff the exact result leaves SpanDays::MIN..=MAX
#[verifier::external_body]
pub fn verif_try_checked_add_SpanDays<R: RInto<ri32>>(x: ri32, rhs: R) -> (res: Result<ri32, Error>)
    requires rhs.rinto_req(),
    ensures res.is_ok() <==> in_SpanDays(x.val + rhs.rinto_spec().val), res.is_ok() ==> res.unwrap().val == x.val + rhs.rinto_spec().val
{ unimplemented!() }
#[verifier::external_body]
pub fn verif_try_checked_sub_SpanDays<R: RInto<ri32>>(x: ri32, rhs: R) -> (res: Result<ri32, Error>)
    requires rhs.rinto_req(),
    ensures res.is_ok() <==> in_SpanDays(x.val - rhs.rinto_spec().val), res.is_ok() ==> res.unwrap().val == x.val - rhs.rinto_spec().val
{ unimplemented!() }
#[verifier::external_body]
pub fn verif_checked_add_SpanDays<R: RInto<ri32>>(x: ri32, rhs: R) -> (res: Option<ri32>)
    requires rhs.rinto_req(),
    ensures res.is_some() <==> in_SpanDays(x.val + rhs.rinto_spec().val), res.is_some() ==> res.unwrap().val == x.val + rhs.rinto_spec().val
{ unimplemented!() }
#[verifier::external_body]
pub fn verif_checked_sub_SpanDays<R: RInto<ri32>>(x: ri32, rhs: R) -> (res: Option<ri32>)
    requires rhs.rinto_req(),
    ensures res.is_some() <==> in_SpanDays(x.val - rhs.rinto_spec().val), res.is_some() ==> res.unwrap().val == x.val - rhs.rinto_spec().val
{ unimplemented!() }
#[verifier::external_body]
pub fn verif_checked_mul_SpanDays<R: RInto<ri32>>(x: ri32, rhs: R) -> (res: Option<ri32>)
    requires rhs.rinto_req(),
    ensures res.is_some() <==> in_SpanDays(x.val * rhs.rinto_spec().val), res.is_some() ==> res.unwrap().val == x.val * rhs.rinto_spec().val
{ unimplemented!() }
pub type SpanHours = ri32;
pub open spec fn SpanHours_MIN() -> int { -175307616 }
pub open spec fn SpanHours_MAX() -> int { 175307616 }
pub open spec fn in_SpanHours(v: int) -> bool { -175307616 <= v <= 175307616 }
#[verifier::external_body]
pub fn verif_try_rfrom_SpanHours_8(r: ri8) -> (res: Result<ri32, Error>)
    ensures res.is_ok() <==> in_SpanHours(r.val as int), res.is_ok() ==> res.unwrap().val == r.val
{ unimplemented!() }
#[verifier::external_body]
pub fn verif_try_rfrom_SpanHours_16(r: ri16) -> (res: Result<ri32, Error>)
    ensures res.is_ok() <==> in_SpanHours(r.val as int), res.is_ok() ==> res.unwrap().val == r.val
{ unimplemented!() }
#[verifier::external_body]
pub fn verif_try_rfrom_SpanHours_32(r: ri32) -> (res: Result<ri32, Error>)
    ensures res.is_ok() <==> in_SpanHours(r.val as int), res.is_ok() ==> res.unwrap().val == r.val
{ unimplemented!() }
#[verifier::external_body]
pub fn verif_try_rfrom_SpanHours_64(r: ri64) -> (res: Result<ri32, Error>)
    ensures res.is_ok() <==> in_SpanHours(r.val as int), res.is_ok() ==> res.unwrap().val == r.val
{ unimplemented!() }
#[verifier::external_body]
pub fn verif_try_rfrom_SpanHours_128(r: ri128) -> (res: Result<ri32, Error>)
    ensures res.is_ok() <==> in_SpanHours(r.val as int), res.is_ok() ==> res.unwrap().val == r.val
{ unimplemented!() }
#[verifier::external_body]
pub fn verif_try_new_SpanHours(v: i64) -> (res: Result<ri32, Error>)
    ensures res.is_ok() <==> in_SpanHours(v as int), res.is_ok() ==> res.unwrap().val == v
{ unimplemented!() }
#[verifier::external_body]
pub fn verif_try_new128_SpanHours(v: i128) -> (res: Result<ri32, Error>)
    ensures res.is_ok() <==> in_SpanHours(v as int), res.is_ok() ==> res.unwrap().val == v
{ unimplemented!() }
// `SpanHours::MIN` / `SpanHours::MAX` (associated consts of type i128)
pub fn verif_MIN_SpanHours() -> (r: i128) ensures r == SpanHours_MIN() { -175307616 }
pub fn verif_MAX_SpanHours() -> (r: i128) ensures r == SpanHours_MAX() { 175307616 }
// `x.try_checked_mul("what", rhs)` with x: SpanHours -- Ok iff the exact product lies within SpanHours::MIN..=MAX
#[verifier::external_body]
pub fn verif_try_checked_mul_SpanHours<R: RInto<ri32>>(x: ri32, rhs: R) -> (res: Result<ri32, Error>)
    requires rhs.rinto_req(),
    ensures res.is_ok() <==> in_SpanHours(x.val * rhs.rinto_spec().val), res.is_ok() ==> res.unwrap().val == x.val * rhs.rinto_spec().val
{ unimplemented!() }
// `x.try_checked_add/sub("what", rhs)` and `x.checked_add/sub/mul(rhs)` with x: SpanHours -- fail iff the exact result leaves SpanHours::MIN..=MAX
#[verifier::external_body]
pub fn verif_try_checked_add_SpanHours<R: RInto<ri32>>(x: ri32, rhs: R) -> (res: Result<ri32, Error>)
    requires rhs.rinto_req(),
    ensures res.is_ok() <==> in_SpanHours(x.val + rhs.rinto_spec().val), res.is_ok() ==> res.unwrap().val == x.val + rhs.rinto_spec().val
{ unimplemented!() }
#[verifier::external_body]
pub fn verif_try_checked_sub_SpanHours<R: RInto<ri32>>(x: ri32, rhs: R) -> (res: Result<ri32, Error>)
    requires rhs.rinto_req(),
    ensures res.is_ok() <==> in_SpanHours(x.val - rhs.rinto_spec().val), res.is_ok() ==> res.unwrap().val == x.val - rhs.rinto_spec().val
{ unimplemented!() }
#[verifier::external_body]
pub fn verif_checked_add_SpanHours<R: RInto<ri32>>(x: ri32, rhs: R) -> (res: Option<ri32>)
    requires rhs.rinto_req(),
    ensures res.is_some() <==> in_SpanHours(x.val + rhs.rinto_spec().val), res.is_some() ==> res.unwrap().val == x.val + rhs.rinto_spec().val
{ unimplemented!() }
#[verifier::external_body]
pub fn verif_checked_sub_SpanHours<R: RInto<ri32>>(x: ri32, rhs: R) -> (res: Option<ri32>)
    requires rhs.rinto_req(),
    ensures res.is_some() <==> in_SpanHours(x.val - rhs.rinto_spec().val), res.is_some() ==> res.unwrap().val == x.val - rhs.rinto_spec().val
{ unimplemented!() }
#[verifier::external_body]
pub fn verif_checked_mul_SpanHours<R: RInto<ri32>>(x: ri32, rhs: R) -> (res: Option<ri32>)
    requires rhs.rinto_req(),
    ensures res.is_some() <==> in_SpanHours(x.val * rhs.rinto_spec().val), res.is_some() ==> res.unwrap().val == x.val * rhs.rinto_spec().val
{ unimplemented!() }
pub type SpanMinutes = ri64;
pub open spec fn SpanMinutes_MIN() -> int { -10518456960 }
pub open spec fn SpanMinutes_MAX() -> int { 10518456960 }
pub open spec fn in_SpanMinutes(v: int) -> bool { -10518456960 <= v <= 10518456960 }
#[verifier::external_body]
pub fn verif_try_rfrom_SpanMinutes_8(r: ri8) -> (res: Result<ri64, Error>)
    ensures res.is_ok() <==> in_SpanMinutes(r.val as int), res.is_ok() ==> res.unwrap().val == r.val
{ unimplemented!() }
#[verifier::external_body]
pub fn verif_try_rfrom_SpanMinutes_16(r: ri16) -> (res: Result<ri64, Error>)
    ensures res.is_ok() <==> in_SpanMinutes(r.val as int), res.is_ok() ==> res.unwrap().val == r.val
{ unimplemented!() }
#[verifier::external_body]
pub fn verif_try_rfrom_SpanMinutes_32(r: ri32) -> (res: Result<ri64, Error>)
    ensures res.is_ok() <==> in_SpanMinutes(r.val as int), res.is_ok() ==> res.unwrap().val == r.val
{ unimplemented!() }
#[verifier::external_body]
pub fn verif_try_rfrom_SpanMinutes_64(r: ri64) -> (res: Result<ri64, Error>)
    ensures res.is_ok() <==> in_SpanMinutes(r.val as int), res.is_ok() ==> res.unwrap().val == r.val
{ unimplemented!() }
#[verifier::external_body]
pub fn verif_try_rfrom_SpanMinutes_128(r: ri128) -> (res: Result<ri64, Error>)
    ensures res.is_ok() <==> in_SpanMinutes(r.val as int), res.is_ok() ==> res.unwrap().val == r.val
{ unimplemented!() }
#[verifier::external_body]
pub fn verif_try_new_SpanMinutes(v: i64) -> (res: Result<ri64, Error>)
    ensures res.is_ok() <==> in_SpanMinutes(v as int), res.is_ok() ==> res.unwrap().val == v
{ unimplemented!() }
#[verifier::external_body]
pub fn verif_try_new128_SpanMinutes(v: i128) -> (res: Result<ri64, Error>)
    ensures res.is_ok() <==> in_SpanMinutes(v as int), res.is_ok() ==> res.unwrap().val == v
{ unimplemented!() }
// `SpanMinutes::MIN` / `SpanMinutes::MAX` (associated consts of type i128)
pub fn verif_MIN_SpanMinutes() -> (r: i128) ensures r == SpanMinutes_MIN() { -10518456960 }
pub fn verif_MAX_SpanMinutes() -> (r: i128) ensures r == SpanMinutes_MAX() { 10518456960 }
// `x.try_checked_mul("what", rhs)` with x: SpanMinutes -- Ok iff the exact product lies within SpanMinutes::MIN..=MAX
#[verifier::external_body]
pub fn verif_try_checked_mul_SpanMinutes<R: RInto<ri64>>(x: ri64, rhs: R) -> (res: Result<ri64, Error>)
    requires rhs.rinto_req(),
    ensures res.is_ok() <==> in_SpanMinutes(x.val * rhs.rinto_spec().val), res.is_ok() ==> res.unwrap().val == x.val * rhs.rinto_spec().val
{ unimplemented!() }
// `x.try_checked_add/sub("what", rhs)` and `x.checked_add/sub/mul(rhs)` with x: SpanMinutes -- fail iff the exact result leaves SpanMinutes::MIN..=MAX
#[verifier::external_body]
pub fn verif_try_checked_add_SpanMinutes<R: RInto<ri64>>(x: ri64, rhs: R) -> (res: Result<ri64, Error>)
    requires rhs.rinto_req(),
    ensures res.is_ok() <==> in_SpanMinutes(x.val + rhs.rinto_spec().val), res.is_ok() ==> res.unwrap().val == x.val + rhs.rinto_spec().val
{ unimplemented!() }
#[verifier::external_body]
pub fn verif_try_checked_sub_SpanMinutes<R: RInto<ri64>>(x: ri64, rhs: R) -> (res: Result<ri64, Error>)
    requires rhs.rinto_req(),
    ensures res.is_ok() <==> in_SpanMinutes(x.val - rhs.rinto_spec().val), res.is_ok() ==> res.unwrap().val == x.val - rhs.rinto_spec().val
{ unimplemented!() }
#[verifier::external_body]
pub fn verif_checked_add_SpanMinutes<R: RInto<ri64>>(x: ri64, rhs: R) -> (res: Option<ri64>)
    requires rhs.rinto_req(),
    ensures res.is_some() <==> in_SpanMinutes(x.val + rhs.rinto_spec().val), res.is_some() ==> res.unwrap().val == x.val + rhs.rinto_spec().val
{ unimplemented!() }
#[verifier::external_body]
pub fn verif_checked_sub_SpanMinutes<R: RInto<ri64>>(x: ri64, rhs: R) -> (res: Option<ri64>)
    requires rhs.rinto_req(),
    ensures res.is_some() <==> in_SpanMinutes(x.val - rhs.rinto_spec().val), res.is_some() ==> res.unwrap().val == x.val - rhs.rinto_spec().val
{ unimplemented!() }
#[verifier::external_body]
pub fn verif_checked_mul_SpanMinutes<R: RInto<ri64>>(x: ri64, rhs: R) -> (res: Option<ri64>)
    requires rhs.rinto_req(),
    ensures res.is_some() <==> in_SpanMinutes(x.val * rhs.rinto_spec().val), res.is_some() ==> res.unwrap().val == x.val * rhs.rinto_spec().val
{ unimplemented!() }
pub type SpanSeconds = ri64;
pub open spec fn SpanSeconds_MIN() -> int { -631107417600 }
pub open spec fn SpanSeconds_MAX() -> int { 631107417600 }
pub open spec fn in_SpanSeconds(v: int) -> bool { -631107417600 <= v <= 631107417600 }
#[verifier::external_body]
pub fn verif_try_rfrom_SpanSeconds_8(r: ri8) -> (res: Result<ri64, Error>)
    ensures res.is_ok() <==> in_SpanSeconds(r.val as int), res.is_ok() ==> res.unwrap().val == r.val
{ unimplemented!() }
#[verifier::external_body]
pub fn verif_try_rfrom_SpanSeconds_16(r: ri16) -> (res: Result<ri64, Error>)
    ensures res.is_ok() <==> in_SpanSeconds(r.val as int), res.is_ok() ==> res.unwrap().val == r.val
{ unimplemented!() }
#[verifier::external_body]
pub fn verif_try_rfrom_SpanSeconds_32(r: ri32) -> (res: Result<ri64, Error>)
    ensures res.is_ok() <==> in_SpanSeconds(r.val as int), res.is_ok() ==> res.unwrap().val == r.val
{ unimplemented!() }
#[verifier::external_body]
pub fn verif_try_rfrom_SpanSeconds_64(r: ri64) -> (res: Result<ri64, Error>)
    ensures res.is_ok() <==> in_SpanSeconds(r.val as int), res.is_ok() ==> res.unwrap().val == r.val
{ unimplemented!() }
#[verifier::external_body]
pub fn verif_try_rfrom_SpanSeconds_128(r: ri128) -> (res: Result<ri64, Error>)
    ensures res.is_ok() <==> in_SpanSeconds(r.val as int), res.is_ok() ==> res.unwrap().val == r.val
{ unimplemented!() }
#[verifier::external_body]
pub fn verif_try_new_SpanSeconds(v: i64) -> (res: Result<ri64, Error>)
    ensures res.is_ok() <==> in_SpanSeconds(v as int), res.is_ok() ==> res.unwrap().val == v
{ unimplemented!() }
#[verifier::external_body]
pub fn verif_try_new128_SpanSeconds(v: i128) -> (res: Result<ri64, Error>)
    ensures res.is_ok() <==> in_SpanSeconds(v as int), res.is_ok() ==> res.unwrap().val == v
{ unimplemented!() }
// `SpanSeconds::MIN` / `SpanSeconds::MAX` (associated consts of type i128)
pub fn verif_MIN_SpanSeconds() -> (r: i128) ensures r == SpanSeconds_MIN() { -631107417600 }
pub fn verif_MAX_SpanSeconds() -> (r: i128) ensures r == SpanSeconds_MAX() { 631107417600 }
// `x.try_checked_mul("what", rhs)` with x: SpanSeconds -- Ok iff the exact product lies within SpanSeconds::MIN..=MAX
#[verifier::external_body]
pub fn verif_try_checked_mul_SpanSeconds<R: RInto<ri64>>(x: ri64, rhs: R) -> (res: Result<ri64, Error>)
    requires rhs.rinto_req(),
    ensures res.is_ok() <==> in_SpanSeconds(x.val * rhs.rinto_spec().val), res.is_ok() ==> res.unwrap().val == x.val * rhs.rinto_spec().val
{ unimplemented!() }
// `x.try_checked_add/sub("what", rhs)` and `x.checked_add/sub/mul(rhs)` with x: SpanSeconds -- fail iff the exact result leaves SpanSeconds::MIN..=MAX
#[verifier::external_body]
pub fn verif_try_checked_add_SpanSeconds<R: RInto<ri64>>(x: ri64, rhs: R) -> (res: Result<ri64, Error>)
    requires rhs.rinto_req(),
    ensures res.is_ok() <==> in_SpanSeconds(x.val + rhs.rinto_spec().val), res.is_ok() ==> res.unwrap().val == x.val + rhs.rinto_spec().val
{ unimplemented!() }
#[verifier::external_body]
pub fn verif_try_checked_sub_SpanSeconds<R: RInto<ri64>>(x: ri64, rhs: R) -> (res: Result<ri64, Error>)
    requires rhs.rinto_req(),
    ensures res.is_ok() <==> in_SpanSeconds(x.val - rhs.rinto_spec().val), res.is_ok() ==> res.unwrap().val == x.val - rhs.rinto_spec().val
{ unimplemented!() }
#[verifier::external_body]
pub fn verif_checked_add_SpanSeconds<R: RInto<ri64>>(x: ri64, rhs: R) -> (res: Option<ri64>)
    requires rhs.rinto_req(),
    ensures res.is_some() <==> in_SpanSeconds(x.val + rhs.rinto_spec().val), res.is_some() ==> res.unwrap().val == x.val + rhs.rinto_spec().val
{ unimplemented!() }
#[verifier::external_body]
pub fn verif_checked_sub_SpanSeconds<R: RInto<ri64>>(x: ri64, rhs: R) -> (res: Option<ri64>)
    requires rhs.rinto_req(),
    ensures res.is_some() <==> in_SpanSeconds(x.val - rhs.rinto_spec().val), res.is_some() ==> res.unwrap().val == x.val - rhs.rinto_spec().val
{ unimplemented!() }
#[verifier::external_body]
pub fn verif_checked_mul_SpanSeconds<R: RInto<ri64>>(x: ri64, rhs: R) -> (res: Option<ri64>)
    requires rhs.rinto_req(),
    ensures res.is_some() <==> in_SpanSeconds(x.val * rhs.rinto_spec().val), res.is_some() ==> res.unwrap().val == x.val * rhs.rinto_spec().val
{ unimplemented!() }
pub type SpanMilliseconds = ri64;
pub open spec fn SpanMilliseconds_MIN() -> int { -631107417600000 }
pub open spec fn SpanMilliseconds_MAX() -> int { 631107417600000 }
pub open spec fn in_SpanMilliseconds(v: int) -> bool { -631107417600000 <= v <= 631107417600000 }
#[verifier::external_body]
pub fn verif_try_rfrom_SpanMilliseconds_8(r: ri8) -> (res: Result<ri64, Error>)
    ensures res.is_ok() <==> in_SpanMilliseconds(r.val as int), res.is_ok() ==> res.unwrap().val == r.val
{ unimplemented!() }
#[verifier::external_body]
pub fn verif_try_rfrom_SpanMilliseconds_16(r: ri16) -> (res: Result<ri64, Error>)
    ensures res.is_ok() <==> in_SpanMilliseconds(r.val as int), res.is_ok() ==> res.unwrap().val == r.val
{ unimplemented!() }
#[verifier::external_body]
pub fn verif_try_rfrom_SpanMilliseconds_32(r: ri32) -> (res: Result<ri64, Error>)
    ensures res.is_ok() <==> in_SpanMilliseconds(r.val as int), res.is_ok() ==> res.unwrap().val == r.val
{ unimplemented!() }
#[verifier::external_body]
pub fn verif_try_rfrom_SpanMilliseconds_64(r: ri64) -> (res: Result<ri64, Error>)
    ensures res.is_ok() <==> in_SpanMilliseconds(r.val as int), res.is_ok() ==> res.unwrap().val == r.val
{ unimplemented!() }
#[verifier::external_body]
pub fn verif_try_rfrom_SpanMilliseconds_128(r: ri128) -> (res: Result<ri64, Error>)
    ensures res.is_ok() <==> in_SpanMilliseconds(r.val as int), res.is_ok() ==> res.unwrap().val == r.val
{ unimplemented!() }
#[verifier::external_body]
pub fn verif_try_new_SpanMilliseconds(v: i64) -> (res: Result<ri64, Error>)
    ensures res.is_ok() <==> in_SpanMilliseconds(v as int), res.is_ok() ==> res.unwrap().val == v
{ unimplemented!() }
#[verifier::external_body]
pub fn verif_try_new128_SpanMilliseconds(v: i128) -> (res: Result<ri64, Error>)
    ensures res.is_ok() <==> in_SpanMilliseconds(v as int), res.is_ok() ==> res.unwrap().val == v
{ unimplemented!() }
// `SpanMilliseconds::MIN` / `SpanMilliseconds::MAX` (associated consts of type i128)
pub fn verif_MIN_SpanMilliseconds() -> (r: i128) ensures r == SpanMilliseconds_MIN() { -631107417600000 }
pub fn verif_MAX_SpanMilliseconds() -> (r: i128) ensures r == SpanMilliseconds_MAX() { 631107417600000 }
// `x.try_checked_mul("what", rhs)` with x: SpanMilliseconds -- Ok iff the exact product lies within SpanMilliseconds::MIN..=MAX
#[verifier::external_body]
pub fn verif_try_checked_mul_SpanMilliseconds<R: RInto<ri64>>(x: ri64, rhs: R) -> (res: Result<ri64, Error>)
    requires rhs.rinto_req(),
    ensures res.is_ok() <==> in_SpanMilliseconds(x.val * rhs.rinto_spec().val), res.is_ok() ==> res.unwrap().val == x.val * rhs.rinto_spec().val
{ unimplemented!() }
// `x.try_checked_add/sub("what", rhs)` and `x.checked_add/sub/mul(rhs)` with x: SpanMilliseconds -- fail iff the exact result leaves SpanMilliseconds::MIN..=MAX
#[verifier::external_body]
pub fn verif_try_checked_add_SpanMilliseconds<R: RInto<ri64>>(x: ri64, rhs: R) -> (res: Result<ri64, Error>)
    requires rhs.rinto_req(),
    ensures res.is_ok() <==> in_SpanMilliseconds(x.val + rhs.rinto_spec().val), res.is_ok() ==> res.unwrap().val == x.val + rhs.rinto_spec().val
{ unimplemented!() }
#[verifier::external_body]
pub fn verif_try_checked_sub_SpanMilliseconds<R: RInto<ri64>>(x: ri64, rhs: R) -> (res: Result<ri64, Error>)
    requires rhs.rinto_req(),
    ensures res.is_ok() <==> in_SpanMilliseconds(x.val - rhs.rinto_spec().val), res.is_ok() ==> res.unwrap().val == x.val - rhs.rinto_spec().val
{ unimplemented!() }
#[verifier::external_body]
pub fn verif_checked_add_SpanMilliseconds<R: RInto<ri64>>(x: ri64, rhs: R) -> (res: Option<ri64>)
    requires rhs.rinto_req(),
    ensures res.is_some() <==> in_SpanMilliseconds(x.val + rhs.rinto_spec().val), res.is_some() ==> res.unwrap().val == x.val + rhs.rinto_spec().val
{ unimplemented!() }
#[verifier::external_body]
pub fn verif_checked_sub_SpanMilliseconds<R: RInto<ri64>>(x: ri64, rhs: R) -> (res: Option<ri64>)
    requires rhs.rinto_req(),
    ensures res.is_some() <==> in_SpanMilliseconds(x.val - rhs.rinto_spec().val), res.is_some() ==> res.unwrap().val == x.val - rhs.rinto_spec().val
{ unimplemented!() }
#[verifier::external_body]
pub fn verif_checked_mul_SpanMilliseconds<R: RInto<ri64>>(x: ri64, rhs: R) -> (res: Option<ri64>)
    requires rhs.rinto_req(),
    ensures res.is_some() <==> in_SpanMilliseconds(x.val * rhs.rinto_spec().val), res.is_some() ==> res.unwrap().val == x.val * rhs.rinto_spec().val
{ unimplemented!() }
pub type SpanMicroseconds = ri64;
pub open spec fn SpanMicroseconds_MIN() -> int { -631107417600000000 }
pub open spec fn SpanMicroseconds_MAX() -> int { 631107417600000000 }
pub open spec fn in_SpanMicroseconds(v: int) -> bool { -631107417600000000 <= v <= 631107417600000000 }
#[verifier::external_body]
pub fn verif_try_rfrom_SpanMicroseconds_8(r: ri8) -> (res: Result<ri64, Error>)
    ensures res.is_ok() <==> in_SpanMicroseconds(r.val as int), res.is_ok() ==> res.unwrap().val == r.val
{ unimplemented!() }
#[verifier::external_body]
pub fn verif_try_rfrom_SpanMicroseconds_16(r: ri16) -> (res: Result<ri64, Error>)
    ensures res.is_ok() <==> in_SpanMicroseconds(r.val as int), res.is_ok() ==> res.unwrap().val == r.val
{ unimplemented!() }
#[verifier::external_body]
pub fn verif_try_rfrom_SpanMicroseconds_32(r: ri32) -> (res: Result<ri64, Error>)
    ensures res.is_ok() <==> in_SpanMicroseconds(r.val as int), res.is_ok() ==> res.unwrap().val == r.val
{ unimplemented!() }
#[verifier::external_body]
pub fn verif_try_rfrom_SpanMicroseconds_64(r: ri64) -> (res: Result<ri64, Error>)
    ensures res.is_ok() <==> in_SpanMicroseconds(r.val as int), res.is_ok() ==> res.unwrap().val == r.val
{ unimplemented!() }
#[verifier::external_body]
pub fn verif_try_rfrom_SpanMicroseconds_128(r: ri128) -> (res: Result<ri64, Error>)
    ensures res.is_ok() <==> in_SpanMicroseconds(r.val as int), res.is_ok() ==> res.unwrap().val == r.val
{ unimplemented!() }
#[verifier::external_body]
pub fn verif_try_new_SpanMicroseconds(v: i64) -> (res: Result<ri64, Error>)
    ensures res.is_ok() <==> in_SpanMicroseconds(v as int), res.is_ok() ==> res.unwrap().val == v
{ unimplemented!() }
#[verifier::external_body]
pub fn verif_try_new128_SpanMicroseconds(v: i128) -> (res: Result<ri64, Error>)
    ensures res.is_ok() <==> in_SpanMicroseconds(v as int), res.is_ok() ==> res.unwrap().val == v
{ unimplemented!() }
// `SpanMicroseconds::MIN` / `SpanMicroseconds::MAX` (associated consts of type i128)
pub fn verif_MIN_SpanMicroseconds() -> (r: i128) ensures r == SpanMicroseconds_MIN() { -631107417600000000 }
pub fn verif_MAX_SpanMicroseconds() -> (r: i128) ensures r == SpanMicroseconds_MAX() { 631107417600000000 }
// `x.try_checked_mul("what", rhs)` with x: SpanMicroseconds -- Ok iff the exact product lies within SpanMicroseconds::MIN..=MAX
#[verifier::external_body]
pub fn verif_try_checked_mul_SpanMicroseconds<R: RInto<ri64>>(x: ri64, rhs: R) -> (res: Result<ri64, Error>)
    requires rhs.rinto_req(),
    ensures res.is_ok() <==> in_SpanMicroseconds(x.val * rhs.rinto_spec().val), res.is_ok() ==> res.unwrap().val == x.val * rhs.rinto_spec().val
{ unimplemented!() }
// `x.try_checked_add/sub("what", rhs)` and `x.checked_add/sub/mul(rhs)` with x: SpanMicroseconds -- fail iff the exact result leaves SpanMicroseconds::MIN..=MAX
#[verifier::external_body]
pub fn verif_try_checked_add_SpanMicroseconds<R: RInto<ri64>>(x: ri64, rhs: R) -> (res: Result<ri64, Error>)
    requires rhs.rinto_req(),
    ensures res.is_ok() <==> in_SpanMicroseconds(x.val + rhs.rinto_spec().val), res.is_ok() ==> res.unwrap().val == x.val + rhs.rinto_spec().val
{ unimplemented!() }
#[verifier::external_body]
pub fn verif_try_checked_sub_SpanMicroseconds<R: RInto<ri64>>(x: ri64, rhs: R) -> (res: Result<ri64, Error>)
    requires rhs.rinto_req(),
    ensures res.is_ok() <==> in_SpanMicroseconds(x.val - rhs.rinto_spec().val), res.is_ok() ==> res.unwrap().val == x.val - rhs.rinto_spec().val
{ unimplemented!() }
#[verifier::external_body]
pub fn verif_checked_add_SpanMicroseconds<R: RInto<ri64>>(x: ri64, rhs: R) -> (res: Option<ri64>)
    requires rhs.rinto_req(),
    ensures res.is_some() <==> in_SpanMicroseconds(x.val + rhs.rinto_spec().val), res.is_some() ==> res.unwrap().val == x.val + rhs.rinto_spec().val
{ unimplemented!() }
#[verifier::external_body]
pub fn verif_checked_sub_SpanMicroseconds<R: RInto<ri64>>(x: ri64, rhs: R) -> (res: Option<ri64>)
    requires rhs.rinto_req(),
    ensures res.is_some() <==> in_SpanMicroseconds(x.val - rhs.rinto_spec().val), res.is_some() ==> res.unwrap().val == x.val - rhs.rinto_spec().val
{ unimplemented!() }
#[verifier::external_body]
pub fn verif_checked_mul_SpanMicroseconds<R: RInto<ri64>>(x: ri64, rhs: R) -> (res: Option<ri64>)
    requires rhs.rinto_req(),
    ensures res.is_some() <==> in_SpanMicroseconds(x.val * rhs.rinto_spec().val), res.is_some() ==> res.unwrap().val == x.val * rhs.rinto_spec().val
{ unimplemented!() }
pub type SpanNanoseconds = ri64;
pub open spec fn SpanNanoseconds_MIN() -> int { -9223372036854775807 }
pub open spec fn SpanNanoseconds_MAX() -> int { 9223372036854775807 }
pub open spec fn in_SpanNanoseconds(v: int) -> bool { -9223372036854775807 <= v <= 9223372036854775807 }
#[verifier::external_body]
pub fn verif_try_rfrom_SpanNanoseconds_8(r: ri8) -> (res: Result<ri64, Error>)
    ensures res.is_ok() <==> in_SpanNanoseconds(r.val as int), res.is_ok() ==> res.unwrap().val == r.val
{ unimplemented!() }
#[verifier::external_body]
pub fn verif_try_rfrom_SpanNanoseconds_16(r: ri16) -> (res: Result<ri64, Error>)
    ensures res.is_ok() <==> in_SpanNanoseconds(r.val as int), res.is_ok() ==> res.unwrap().val == r.val
{ unimplemented!() }
#[verifier::external_body]
pub fn verif_try_rfrom_SpanNanoseconds_32(r: ri32) -> (res: Result<ri64, Error>)
    ensures res.is_ok() <==> in_SpanNanoseconds(r.val as int), res.is_ok() ==> res.unwrap().val == r.val
{ unimplemented!() }
#[verifier::external_body]
pub fn verif_try_rfrom_SpanNanoseconds_64(r: ri64) -> (res: Result<ri64, Error>)
    ensures res.is_ok() <==> in_SpanNanoseconds(r.val as int), res.is_ok() ==> res.unwrap().val == r.val
{ unimplemented!() }
#[verifier::external_body]
pub fn verif_try_rfrom_SpanNanoseconds_128(r: ri128) -> (res: Result<ri64, Error>)
    ensures res.is_ok() <==> in_SpanNanoseconds(r.val as int), res.is_ok() ==> res.unwrap().val == r.val
{ unimplemented!() }
#[verifier::external_body]
pub fn verif_try_new_SpanNanoseconds(v: i64) -> (res: Result<ri64, Error>)
    ensures res.is_ok() <==> in_SpanNanoseconds(v as int), res.is_ok() ==> res.unwrap().val == v
{ unimplemented!() }
#[verifier::external_body]
pub fn verif_try_new128_SpanNanoseconds(v: i128) -> (res: Result<ri64, Error>)
    ensures res.is_ok() <==> in_SpanNanoseconds(v as int), res.is_ok() ==> res.unwrap().val == v
{ unimplemented!() }
// `SpanNanoseconds::MIN` / `SpanNanoseconds::MAX` (associated consts of type i128)
pub fn verif_MIN_SpanNanoseconds() -> (r: i128) ensures r == SpanNanoseconds_MIN() { -9223372036854775807 }
pub fn verif_MAX_SpanNanoseconds() -> (r: i128) ensures r == SpanNanoseconds_MAX() { 9223372036854775807 }
// `x.try_checked_mul("what", rhs)` with x: SpanNanoseconds -- Ok iff the exact product lies within SpanNanoseconds::MIN..=MAX
#[verifier::external_body]
pub fn verif_try_checked_mul_SpanNanoseconds<R: RInto<ri64>>(x: ri64, rhs: R) -> (res: Result<ri64, Error>)
    requires rhs.rinto_req(),
    ensures res.is_ok() <==> in_SpanNanoseconds(x.val * rhs.rinto_spec().val), res.is_ok() ==> res.unwrap().val == x.val * rhs.rinto_spec().val
{ unimplemented!() }
// `x.try_checked_add/sub("what", rhs)` and `x.checked_add/sub/mul(rhs)` with x: SpanNanoseconds -- fail iff the exact result leaves SpanNanoseconds::MIN..=MAX
#[verifier::external_body]
pub fn verif_try_checked_add_SpanNanoseconds<R: RInto<ri64>>(x: ri64, rhs: R) -> (res: Result<ri64, Error>)
    requires rhs.rinto_req(),
    ensures res.is_ok() <==> in_SpanNanoseconds(x.val + rhs.rinto_spec().val), res.is_ok() ==> res.unwrap().val == x.val + rhs.rinto_spec().val
{ unimplemented!() }
#[verifier::external_body]
pub fn verif_try_checked_sub_SpanNanoseconds<R: RInto<ri64>>(x: ri64, rhs: R) -> (res: Result<ri64, Error>)
    requires rhs.rinto_req(),
    ensures res.is_ok() <==> in_SpanNanoseconds(x.val - rhs.rinto_spec().val), res.is_ok() ==> res.unwrap().val == x.val - rhs.rinto_spec().val
{ unimplemented!() }
#[verifier::external_body]
pub fn verif_checked_add_SpanNanoseconds<R: RInto<ri64>>(x: ri64, rhs: R) -> (res: Option<ri64>)
    requires rhs.rinto_req(),
    ensures res.is_some() <==> in_SpanNanoseconds(x.val + rhs.rinto_spec().val), res.is_some() ==> res.unwrap().val == x.val + rhs.rinto_spec().val
{ unimplemented!() }
#[verifier::external_body]
pub fn verif_checked_sub_SpanNanoseconds<R: RInto<ri64>>(x: ri64, rhs: R) -> (res: Option<ri64>)
    requires rhs.rinto_req(),
    ensures res.is_some() <==> in_SpanNanoseconds(x.val - rhs.rinto_spec().val), res.is_some() ==> res.unwrap().val == x.val - rhs.rinto_spec().val
{ unimplemented!() }
#[verifier::external_body]
pub fn verif_checked_mul_SpanNanoseconds<R: RInto<ri64>>(x: ri64, rhs: R) -> (res: Option<ri64>)
    requires rhs.rinto_req(),
    ensures res.is_some() <==> in_SpanNanoseconds(x.val * rhs.rinto_spec().val), res.is_some() ==> res.unwrap().val == x.val * rhs.rinto_spec().val
{ unimplemented!() }
pub type SpanZoneOffset = ri32;
pub open spec fn SpanZoneOffset_MIN() -> int { -93599 }
pub open spec fn SpanZoneOffset_MAX() -> int { 93599 }
pub open spec fn in_SpanZoneOffset(v: int) -> bool { -93599 <= v <= 93599 }
#[verifier::external_body]
pub fn verif_try_rfrom_SpanZoneOffset_8(r: ri8) -> (res: Result<ri32, Error>)
    ensures res.is_ok() <==> in_SpanZoneOffset(r.val as int), res.is_ok() ==> res.unwrap().val == r.val
{ unimplemented!() }
#[verifier::external_body]
pub fn verif_try_rfrom_SpanZoneOffset_16(r: ri16) -> (res: Result<ri32, Error>)
    ensures res.is_ok() <==> in_SpanZoneOffset(r.val as int), res.is_ok() ==> res.unwrap().val == r.val
{ unimplemented!() }
#[verifier::external_body]
pub fn verif_try_rfrom_SpanZoneOffset_32(r: ri32) -> (res: Result<ri32, Error>)
    ensures res.is_ok() <==> in_SpanZoneOffset(r.val as int), res.is_ok() ==> res.unwrap().val == r.val
{ unimplemented!() }
#[verifier::external_body]
pub fn verif_try_rfrom_SpanZoneOffset_64(r: ri64) -> (res: Result<ri32, Error>)
    ensures res.is_ok() <==> in_SpanZoneOffset(r.val as int), res.is_ok() ==> res.unwrap().val == r.val
{ unimplemented!() }
#[verifier::external_body]
pub fn verif_try_rfrom_SpanZoneOffset_128(r: ri128) -> (res: Result<ri32, Error>)
    ensures res.is_ok() <==> in_SpanZoneOffset(r.val as int), res.is_ok() ==> res.unwrap().val == r.val
{ unimplemented!() }
#[verifier::external_body]
pub fn verif_try_new_SpanZoneOffset(v: i64) -> (res: Result<ri32, Error>)
    ensures res.is_ok() <==> in_SpanZoneOffset(v as int), res.is_ok() ==> res.unwrap().val == v
{ unimplemented!() }
#[verifier::external_body]
pub fn verif_try_new128_SpanZoneOffset(v: i128) -> (res: Result<ri32, Error>)
    ensures res.is_ok() <==> in_SpanZoneOffset(v as int), res.is_ok() ==> res.unwrap().val == v
{ unimplemented!() }
// `SpanZoneOffset::MIN` / `SpanZoneOffset::MAX` (associated consts of type i128)
pub fn verif_MIN_SpanZoneOffset() -> (r: i128) ensures r == SpanZoneOffset_MIN() { -93599 }
pub fn verif_MAX_SpanZoneOffset() -> (r: i128) ensures r == SpanZoneOffset_MAX() { 93599 }
// `x.try_checked_mul("what", rhs)` with x: SpanZoneOffset -- Ok iff the exact product lies within SpanZoneOffset::MIN..=MAX
#[verifier::external_body]
pub fn verif_try_checked_mul_SpanZoneOffset<R: RInto<ri32>>(x: ri32, rhs: R) -> (res: Result<ri32, Error>)
    requires rhs.rinto_req(),
    ensures res.is_ok() <==> in_SpanZoneOffset(x.val * rhs.rinto_spec().val), res.is_ok() ==> res.unwrap().val == x.val * rhs.rinto_spec().val
{ unimplemented!() }
// `x.try_checked_add/sub("what", rhs)` and `x.checked_add/sub/mul(rhs)` with x: SpanZoneOffset -- fail iff the exact result leaves SpanZoneOffset::MIN..=MAX
#[verifier::external_body]
pub fn verif_try_checked_add_SpanZoneOffset<R: RInto<ri32>>(x: ri32, rhs: R) -> (res: Result<ri32, Error>)
    requires rhs.rinto_req(),
    ensures res.is_ok() <==> in_SpanZoneOffset(x.val + rhs.rinto_spec().val), res.is_ok() ==> res.unwrap().val == x.val + rhs.rinto_spec().val
{ unimplemented!() }
#[verifier::external_body]
pub fn verif_try_checked_sub_SpanZoneOffset<R: RInto<ri32>>(x: ri32, rhs: R) -> (res: Result<ri32, Error>)
    requires rhs.rinto_req(),
    ensures res.is_ok() <==> in_SpanZoneOffset(x.val - rhs.rinto_spec().val), res.is_ok() ==> res.unwrap().val == x.val - rhs.rinto_spec().val
{ unimplemented!() }
#[verifier::external_body]
pub fn verif_checked_add_SpanZoneOffset<R: RInto<ri32>>(x: ri32, rhs: R) -> (res: Option<ri32>)
    requires rhs.rinto_req(),
    ensures res.is_some() <==> in_SpanZoneOffset(x.val + rhs.rinto_spec().val), res.is_some() ==> res.unwrap().val == x.val + rhs.rinto_spec().val
{ unimplemented!() }
#[verifier::external_body]
pub fn verif_checked_sub_SpanZoneOffset<R: RInto<ri32>>(x: ri32, rhs: R) -> (res: Option<ri32>)
    requires rhs.rinto_req(),
    ensures res.is_some() <==> in_SpanZoneOffset(x.val - rhs.rinto_spec().val), res.is_some() ==> res.unwrap().val == x.val - rhs.rinto_spec().val
{ unimplemented!() }
#[verifier::external_body]
pub fn verif_checked_mul_SpanZoneOffset<R: RInto<ri32>>(x: ri32, rhs: R) -> (res: Option<ri32>)
    requires rhs.rinto_req(),
    ensures res.is_some() <==> in_SpanZoneOffset(x.val * rhs.rinto_spec().val), res.is_some() ==> res.unwrap().val == x.val * rhs.rinto_spec().val
{ unimplemented!() }
pub type FractionalNanosecond = ri32;
pub open spec fn FractionalNanosecond_MIN() -> int { -999999999 }
pub open spec fn FractionalNanosecond_MAX() -> int { 999999999 }
pub open spec fn in_FractionalNanosecond(v: int) -> bool { -999999999 <= v <= 999999999 }
#[verifier::external_body]
pub fn verif_try_rfrom_FractionalNanosecond_8(r: ri8) -> (res: Result<ri32, Error>)
    ensures res.is_ok() <==> in_FractionalNanosecond(r.val as int), res.is_ok() ==> res.unwrap().val == r.val
{ unimplemented!() }
#[verifier::external_body]
pub fn verif_try_rfrom_FractionalNanosecond_16(r: ri16) -> (res: Result<ri32, Error>)
    ensures res.is_ok() <==> in_FractionalNanosecond(r.val as int), res.is_ok() ==> res.unwrap().val == r.val
{ unimplemented!() }
#[verifier::external_body]
pub fn verif_try_rfrom_FractionalNanosecond_32(r: ri32) -> (res: Result<ri32, Error>)
    ensures res.is_ok() <==> in_FractionalNanosecond(r.val as int), res.is_ok() ==> res.unwrap().val == r.val
{ unimplemented!() }
#[verifier::external_body]
pub fn verif_try_rfrom_FractionalNanosecond_64(r: ri64) -> (res: Result<ri32, Error>)
    ensures res.is_ok() <==> in_FractionalNanosecond(r.val as int), res.is_ok() ==> res.unwrap().val == r.val
{ unimplemented!() }
#[verifier::external_body]
pub fn verif_try_rfrom_FractionalNanosecond_128(r: ri128) -> (res: Result<ri32, Error>)
    ensures res.is_ok() <==> in_FractionalNanosecond(r.val as int), res.is_ok() ==> res.unwrap().val == r.val
{ unimplemented!() }
#[verifier::external_body]
pub fn verif_try_new_FractionalNanosecond(v: i64) -> (res: Result<ri32, Error>)
    ensures res.is_ok() <==> in_FractionalNanosecond(v as int), res.is_ok() ==> res.unwrap().val == v
{ unimplemented!() }
#[verifier::external_body]
pub fn verif_try_new128_FractionalNanosecond(v: i128) -> (res: Result<ri32, Error>)
    ensures res.is_ok() <==> in_FractionalNanosecond(v as int), res.is_ok() ==> res.unwrap().val == v
{ unimplemented!() }
// `FractionalNanosecond::MIN` / `FractionalNanosecond::MAX` (associated consts of type i128)
pub fn verif_MIN_FractionalNanosecond() -> (r: i128) ensures r == FractionalNanosecond_MIN() { -999999999 }
pub fn verif_MAX_FractionalNanosecond() -> (r: i128) ensures r == FractionalNanosecond_MAX() { 999999999 }
// `x.try_checked_mul("what", rhs)` with x: FractionalNanosecond -- Ok iff the exact product lies within FractionalNanosecond::MIN..=MAX
#[verifier::external_body]
pub fn verif_try_checked_mul_FractionalNanosecond<R: RInto<ri32>>(x: ri32, rhs: R) -> (res: Result<ri32, Error>)
    requires rhs.rinto_req(),
    ensures res.is_ok() <==> in_FractionalNanosecond(x.val * rhs.rinto_spec().val), res.is_ok() ==> res.unwrap().val == x.val * rhs.rinto_spec().val
{ unimplemented!() }
// `x.try_checked_add/sub("what", rhs)` and `x.checked_add/sub/mul(rhs)` with x: FractionalNanosecond -- fail iff the exact result leaves FractionalNanosecond::MIN..=MAX
#[verifier::external_body]
pub fn verif_try_checked_add_FractionalNanosecond<R: RInto<ri32>>(x: ri32, rhs: R) -> (res: Result<ri32, Error>)
    requires rhs.rinto_req(),
    ensures res.is_ok() <==> in_FractionalNanosecond(x.val + rhs.rinto_spec().val), res.is_ok() ==> res.unwrap().val == x.val + rhs.rinto_spec().val
{ unimplemented!() }
#[verifier::external_body]
pub fn verif_try_checked_sub_FractionalNanosecond<R: RInto<ri32>>(x: ri32, rhs: R) -> (res: Result<ri32, Error>)
    requires rhs.rinto_req(),
    ensures res.is_ok() <==> in_FractionalNanosecond(x.val - rhs.rinto_spec().val), res.is_ok() ==> res.unwrap().val == x.val - rhs.rinto_spec().val
{ unimplemented!() }
#[verifier::external_body]
pub fn verif_checked_add_FractionalNanosecond<R: RInto<ri32>>(x: ri32, rhs: R) -> (res: Option<ri32>)
    requires rhs.rinto_req(),
    ensures res.is_some() <==> in_FractionalNanosecond(x.val + rhs.rinto_spec().val), res.is_some() ==> res.unwrap().val == x.val + rhs.rinto_spec().val
{ unimplemented!() }
#[verifier::external_body]
pub fn verif_checked_sub_FractionalNanosecond<R: RInto<ri32>>(x: ri32, rhs: R) -> (res: Option<ri32>)
    requires rhs.rinto_req(),
    ensures res.is_some() <==> in_FractionalNanosecond(x.val - rhs.rinto_spec().val), res.is_some() ==> res.unwrap().val == x.val - rhs.rinto_spec().val
{ unimplemented!() }
#[verifier::external_body]
pub fn verif_checked_mul_FractionalNanosecond<R: RInto<ri32>>(x: ri32, rhs: R) -> (res: Option<ri32>)
    requires rhs.rinto_req(),
    ensures res.is_some() <==> in_FractionalNanosecond(x.val * rhs.rinto_spec().val), res.is_some() ==> res.unwrap().val == x.val * rhs.rinto_spec().val
{ unimplemented!() }
pub type ZonedDayNanoseconds = ri64;
pub open spec fn ZonedDayNanoseconds_MIN() -> int { 1000000000 }
pub open spec fn ZonedDayNanoseconds_MAX() -> int { 604800000000000 }
pub open spec fn in_ZonedDayNanoseconds(v: int) -> bool { 1000000000 <= v <= 604800000000000 }
#[verifier::external_body]
pub fn verif_try_rfrom_ZonedDayNanoseconds_8(r: ri8) -> (res: Result<ri64, Error>)
    ensures res.is_ok() <==> in_ZonedDayNanoseconds(r.val as int), res.is_ok() ==> res.unwrap().val == r.val
{ unimplemented!() }
#[verifier::external_body]
pub fn verif_try_rfrom_ZonedDayNanoseconds_16(r: ri16) -> (res: Result<ri64, Error>)
    ensures res.is_ok() <==> in_ZonedDayNanoseconds(r.val as int), res.is_ok() ==> res.unwrap().val == r.val
{ unimplemented!() }
#[verifier::external_body]
pub fn verif_try_rfrom_ZonedDayNanoseconds_32(r: ri32) -> (res: Result<ri64, Error>)
    ensures res.is_ok() <==> in_ZonedDayNanoseconds(r.val as int), res.is_ok() ==> res.unwrap().val == r.val
{ unimplemented!() }
#[verifier::external_body]
pub fn verif_try_rfrom_ZonedDayNanoseconds_64(r: ri64) -> (res: Result<ri64, Error>)
    ensures res.is_ok() <==> in_ZonedDayNanoseconds(r.val as int), res.is_ok() ==> res.unwrap().val == r.val
{ unimplemented!() }
#[verifier::external_body]
pub fn verif_try_rfrom_ZonedDayNanoseconds_128(r: ri128) -> (res: Result<ri64, Error>)
    ensures res.is_ok() <==> in_ZonedDayNanoseconds(r.val as int), res.is_ok() ==> res.unwrap().val == r.val
{ unimplemented!() }
#[verifier::external_body]
pub fn verif_try_new_ZonedDayNanoseconds(v: i64) -> (res: Result<ri64, Error>)
    ensures res.is_ok() <==> in_ZonedDayNanoseconds(v as int), res.is_ok() ==> res.unwrap().val == v
{ unimplemented!() }
#[verifier::external_body]
pub fn verif_try_new128_ZonedDayNanoseconds(v: i128) -> (res: Result<ri64, Error>)
    ensures res.is_ok() <==> in_ZonedDayNanoseconds(v as int), res.is_ok() ==> res.unwrap().val == v
{ unimplemented!() }
// `ZonedDayNanoseconds::MIN` / `ZonedDayNanoseconds::MAX` (associated consts of type i128)
pub fn verif_MIN_ZonedDayNanoseconds() -> (r: i128) ensures r == ZonedDayNanoseconds_MIN() { 1000000000 }
pub fn verif_MAX_ZonedDayNanoseconds() -> (r: i128) ensures r == ZonedDayNanoseconds_MAX() { 604800000000000 }
// `x.try_checked_mul("what", rhs)` with x: ZonedDayNanoseconds -- Ok iff the exact product lies within ZonedDayNanoseconds::MIN..=MAX
#[verifier::external_body]
pub fn verif_try_checked_mul_ZonedDayNanoseconds<R: RInto<ri64>>(x: ri64, rhs: R) -> (res: Result<ri64, Error>)
    requires rhs.rinto_req(),
    ensures res.is_ok() <==> in_ZonedDayNanoseconds(x.val * rhs.rinto_spec().val), res.is_ok() ==> res.unwrap().val == x.val * rhs.rinto_spec().val
{ unimplemented!() }
// `x.try_checked_add/sub("what", rhs)` and `x.checked_add/sub/mul(rhs)` with x: ZonedDayNanoseconds -- fail iff the exact result leaves ZonedDayNanoseconds::MIN..=MAX
#[verifier::external_body]
pub fn verif_try_checked_add_ZonedDayNanoseconds<R: RInto<ri64>>(x: ri64, rhs: R) -> (res: Result<ri64, Error>)
    requires rhs.rinto_req(),
    ensures res.is_ok() <==> in_ZonedDayNanoseconds(x.val + rhs.rinto_spec().val), res.is_ok() ==> res.unwrap().val == x.val + rhs.rinto_spec().val
{ unimplemented!() }
#[verifier::external_body]
pub fn verif_try_checked_sub_ZonedDayNanoseconds<R: RInto<ri64>>(x: ri64, rhs: R) -> (res: Result<ri64, Error>)
    requires rhs.rinto_req(),
    ensures res.is_ok() <==> in_ZonedDayNanoseconds(x.val - rhs.rinto_spec().val), res.is_ok() ==> res.unwrap().val == x.val - rhs.rinto_spec().val
{ unimplemented!() }
#[verifier::external_body]
pub fn verif_checked_add_ZonedDayNanoseconds<R: RInto<ri64>>(x: ri64, rhs: R) -> (res: Option<ri64>)
    requires rhs.rinto_req(),
    ensures res.is_some() <==> in_ZonedDayNanoseconds(x.val + rhs.rinto_spec().val), res.is_some() ==> res.unwrap().val == x.val + rhs.rinto_spec().val
{ unimplemented!() }
#[verifier::external_body]
pub fn verif_checked_sub_ZonedDayNanoseconds<R: RInto<ri64>>(x: ri64, rhs: R) -> (res: Option<ri64>)
    requires rhs.rinto_req(),
    ensures res.is_some() <==> in_ZonedDayNanoseconds(x.val - rhs.rinto_spec().val), res.is_some() ==> res.unwrap().val == x.val - rhs.rinto_spec().val
{ unimplemented!() }
#[verifier::external_body]
pub fn verif_checked_mul_ZonedDayNanoseconds<R: RInto<ri64>>(x: ri64, rhs: R) -> (res: Option<ri64>)
    requires rhs.rinto_req(),
    ensures res.is_some() <==> in_ZonedDayNanoseconds(x.val * rhs.rinto_spec().val), res.is_some() ==> res.unwrap().val == x.val * rhs.rinto_spec().val
{ unimplemented!() }
#[allow(non_camel_case_types)]
pub trait TryRInto_SpanYears: Sized {
    spec fn try_rinto_val(self) -> int;
    fn try_rinto(self, what: &'static str) -> (res: Result<ri16, Error>)
        ensures res.is_ok() <==> in_SpanYears(self.try_rinto_val()), res.is_ok() ==> res.unwrap().val == self.try_rinto_val();
}
impl TryRInto_SpanYears for ri8 {
    open spec fn try_rinto_val(self) -> int { self.val as int }
    fn try_rinto(self, what: &'static str) -> (res: Result<ri16, Error>) { verif_try_rfrom_SpanYears_8(self) }
}
impl TryRInto_SpanYears for ri16 {
    open spec fn try_rinto_val(self) -> int { self.val as int }
    fn try_rinto(self, what: &'static str) -> (res: Result<ri16, Error>) { verif_try_rfrom_SpanYears_16(self) }
}
impl TryRInto_SpanYears for ri32 {
    open spec fn try_rinto_val(self) -> int { self.val as int }
    fn try_rinto(self, what: &'static str) -> (res: Result<ri16, Error>) { verif_try_rfrom_SpanYears_32(self) }
}
impl TryRInto_SpanYears for ri64 {
    open spec fn try_rinto_val(self) -> int { self.val as int }
    fn try_rinto(self, what: &'static str) -> (res: Result<ri16, Error>) { verif_try_rfrom_SpanYears_64(self) }
}
impl TryRInto_SpanYears for ri128 {
    open spec fn try_rinto_val(self) -> int { self.val as int }
    fn try_rinto(self, what: &'static str) -> (res: Result<ri16, Error>) { verif_try_rfrom_SpanYears_128(self) }
}
#[allow(non_camel_case_types)]
pub trait TryRInto_SpanMonths: Sized {
    spec fn try_rinto_val(self) -> int;
    fn try_rinto(self, what: &'static str) -> (res: Result<ri32, Error>)
        ensures res.is_ok() <==> in_SpanMonths(self.try_rinto_val()), res.is_ok() ==> res.unwrap().val == self.try_rinto_val();
}
impl TryRInto_SpanMonths for ri8 {
    open spec fn try_rinto_val(self) -> int { self.val as int }
    fn try_rinto(self, what: &'static str) -> (res: Result<ri32, Error>) { verif_try_rfrom_SpanMonths_8(self) }
}
impl TryRInto_SpanMonths for ri16 {
    open spec fn try_rinto_val(self) -> int { self.val as int }
    fn try_rinto(self, what: &'static str) -> (res: Result<ri32, Error>) { verif_try_rfrom_SpanMonths_16(self) }
}
impl TryRInto_SpanMonths for ri32 {
    open spec fn try_rinto_val(self) -> int { self.val as int }
    fn try_rinto(self, what: &'static str) -> (res: Result<ri32, Error>) { verif_try_rfrom_SpanMonths_32(self) }
}
impl TryRInto_SpanMonths for ri64 {
    open spec fn try_rinto_val(self) -> int { self.val as int }
    fn try_rinto(self, what: &'static str) -> (res: Result<ri32, Error>) { verif_try_rfrom_SpanMonths_64(self) }
}
impl TryRInto_SpanMonths for ri128 {
    open spec fn try_rinto_val(self) -> int { self.val as int }
    fn try_rinto(self, what: &'static str) -> (res: Result<ri32, Error>) { verif_try_rfrom_SpanMonths_128(self) }
}
#[allow(non_camel_case_types)]
pub trait TryRInto_SpanWeeks: Sized {
    spec fn try_rinto_val(self) -> int;
    fn try_rinto(self, what: &'static str) -> (res: Result<ri32, Error>)
        ensures res.is_ok() <==> in_SpanWeeks(self.try_rinto_val()), res.is_ok() ==> res.unwrap().val == self.try_rinto_val();
}
impl TryRInto_SpanWeeks for ri8 {
    open spec fn try_rinto_val(self) -> int { self.val as int }
    fn try_rinto(self, what: &'static str) -> (res: Result<ri32, Error>) { verif_try_rfrom_SpanWeeks_8(self) }
}
impl TryRInto_SpanWeeks for ri16 {
    open spec fn try_rinto_val(self) -> int { self.val as int }
    fn try_rinto(self, what: &'static str) -> (res: Result<ri32, Error>) { verif_try_rfrom_SpanWeeks_16(self) }
}
impl TryRInto_SpanWeeks for ri32 {
    open spec fn try_rinto_val(self) -> int { self.val as int }
    fn try_rinto(self, what: &'static str) -> (res: Result<ri32, Error>) { verif_try_rfrom_SpanWeeks_32(self) }
}
impl TryRInto_SpanWeeks for ri64 {
    open spec fn try_rinto_val(self) -> int { self.val as int }
    fn try_rinto(self, what: &'static str) -> (res: Result<ri32, Error>) { verif_try_rfrom_SpanWeeks_64(self) }
}
impl TryRInto_SpanWeeks for ri128 {
    open spec fn try_rinto_val(self) -> int { self.val as int }
    fn try_rinto(self, what: &'static str) -> (res: Result<ri32, Error>) { verif_try_rfrom_SpanWeeks_128(self) }
}
#[allow(non_camel_case_types)]
pub trait TryRInto_SpanDays: Sized {
    spec fn try_rinto_val(self) -> int;
    fn try_rinto(self, what: &'static str) -> (res: Result<ri32, Error>)
        ensures res.is_ok() <==> in_SpanDays(self.try_rinto_val()), res.is_ok() ==> res.unwrap().val == self.try_rinto_val();
}
impl TryRInto_SpanDays for ri8 {
    open spec fn try_rinto_val(self) -> int { self.val as int }
    fn try_rinto(self, what: &'static str) -> (res: Result<ri32, Error>) { verif_try_rfrom_SpanDays_8(self) }
}
impl TryRInto_SpanDays for ri16 {
    open spec fn try_rinto_val(self) -> int { self.val as int }
    fn try_rinto(self, what: &'static str) -> (res: Result<ri32, Error>) { verif_try_rfrom_SpanDays_16(self) }
}
impl TryRInto_SpanDays for ri32 {
    open spec fn try_rinto_val(self) -> int { self.val as int }
    fn try_rinto(self, what: &'static str) -> (res: Result<ri32, Error>) { verif_try_rfrom_SpanDays_32(self) }
}
impl TryRInto_SpanDays for ri64 {
    open spec fn try_rinto_val(self) -> int { self.val as int }
    fn try_rinto(self, what: &'static str) -> (res: Result<ri32, Error>) { verif_try_rfrom_SpanDays_64(self) }
}
impl TryRInto_SpanDays for ri128 {
    open spec fn try_rinto_val(self) -> int { self.val as int }
    fn try_rinto(self, what: &'static str) -> (res: Result<ri32, Error>) { verif_try_rfrom_SpanDays_128(self) }
}
#[allow(non_camel_case_types)]
pub trait TryRInto_SpanHours: Sized {
    spec fn try_rinto_val(self) -> int;
    fn try_rinto(self, what: &'static str) -> (res: Result<ri32, Error>)
        ensures res.is_ok() <==> in_SpanHours(self.try_rinto_val()), res.is_ok() ==> res.unwrap().val == self.try_rinto_val();
}
impl TryRInto_SpanHours for ri8 {
    open spec fn try_rinto_val(self) -> int { self.val as int }
    fn try_rinto(self, what: &'static str) -> (res: Result<ri32, Error>) { verif_try_rfrom_SpanHours_8(self) }
}
impl TryRInto_SpanHours for ri16 {
    open spec fn try_rinto_val(self) -> int { self.val as int }
    fn try_rinto(self, what: &'static str) -> (res: Result<ri32, Error>) { verif_try_rfrom_SpanHours_16(self) }
}
impl TryRInto_SpanHours for ri32 {
    open spec fn try_rinto_val(self) -> int { self.val as int }
    fn try_rinto(self, what: &'static str) -> (res: Result<ri32, Error>) { verif_try_rfrom_SpanHours_32(self) }
}
impl TryRInto_SpanHours for ri64 {
    open spec fn try_rinto_val(self) -> int { self.val as int }
    fn try_rinto(self, what: &'static str) -> (res: Result<ri32, Error>) { verif_try_rfrom_SpanHours_64(self) }
}
impl TryRInto_SpanHours for ri128 {
    open spec fn try_rinto_val(self) -> int { self.val as int }
    fn try_rinto(self, what: &'static str) -> (res: Result<ri32, Error>) { verif_try_rfrom_SpanHours_128(self) }
}
#[allow(non_camel_case_types)]
pub trait TryRInto_SpanMinutes: Sized {
    spec fn try_rinto_val(self) -> int;
    fn try_rinto(self, what: &'static str) -> (res: Result<ri64, Error>)
        ensures res.is_ok() <==> in_SpanMinutes(self.try_rinto_val()), res.is_ok() ==> res.unwrap().val == self.try_rinto_val();
}
impl TryRInto_SpanMinutes for ri8 {
    open spec fn try_rinto_val(self) -> int { self.val as int }
    fn try_rinto(self, what: &'static str) -> (res: Result<ri64, Error>) { verif_try_rfrom_SpanMinutes_8(self) }
}
impl TryRInto_SpanMinutes for ri16 {
    open spec fn try_rinto_val(self) -> int { self.val as int }
    fn try_rinto(self, what: &'static str) -> (res: Result<ri64, Error>) { verif_try_rfrom_SpanMinutes_16(self) }
}
impl TryRInto_SpanMinutes for ri32 {
    open spec fn try_rinto_val(self) -> int { self.val as int }
    fn try_rinto(self, what: &'static str) -> (res: Result<ri64, Error>) { verif_try_rfrom_SpanMinutes_32(self) }
}
impl TryRInto_SpanMinutes for ri64 {
    open spec fn try_rinto_val(self) -> int { self.val as int }
    fn try_rinto(self, what: &'static str) -> (res: Result<ri64, Error>) { verif_try_rfrom_SpanMinutes_64(self) }
}
impl TryRInto_SpanMinutes for ri128 {
    open spec fn try_rinto_val(self) -> int { self.val as int }
    fn try_rinto(self, what: &'static str) -> (res: Result<ri64, Error>) { verif_try_rfrom_SpanMinutes_128(self) }
}
#[allow(non_camel_case_types)]
pub trait TryRInto_SpanSeconds: Sized {
    spec fn try_rinto_val(self) -> int;
    fn try_rinto(self, what: &'static str) -> (res: Result<ri64, Error>)
        ensures res.is_ok() <==> in_SpanSeconds(self.try_rinto_val()), res.is_ok() ==> res.unwrap().val == self.try_rinto_val();
}
impl TryRInto_SpanSeconds for ri8 {
    open spec fn try_rinto_val(self) -> int { self.val as int }
    fn try_rinto(self, what: &'static str) -> (res: Result<ri64, Error>) { verif_try_rfrom_SpanSeconds_8(self) }
}
impl TryRInto_SpanSeconds for ri16 {
    open spec fn try_rinto_val(self) -> int { self.val as int }
    fn try_rinto(self, what: &'static str) -> (res: Result<ri64, Error>) { verif_try_rfrom_SpanSeconds_16(self) }
}
impl TryRInto_SpanSeconds for ri32 {
    open spec fn try_rinto_val(self) -> int { self.val as int }
    fn try_rinto(self, what: &'static str) -> (res: Result<ri64, Error>) { verif_try_rfrom_SpanSeconds_32(self) }
}
impl TryRInto_SpanSeconds for ri64 {
    open spec fn try_rinto_val(self) -> int { self.val as int }
    fn try_rinto(self, what: &'static str) -> (res: Result<ri64, Error>) { verif_try_rfrom_SpanSeconds_64(self) }
}
impl TryRInto_SpanSeconds for ri128 {
    open spec fn try_rinto_val(self) -> int { self.val as int }
    fn try_rinto(self, what: &'static str) -> (res: Result<ri64, Error>) { verif_try_rfrom_SpanSeconds_128(self) }
}
#[allow(non_camel_case_types)]
pub trait TryRInto_SpanMilliseconds: Sized {
    spec fn try_rinto_val(self) -> int;
    fn try_rinto(self, what: &'static str) -> (res: Result<ri64, Error>)
        ensures res.is_ok() <==> in_SpanMilliseconds(self.try_rinto_val()), res.is_ok() ==> res.unwrap().val == self.try_rinto_val();
}
impl TryRInto_SpanMilliseconds for ri8 {
    open spec fn try_rinto_val(self) -> int { self.val as int }
    fn try_rinto(self, what: &'static str) -> (res: Result<ri64, Error>) { verif_try_rfrom_SpanMilliseconds_8(self) }
}
impl TryRInto_SpanMilliseconds for ri16 {
    open spec fn try_rinto_val(self) -> int { self.val as int }
    fn try_rinto(self, what: &'static str) -> (res: Result<ri64, Error>) { verif_try_rfrom_SpanMilliseconds_16(self) }
}
impl TryRInto_SpanMilliseconds for ri32 {
    open spec fn try_rinto_val(self) -> int { self.val as int }
    fn try_rinto(self, what: &'static str) -> (res: Result<ri64, Error>) { verif_try_rfrom_SpanMilliseconds_32(self) }
}
impl TryRInto_SpanMilliseconds for ri64 {
    open spec fn try_rinto_val(self) -> int { self.val as int }
    fn try_rinto(self, what: &'static str) -> (res: Result<ri64, Error>) { verif_try_rfrom_SpanMilliseconds_64(self) }
}
impl TryRInto_SpanMilliseconds for ri128 {
    open spec fn try_rinto_val(self) -> int { self.val as int }
    fn try_rinto(self, what: &'static str) -> (res: Result<ri64, Error>) { verif_try_rfrom_SpanMilliseconds_128(self) }
}
#[allow(non_camel_case_types)]
pub trait TryRInto_SpanMicroseconds: Sized {
    spec fn try_rinto_val(self) -> int;
    fn try_rinto(self, what: &'static str) -> (res: Result<ri64, Error>)
        ensures res.is_ok() <==> in_SpanMicroseconds(self.try_rinto_val()), res.is_ok() ==> res.unwrap().val == self.try_rinto_val();
}
impl TryRInto_SpanMicroseconds for ri8 {
    open spec fn try_rinto_val(self) -> int { self.val as int }
    fn try_rinto(self, what: &'static str) -> (res: Result<ri64, Error>) { verif_try_rfrom_SpanMicroseconds_8(self) }
}
impl TryRInto_SpanMicroseconds for ri16 {
    open spec fn try_rinto_val(self) -> int { self.val as int }
    fn try_rinto(self, what: &'static str) -> (res: Result<ri64, Error>) { verif_try_rfrom_SpanMicroseconds_16(self) }
}
impl TryRInto_SpanMicroseconds for ri32 {
    open spec fn try_rinto_val(self) -> int { self.val as int }
    fn try_rinto(self, what: &'static str) -> (res: Result<ri64, Error>) { verif_try_rfrom_SpanMicroseconds_32(self) }
}
impl TryRInto_SpanMicroseconds for ri64 {
    open spec fn try_rinto_val(self) -> int { self.val as int }
    fn try_rinto(self, what: &'static str) -> (res: Result<ri64, Error>) { verif_try_rfrom_SpanMicroseconds_64(self) }
}
impl TryRInto_SpanMicroseconds for ri128 {
    open spec fn try_rinto_val(self) -> int { self.val as int }
    fn try_rinto(self, what: &'static str) -> (res: Result<ri64, Error>) { verif_try_rfrom_SpanMicroseconds_128(self) }
}
#[allow(non_camel_case_types)]
pub trait TryRInto_SpanNanoseconds: Sized {
    spec fn try_rinto_val(self) -> int;
    fn try_rinto(self, what: &'static str) -> (res: Result<ri64, Error>)
        ensures res.is_ok() <==> in_SpanNanoseconds(self.try_rinto_val()), res.is_ok() ==> res.unwrap().val == self.try_rinto_val();
}
impl TryRInto_SpanNanoseconds for ri8 {
    open spec fn try_rinto_val(self) -> int { self.val as int }
    fn try_rinto(self, what: &'static str) -> (res: Result<ri64, Error>) { verif_try_rfrom_SpanNanoseconds_8(self) }
}
impl TryRInto_SpanNanoseconds for ri16 {
    open spec fn try_rinto_val(self) -> int { self.val as int }
    fn try_rinto(self, what: &'static str) -> (res: Result<ri64, Error>) { verif_try_rfrom_SpanNanoseconds_16(self) }
}
impl TryRInto_SpanNanoseconds for ri32 {
    open spec fn try_rinto_val(self) -> int { self.val as int }
    fn try_rinto(self, what: &'static str) -> (res: Result<ri64, Error>) { verif_try_rfrom_SpanNanoseconds_32(self) }
}
impl TryRInto_SpanNanoseconds for ri64 {
    open spec fn try_rinto_val(self) -> int { self.val as int }
    fn try_rinto(self, what: &'static str) -> (res: Result<ri64, Error>) { verif_try_rfrom_SpanNanoseconds_64(self) }
}
impl TryRInto_SpanNanoseconds for ri128 {
    open spec fn try_rinto_val(self) -> int { self.val as int }
    fn try_rinto(self, what: &'static str) -> (res: Result<ri64, Error>) { verif_try_rfrom_SpanNanoseconds_128(self) }
}
#[allow(non_camel_case_types)]
pub trait TryRInto_SpanZoneOffset: Sized {
    spec fn try_rinto_val(self) -> int;
    fn try_rinto(self, what: &'static str) -> (res: Result<ri32, Error>)
        ensures res.is_ok() <==> in_SpanZoneOffset(self.try_rinto_val()), res.is_ok() ==> res.unwrap().val == self.try_rinto_val();
}
impl TryRInto_SpanZoneOffset for ri8 {
    open spec fn try_rinto_val(self) -> int { self.val as int }
    fn try_rinto(self, what: &'static str) -> (res: Result<ri32, Error>) { verif_try_rfrom_SpanZoneOffset_8(self) }
}
impl TryRInto_SpanZoneOffset for ri16 {
    open spec fn try_rinto_val(self) -> int { self.val as int }
    fn try_rinto(self, what: &'static str) -> (res: Result<ri32, Error>) { verif_try_rfrom_SpanZoneOffset_16(self) }
}
impl TryRInto_SpanZoneOffset for ri32 {
    open spec fn try_rinto_val(self) -> int { self.val as int }
    fn try_rinto(self, what: &'static str) -> (res: Result<ri32, Error>) { verif_try_rfrom_SpanZoneOffset_32(self) }
}
impl TryRInto_SpanZoneOffset for ri64 {
    open spec fn try_rinto_val(self) -> int { self.val as int }
    fn try_rinto(self, what: &'static str) -> (res: Result<ri32, Error>) { verif_try_rfrom_SpanZoneOffset_64(self) }
}
impl TryRInto_SpanZoneOffset for ri128 {
    open spec fn try_rinto_val(self) -> int { self.val as int }
    fn try_rinto(self, what: &'static str) -> (res: Result<ri32, Error>) { verif_try_rfrom_SpanZoneOffset_128(self) }
}

// ---- std integer methods without a vstd spec (trusted; documented std behaviour) ----
// (std spec moved to lib/stdspecs.vrs: i64::signum)

// ---- C12 specification ------------------------------------------------------------------------------------------
/// discriminant of a unit = its bit in UnitSet = its rank in the derived order
pub open spec fn unit_rank(u: Unit) -> int {
    match u { Unit::Year => 9, Unit::Month => 8, Unit::Week => 7, Unit::Day => 6, Unit::Hour => 5, Unit::Minute => 4,
              Unit::Second => 3, Unit::Millisecond => 2, Unit::Microsecond => 1, Unit::Nanosecond => 0 }
}
/// the abstract value of a span: one signed integer per unit
pub struct SV { pub y: int, pub mo: int, pub w: int, pub d: int, pub h: int, pub mi: int, pub s: int, pub ms: int, pub us: int, pub ns: int }
pub open spec fn iabs(a: int) -> int { if a < 0 { -a } else { a } }
pub open spec fn isgn(a: int) -> int { if a < 0 { -1 } else if a > 0 { 1 } else { 0 } }
/// s * m for a sign s in {-1, 0, 1}
pub open spec fn smul(s: int, m: int) -> int { if s > 0 { m } else if s < 0 { -m } else { 0 } }
pub open spec fn sv_zero() -> SV { SV { y: 0, mo: 0, w: 0, d: 0, h: 0, mi: 0, s: 0, ms: 0, us: 0, ns: 0 } }
pub open spec fn sv_get(a: SV, j: int) -> int {
    if j == 9 { a.y } else if j == 8 { a.mo } else if j == 7 { a.w } else if j == 6 { a.d } else if j == 5 { a.h } else if j == 4 { a.mi }
    else if j == 3 { a.s } else if j == 2 { a.ms } else if j == 1 { a.us } else if j == 0 { a.ns } else { 0 }
}
pub open spec fn sv_put(a: SV, j: int, x: int) -> SV {
    SV { y: if j == 9 { x } else { a.y }, mo: if j == 8 { x } else { a.mo }, w: if j == 7 { x } else { a.w }, d: if j == 6 { x } else { a.d },
         h: if j == 5 { x } else { a.h }, mi: if j == 4 { x } else { a.mi }, s: if j == 3 { x } else { a.s }, ms: if j == 2 { x } else { a.ms },
         us: if j == 1 { x } else { a.us }, ns: if j == 0 { x } else { a.ns } }
}
pub open spec fn sv_abs(a: SV) -> SV {
    SV { y: iabs(a.y), mo: iabs(a.mo), w: iabs(a.w), d: iabs(a.d), h: iabs(a.h), mi: iabs(a.mi), s: iabs(a.s), ms: iabs(a.ms), us: iabs(a.us), ns: iabs(a.ns) }
}
pub open spec fn sv_neg(a: SV) -> SV {
    SV { y: -a.y, mo: -a.mo, w: -a.w, d: -a.d, h: -a.h, mi: -a.mi, s: -a.s, ms: -a.ms, us: -a.us, ns: -a.ns }
}
/// every unit multiplied by k
pub open spec fn sv_scale(a: SV, k: int) -> SV {
    SV { y: a.y * k, mo: a.mo * k, w: a.w * k, d: a.d * k, h: a.h * k, mi: a.mi * k, s: a.s * k, ms: a.ms * k, us: a.us * k, ns: a.ns * k }
}
/// every unit given the sign s in {-1,0,1} (units are magnitudes)
pub open spec fn sv_signed(s: int, a: SV) -> SV {
    SV { y: smul(s, a.y), mo: smul(s, a.mo), w: smul(s, a.w), d: smul(s, a.d), h: smul(s, a.h), mi: smul(s, a.mi), s: smul(s, a.s), ms: smul(s, a.ms), us: smul(s, a.us), ns: smul(s, a.ns) }
}
pub open spec fn sv_is_zero(a: SV) -> bool { a == sv_zero() }
/// -1 if some unit is negative, 1 if none is negative and some is positive, 0 otherwise
pub open spec fn sv_sign(a: SV) -> int {
    if a.y < 0 || a.mo < 0 || a.w < 0 || a.d < 0 || a.h < 0 || a.mi < 0 || a.s < 0 || a.ms < 0 || a.us < 0 || a.ns < 0 { -1 }
    else if sv_is_zero(a) { 0 } else { 1 }
}
/// "all its non-zero units always share one sign"
pub open spec fn sv_one_sign(a: SV) -> bool {
    (a.y >= 0 && a.mo >= 0 && a.w >= 0 && a.d >= 0 && a.h >= 0 && a.mi >= 0 && a.s >= 0 && a.ms >= 0 && a.us >= 0 && a.ns >= 0)
    || (a.y <= 0 && a.mo <= 0 && a.w <= 0 && a.d <= 0 && a.h <= 0 && a.mi <= 0 && a.s <= 0 && a.ms <= 0 && a.us <= 0 && a.ns <= 0)
}
/// the documented per-unit limits
pub open spec fn sv_in_limits(a: SV) -> bool {
    in_SpanYears(a.y) && in_SpanMonths(a.mo) && in_SpanWeeks(a.w) && in_SpanDays(a.d) && in_SpanHours(a.h) && in_SpanMinutes(a.mi)
    && in_SpanSeconds(a.s) && in_SpanMilliseconds(a.ms) && in_SpanMicroseconds(a.us) && in_SpanNanoseconds(a.ns)
}
/// the documented limit of the unit with rank j
pub open spec fn in_limit(j: int, v: int) -> bool {
    if j == 9 { in_SpanYears(v) } else if j == 8 { in_SpanMonths(v) } else if j == 7 { in_SpanWeeks(v) } else if j == 6 { in_SpanDays(v) }
    else if j == 5 { in_SpanHours(v) } else if j == 4 { in_SpanMinutes(v) } else if j == 3 { in_SpanSeconds(v) } else if j == 2 { in_SpanMilliseconds(v) }
    else if j == 1 { in_SpanMicroseconds(v) } else { in_SpanNanoseconds(v) }
}
/// jiff's rule for `span.<unit>(v)`: the unit's magnitude becomes |v|, every other magnitude is kept, and
///  * a negative v makes the whole span negative,
///  * otherwise a span whose units are now all zero is zero,
///  * otherwise a span that was zero becomes positive,
///  * otherwise the span keeps its sign (so a non-negative v put on a negative span is taken as a magnitude).
pub open spec fn spec_set(a: SV, j: int, v: int) -> SV {
    let m = sv_put(sv_abs(a), j, iabs(v));
    let sg = if v < 0 { -1 } else if sv_is_zero(m) { 0 } else if sv_is_zero(a) { 1 } else { sv_sign(a) };
    sv_signed(sg, m)
}

/// "a span holds, per unit, exactly the integer it was given" -- as jiff documents it (src/span.rs:132-160): up to the sign of the whole span.
/// The unit reads back as v unless a positive v is put on a negative span (then -v); every other unit keeps its magnitude
/// (`5.days().hours(-10).get_days() == -5`).
pub proof fn lemma_set_reads_back(a: SV, j: int, v: int)
    requires sv_one_sign(a), 0 <= j <= 9,
    ensures iabs(sv_get(spec_set(a, j, v), j)) == iabs(v),
            (v <= 0 || sv_sign(a) >= 0) ==> sv_get(spec_set(a, j, v), j) == v,
            (v > 0 && sv_sign(a) < 0) ==> sv_get(spec_set(a, j, v), j) == -v,
            forall|i: int| 0 <= i <= 9 && i != j ==> iabs(#[trigger] sv_get(spec_set(a, j, v), i)) == iabs(sv_get(a, i)),
            sv_one_sign(spec_set(a, j, v)),
{
}
impl UnitSet {
    /// bit j is set
    pub open spec fn has(self, j: int) -> bool { 0 <= j < 16 && (self.0 >> (j as u16)) & 1u16 == 1u16 }
}
impl Span {
    /// stored magnitudes (non-negative), by rank
    pub open spec fn mags(self) -> SV {
        SV { y: self.years.val as int, mo: self.months.val as int, w: self.weeks.val as int, d: self.days.val as int, h: self.hours.val as int,
             mi: self.minutes.val as int, s: self.seconds.val as int, ms: self.milliseconds.val as int, us: self.microseconds.val as int, ns: self.nanoseconds.val as int }
    }
    /// the abstract value: sign * magnitude per unit
    pub open spec fn view(self) -> SV { sv_signed(self.sign.val as int, self.mags()) }
    pub open spec fn mags_ok(self) -> bool {
        let m = self.mags();
        m.y >= 0 && m.mo >= 0 && m.w >= 0 && m.d >= 0 && m.h >= 0 && m.mi >= 0 && m.s >= 0 && m.ms >= 0 && m.us >= 0 && m.ns >= 0 && sv_in_limits(m)
    }
    pub open spec fn units_ok(self) -> bool {
        forall|j: int| 0 <= j < 16 ==> #[trigger] self.units.has(j) == (sv_get(self.mags(), j) != 0)
    }
    /// representation invariant
    pub open spec fn wf(self) -> bool {
        &&& -1 <= self.sign.val <= 1
        &&& self.mags_ok()
        &&& (self.sign.val == 0 <==> sv_is_zero(self.mags()))
        &&& self.units_ok()
    }
}
pub proof fn lemma_view(s: Span)
    requires s.wf(),
    ensures sv_in_limits(s.view()), sv_one_sign(s.view()), sv_sign(s.view()) == s.sign.val, sv_abs(s.view()) == s.mags(),
            sv_is_zero(s.view()) <==> s.sign.val == 0,
{
}
pub proof fn lemma_smul(s: int, m: int)
    requires -1 <= s <= 1,
    ensures m * s == smul(s, m), s * m == smul(s, m),
{
    assert(m * s == smul(s, m) && s * m == smul(s, m)) by (nonlinear_arith) requires -1 <= s <= 1;
}
/// the sign computed by Span::resign for the new value `units` of one unit (old sign `old`, `new` = the span with the unit's magnitude replaced)
pub open spec fn resign_spec(old: int, units: int, new: Span) -> int {
    if units < 0 { -1 } else if units == 0 && sv_is_zero(new.mags()) { 0 } else if old == 0 { isgn(units) } else { new.sign.val as int }
}
pub proof fn lemma_bit_clear(a: u16, i: u16, j: u16) by (bit_vector)
    requires i < 16, j < 16,
    ensures (((a & !(1u16 << i)) >> j) & 1u16 == 1u16) == (j != i && ((a >> j) & 1u16 == 1u16)),
{}
pub proof fn lemma_bit_set(a: u16, i: u16, j: u16) by (bit_vector)
    requires i < 16, j < 16,
    ensures (((a | (1u16 << i)) >> j) & 1u16 == 1u16) == (j == i || ((a >> j) & 1u16 == 1u16)),
{}
pub proof fn lemma_bits_set(a: u16, i: u16)
    requires i < 16,
    ensures forall|j: int| 0 <= j < 16 ==> #[trigger] UnitSet(a & !(1u16 << i)).has(j) == (j != i && UnitSet(a).has(j)),
            forall|j: int| 0 <= j < 16 ==> #[trigger] UnitSet(a | (1u16 << i)).has(j) == (j == i || UnitSet(a).has(j)),
{
    assert forall|j: int| 0 <= j < 16 implies #[trigger] UnitSet(a & !(1u16 << i)).has(j) == (j != i && UnitSet(a).has(j)) by { lemma_bit_clear(a, i, j as u16); }
    assert forall|j: int| 0 <= j < 16 implies #[trigger] UnitSet(a | (1u16 << i)).has(j) == (j == i || UnitSet(a).has(j)) by { lemma_bit_set(a, i, j as u16); }
}

// derived `PartialOrd` on the fieldless enum Unit = order of discriminants (same trusted view as in rounders.vrs; Kani: c10_model::unit_order)
impl PartialOrdSpecImpl for Unit {
    open spec fn obeys_partial_cmp_spec() -> bool { true }
    open spec fn partial_cmp_spec(&self, other: &Unit) -> Option<Ordering> { Some(int_cmp(unit_rank(*self), unit_rank(*other))) }
}
impl PartialOrd for Unit {
    #[verifier::external_body]
    fn partial_cmp(&self, other: &Unit) -> Option<Ordering> { unimplemented!() }
}
/// units of rank >= lo zeroed / units of rank < lo zeroed
pub open spec fn sv_below(a: SV, lo: int) -> SV {
    SV { y: if 9 >= lo { 0 } else { a.y }, mo: if 8 >= lo { 0 } else { a.mo }, w: if 7 >= lo { 0 } else { a.w }, d: if 6 >= lo { 0 } else { a.d }, h: if 5 >= lo { 0 } else { a.h },
         mi: if 4 >= lo { 0 } else { a.mi }, s: if 3 >= lo { 0 } else { a.s }, ms: if 2 >= lo { 0 } else { a.ms }, us: if 1 >= lo { 0 } else { a.us }, ns: if 0 >= lo { 0 } else { a.ns } }
}
pub open spec fn sv_from(a: SV, lo: int) -> SV {
    SV { y: if 9 < lo { 0 } else { a.y }, mo: if 8 < lo { 0 } else { a.mo }, w: if 7 < lo { 0 } else { a.w }, d: if 6 < lo { 0 } else { a.d }, h: if 5 < lo { 0 } else { a.h },
         mi: if 4 < lo { 0 } else { a.mi }, s: if 3 < lo { 0 } else { a.s }, ms: if 2 < lo { 0 } else { a.ms }, us: if 1 < lo { 0 } else { a.us }, ns: if 0 < lo { 0 } else { a.ns } }
}
/// setting a unit to 0 zeroes that unit and nothing else
pub proof fn lemma_set_zero(a: SV, j: int)
    requires sv_one_sign(a), 0 <= j <= 9,
    ensures spec_set(a, j, 0) == sv_put(a, j, 0), sv_one_sign(sv_put(a, j, 0)),
{
}
pub proof fn lemma_set_zero_all()
    ensures forall|b: SV, j: int| sv_one_sign(b) && 0 <= j <= 9 ==> #[trigger] spec_set(b, j, 0) == sv_put(b, j, 0),
            forall|t: Span| #[trigger] t.wf() ==> sv_one_sign(t.view()),
{
    assert forall|b: SV, j: int| sv_one_sign(b) && 0 <= j <= 9 implies #[trigger] spec_set(b, j, 0) == sv_put(b, j, 0) by { lemma_set_zero(b, j); }
    assert forall|t: Span| #[trigger] t.wf() implies sv_one_sign(t.view()) by { lemma_view(t); }
}
/// the abstract value: one-sign and within limits
pub open spec fn sv_ok(a: SV) -> bool { sv_one_sign(a) && sv_in_limits(a) }
// ---- UnitSet: bit j <=> unit of rank j is non-zero; bits 10..15 are never set
impl UnitSet {
    pub open spec fn inv(self) -> bool { forall|j: int| 10 <= j < 16 ==> !#[trigger] self.has(j) }
}
pub open spec fn unit_of_rank(n: int) -> Option<Unit> {
    if n == 0 { Some(Unit::Nanosecond) } else if n == 1 { Some(Unit::Microsecond) } else if n == 2 { Some(Unit::Millisecond) } else if n == 3 { Some(Unit::Second) }
    else if n == 4 { Some(Unit::Minute) } else if n == 5 { Some(Unit::Hour) } else if n == 6 { Some(Unit::Day) } else if n == 7 { Some(Unit::Week) }
    else if n == 8 { Some(Unit::Month) } else if n == 9 { Some(Unit::Year) } else { None }
}
pub proof fn lemma_bit_mask(a: u16, m: u16, j: u16) by (bit_vector)
    requires j < 16,
    ensures (((a & m) >> j) & 1u16 == 1u16) == (((a >> j) & 1u16 == 1u16) && ((m >> j) & 1u16 == 1u16)),
{}
pub proof fn lemma_mask_consts(j: u16) by (bit_vector)
    requires j < 16,
    ensures ((0b0000_0011_1100_0000u16 >> j) & 1u16 == 1u16) == (6 <= j && j <= 9),
            ((0b0000_0000_0011_1111u16 >> j) & 1u16 == 1u16) == (j <= 5),
{}
pub proof fn lemma_bits_mask(a: u16)
    ensures forall|j: int| 0 <= j < 16 ==> #[trigger] UnitSet(a & 0b0000_0011_1100_0000u16).has(j) == (UnitSet(a).has(j) && 6 <= j <= 9),
            forall|j: int| 0 <= j < 16 ==> #[trigger] UnitSet(a & 0b0000_0000_0011_1111u16).has(j) == (UnitSet(a).has(j) && j <= 5),
{
    assert forall|j: int| 0 <= j < 16 implies #[trigger] UnitSet(a & 0b0000_0011_1100_0000u16).has(j) == (UnitSet(a).has(j) && 6 <= j <= 9) by {
        lemma_bit_mask(a, 0b0000_0011_1100_0000u16, j as u16); lemma_mask_consts(j as u16);
    }
    assert forall|j: int| 0 <= j < 16 implies #[trigger] UnitSet(a & 0b0000_0000_0011_1111u16).has(j) == (UnitSet(a).has(j) && j <= 5) by {
        lemma_bit_mask(a, 0b0000_0000_0011_1111u16, j as u16); lemma_mask_consts(j as u16);
    }
}
pub proof fn lemma_bits_zero(a: u16)
    ensures (a == 0) <==> (forall|j: int| 0 <= j < 16 ==> !#[trigger] UnitSet(a).has(j)),
{
    assert((a == 0) <==> (forall|j: u16| #![auto] j < 16 ==> (a >> j) & 1u16 != 1u16)) by (bit_vector);
    if a != 0 {
        let j = choose|j: u16| #![auto] j < 16 && (a >> j) & 1u16 == 1u16;
        assert(UnitSet(a).has(j as int));
    } else {
        assert forall|j: int| 0 <= j < 16 implies !#[trigger] UnitSet(a).has(j) by { let k = j as u16; assert((a >> k) & 1u16 != 1u16); }
    }
}
pub proof fn lemma_bits_single(a: u16, i: u16)
    requires i < 16,
    ensures (a == 1u16 << i) <==> (forall|j: int| 0 <= j < 16 ==> #[trigger] UnitSet(a).has(j) == (j == i)),
{
    assert((a == 1u16 << i) <==> (forall|j: u16| #![auto] j < 16 ==> ((a >> j) & 1u16 == 1u16) == (j == i))) by (bit_vector) requires i < 16;
    if a != 1u16 << i {
        let j = choose|j: u16| #![auto] j < 16 && ((a >> j) & 1u16 == 1u16) != (j == i);
        assert(UnitSet(a).has(j as int) != (j == i));
    } else {
        assert forall|j: int| 0 <= j < 16 implies #[trigger] UnitSet(a).has(j) == (j == i) by { let k = j as u16; assert(((a >> k) & 1u16 == 1u16) == (k == i)); }
    }
}
/// leading_zeros in terms of `has`: the highest set bit is 15 - lz
pub proof fn lemma_leading_zeros(a: u16)
    ensures 0 <= vstd::std_specs::bits::u16_leading_zeros(a) <= 16,
            a == 0 <==> vstd::std_specs::bits::u16_leading_zeros(a) == 16,
            a != 0 ==> UnitSet(a).has(15 - vstd::std_specs::bits::u16_leading_zeros(a)),
            forall|j: int| 15 - vstd::std_specs::bits::u16_leading_zeros(a) < j < 16 ==> !#[trigger] UnitSet(a).has(j),
{
    let lz = vstd::std_specs::bits::u16_leading_zeros(a);
    vstd::std_specs::bits::axiom_u16_leading_zeros(a);
    if a != 0 {
        let k = (15 - lz as u16) as u16;
        let y = a >> k;
        assert(y & 1u16 != 0u16 ==> y & 1u16 == 1u16) by (bit_vector);
        assert(k == 15 - lz);
    }
    assert forall|j: int| 15 - lz < j < 16 implies !#[trigger] UnitSet(a).has(j) by {
        let k = j as u16;
        assert((a >> k) & 1u16 == 0u16);
    }
}
/// the largest unit with a non-zero value (rank), 0 (= Nanosecond) for the zero span
pub open spec fn sv_top(a: SV) -> int {
    if a.y != 0 { 9 } else if a.mo != 0 { 8 } else if a.w != 0 { 7 } else if a.d != 0 { 6 } else if a.h != 0 { 5 } else if a.mi != 0 { 4 }
    else if a.s != 0 { 3 } else if a.ms != 0 { 2 } else if a.us != 0 { 1 } else { 0 }
}
pub open spec fn sv_only_calendar(a: SV) -> SV { SV { y: a.y, mo: a.mo, w: a.w, d: a.d, h: 0, mi: 0, s: 0, ms: 0, us: 0, ns: 0 } }
pub open spec fn sv_only_time(a: SV) -> SV { SV { y: 0, mo: 0, w: 0, d: 0, h: a.h, mi: a.mi, s: a.s, ms: a.ms, us: a.us, ns: a.ns } }
/// the ten instances of units_ok
pub proof fn lemma_units(s: Span)
    requires s.units_ok(),
    ensures s.units.has(9) == (s.years.val != 0), s.units.has(8) == (s.months.val != 0), s.units.has(7) == (s.weeks.val != 0), s.units.has(6) == (s.days.val != 0),
            s.units.has(5) == (s.hours.val != 0), s.units.has(4) == (s.minutes.val != 0), s.units.has(3) == (s.seconds.val != 0), s.units.has(2) == (s.milliseconds.val != 0),
            s.units.has(1) == (s.microseconds.val != 0), s.units.has(0) == (s.nanoseconds.val != 0), s.units.inv(),
{
}
// ---- multiplication, one unit: sign s, magnitude m, factor k != 0, symmetric limit -l..=l
pub proof fn lemma_mul_unit(s: int, m: int, k: int, l: int)
    requires -1 <= s <= 1, m >= 0, k != 0, s == 0 ==> m == 0, l >= 0,
    ensures smul(s, m) * k == smul(s * isgn(k), m * iabs(k)),
            -1 <= s * isgn(k) <= 1, (s * isgn(k) == 0) == (s == 0),
            m * iabs(k) >= 0, (m * iabs(k) == 0) == (m == 0),
            (-l <= smul(s, m) * k <= l) == (m * iabs(k) <= l),
            m != 0 && iabs(k) > l ==> m * iabs(k) > l,
{
    let a = iabs(k);
    assert(m * a >= 0 && ((m * a == 0) == (m == 0)) && (m != 0 && a > l ==> m * a > l)) by (nonlinear_arith) requires m >= 0, a >= 1, l >= 0;
    assert(m * k == (if k > 0 { m * a } else { -(m * a) })) by (nonlinear_arith) requires a == iabs(k);
    assert((-m) * k == -(m * k)) by (nonlinear_arith);
    assert(0 * k == 0);
    assert(s * isgn(k) == (if s == 0 { 0int } else if (s > 0) == (k > 0) { 1int } else { -1int })) by (nonlinear_arith) requires -1 <= s <= 1, k != 0;
}
/// the two checks checked_mul makes on a non-zero unit (factor within the unit's limit, product within the unit's limit) and one fails
pub open spec fn unit_over(m: int, k: int, l: int) -> bool { m != 0 && (!(-l <= k <= l) || !(-l <= m * iabs(k) <= l)) }
/// ... or both pass and m1 is the new magnitude (a zero unit is left alone)
pub open spec fn unit_done(m0: int, m1: int, k: int, l: int) -> bool { if m0 == 0 { m1 == 0 } else { m1 == m0 * iabs(k) && -l <= m1 <= l } }
pub proof fn lemma_mul_over(a: Span, k: int)
    requires a.wf(), k != 0,
    ensures -1 <= a.sign.val * isgn(k) <= 1,
            unit_over(a.years.val as int, k, 19998) ==> !sv_in_limits(sv_scale(a.view(), k)),
            unit_over(a.months.val as int, k, 239976) ==> !sv_in_limits(sv_scale(a.view(), k)),
            unit_over(a.weeks.val as int, k, 1043497) ==> !sv_in_limits(sv_scale(a.view(), k)),
            unit_over(a.days.val as int, k, 7304484) ==> !sv_in_limits(sv_scale(a.view(), k)),
            unit_over(a.hours.val as int, k, 175307616) ==> !sv_in_limits(sv_scale(a.view(), k)),
            unit_over(a.minutes.val as int, k, 10518456960) ==> !sv_in_limits(sv_scale(a.view(), k)),
            unit_over(a.seconds.val as int, k, 631107417600) ==> !sv_in_limits(sv_scale(a.view(), k)),
            unit_over(a.milliseconds.val as int, k, 631107417600000) ==> !sv_in_limits(sv_scale(a.view(), k)),
            unit_over(a.microseconds.val as int, k, 631107417600000000) ==> !sv_in_limits(sv_scale(a.view(), k)),
            unit_over(a.nanoseconds.val as int, k, 9223372036854775807) ==> !sv_in_limits(sv_scale(a.view(), k)),
{
    let s = a.sign.val as int; let m = a.mags();
    lemma_mul_unit(s, m.y, k, 19998); lemma_mul_unit(s, m.mo, k, 239976); lemma_mul_unit(s, m.w, k, 1043497); lemma_mul_unit(s, m.d, k, 7304484); lemma_mul_unit(s, m.h, k, 175307616); lemma_mul_unit(s, m.mi, k, 10518456960); lemma_mul_unit(s, m.s, k, 631107417600); lemma_mul_unit(s, m.ms, k, 631107417600000); lemma_mul_unit(s, m.us, k, 631107417600000000); lemma_mul_unit(s, m.ns, k, 9223372036854775807);
}
pub proof fn lemma_mul_final(a: Span, b: Span, k: int)
    requires a.wf(), k != 0, b.sign.val == a.sign.val * isgn(k), b.units == a.units,
             unit_done(a.years.val as int, b.years.val as int, k, 19998),
             unit_done(a.months.val as int, b.months.val as int, k, 239976),
             unit_done(a.weeks.val as int, b.weeks.val as int, k, 1043497),
             unit_done(a.days.val as int, b.days.val as int, k, 7304484),
             unit_done(a.hours.val as int, b.hours.val as int, k, 175307616),
             unit_done(a.minutes.val as int, b.minutes.val as int, k, 10518456960),
             unit_done(a.seconds.val as int, b.seconds.val as int, k, 631107417600),
             unit_done(a.milliseconds.val as int, b.milliseconds.val as int, k, 631107417600000),
             unit_done(a.microseconds.val as int, b.microseconds.val as int, k, 631107417600000000),
             unit_done(a.nanoseconds.val as int, b.nanoseconds.val as int, k, 9223372036854775807),
    ensures b.wf(), b.view() == sv_scale(a.view(), k), sv_in_limits(sv_scale(a.view(), k)),
{
    let s = a.sign.val as int; let m = a.mags();
    lemma_mul_unit(s, m.y, k, 19998); lemma_mul_unit(s, m.mo, k, 239976); lemma_mul_unit(s, m.w, k, 1043497); lemma_mul_unit(s, m.d, k, 7304484); lemma_mul_unit(s, m.h, k, 175307616); lemma_mul_unit(s, m.mi, k, 10518456960); lemma_mul_unit(s, m.s, k, 631107417600); lemma_mul_unit(s, m.ms, k, 631107417600000); lemma_mul_unit(s, m.us, k, 631107417600000000); lemma_mul_unit(s, m.ns, k, 9223372036854775807);
    assert(b.units_ok()) by {
        assert forall|j: int| 0 <= j < 16 implies #[trigger] b.units.has(j) == (sv_get(b.mags(), j) != 0) by { assert(a.units.has(j) == (sv_get(a.mags(), j) != 0)); }
    }
}
pub proof fn lemma_scale01(a: Span)
    requires a.wf(),
    ensures sv_scale(a.view(), 0) == sv_zero(), sv_in_limits(sv_zero()), sv_scale(a.view(), 1) == a.view(), sv_in_limits(a.view()),
{
}
impl vstd::std_specs::cmp::PartialEqSpecImpl for SpanFieldwise {
    open spec fn obeys_eq_spec() -> bool { true }
    /// sign and the ten magnitudes agree (the unit set is not compared)
    open spec fn eq_spec(&self, rhs: &SpanFieldwise) -> bool { self.0.sign.val == rhs.0.sign.val && self.0.mags() == rhs.0.mags() }
}
/// "the fieldwise view acts unit by unit": on well-formed spans, fieldwise equality is equality of the abstract values
pub proof fn lemma_fieldwise(a: SpanFieldwise, b: SpanFieldwise)
    requires a.0.wf(), b.0.wf(),
    ensures vstd::std_specs::cmp::PartialEqSpec::eq_spec(&a, &b) <==> a.0.view() == b.0.view(),
{
    lemma_view(a.0); lemma_view(b.0);
}

// ==== extracted from /repo ====
#[derive(Clone, Copy, Debug, Eq, PartialEq, Structural)]
pub enum Unit {
    
    
    Year = 9,
    
    
    Month = 8,
    
    Week = 7,
    
    
    Day = 6,
    
    Hour = 5,
    
    
    Minute = 4,
    
    Second = 3,
    
    Millisecond = 2,
    
    Microsecond = 1,
    
    Nanosecond = 0,
}

impl Unit {
// @fn Unit::from_usize @src src/span.rs:4249
#[verifier::spinoff_prover]
pub fn from_usize(n: usize) -> (r: Option<Unit>)
    ensures
        r == unit_of_rank(n as int), r is Some ==> unit_rank(r->0) == n,
{
        match n {
            0 => Some(Unit::Nanosecond),
            1 => Some(Unit::Microsecond),
            2 => Some(Unit::Millisecond),
            3 => Some(Unit::Second),
            4 => Some(Unit::Minute),
            5 => Some(Unit::Hour),
            6 => Some(Unit::Day),
            7 => Some(Unit::Week),
            8 => Some(Unit::Month),
            9 => Some(Unit::Year),
            _ => None,
        }
    }
}

#[derive(Clone, Copy)]
pub struct UnitSet(pub u16);

impl UnitSet {
// @fn UnitSet::empty @src src/span.rs:5755
#[verifier::spinoff_prover]

    pub fn empty() -> (r: UnitSet)
    ensures
        r.0 == 0, forall|j: int| !#[trigger] r.has(j),
{
        proof { assert(forall|j: u16| #![auto] j < 16 ==> (0u16 >> j) & 1u16 != 1u16) by (bit_vector); }

        UnitSet(0)
    }

// @fn UnitSet::set @src src/span.rs:5764
#[verifier::spinoff_prover]

    pub fn set(self, unit: Unit, is_zero: bool) -> (r: UnitSet)
    ensures
        forall|j: int| 0 <= j < 16 ==> #[trigger] r.has(j) == (if j == unit_rank(unit) { !is_zero } else { self.has(j) }),
{
        proof { lemma_bits_set(self.0, unit_rank(unit) as u16); }

        let bit = 1 << unit as usize;
        if is_zero {
            UnitSet(self.0 & !bit)
        } else {
            UnitSet(self.0 | bit)
        }
    }

// @fn UnitSet::is_empty @src src/span.rs:5775
#[verifier::spinoff_prover]

    pub fn is_empty(&self) -> (r: bool)
    ensures
        r == (self.0 == 0), r <==> (forall|j: int| 0 <= j < 16 ==> !#[trigger] self.has(j)),
{
        proof { lemma_bits_zero(self.0); }

        self.0 == 0
    }

// @fn UnitSet::contains_only @src src/span.rs:5782
#[verifier::spinoff_prover]

    pub fn contains_only(self, unit: Unit) -> (r: bool)
    ensures
        r <==> (forall|j: int| 0 <= j < 16 ==> #[trigger] self.has(j) == (j == unit_rank(unit))),
{
        proof { lemma_bits_single(self.0, unit_rank(unit) as u16); }

        self.0 == (1 << unit as usize)
    }

// @fn UnitSet::only_calendar @src src/span.rs:5788
#[verifier::spinoff_prover]

    pub fn only_calendar(self) -> (r: UnitSet)
    ensures
        forall|j: int| 0 <= j < 16 ==> #[trigger] r.has(j) == (self.has(j) && 6 <= j <= 9),
{
        proof { lemma_bits_mask(self.0); }

        UnitSet(self.0 & 0b0000_0011_1100_0000)
    }

// @fn UnitSet::only_time @src src/span.rs:5794
#[verifier::spinoff_prover]

    pub fn only_time(self) -> (r: UnitSet)
    ensures
        forall|j: int| 0 <= j < 16 ==> #[trigger] r.has(j) == (self.has(j) && j <= 5),
{
        proof { lemma_bits_mask(self.0); }

        UnitSet(self.0 & 0b0000_0000_0011_1111)
    }

// @fn UnitSet::largest_unit @src src/span.rs:5800
#[verifier::spinoff_prover]

    pub fn largest_unit(self) -> (r: Option<Unit>)
    requires
        self.inv(),
    ensures
        r is None <==> (forall|j: int| 0 <= j < 16 ==> !#[trigger] self.has(j)),
    r is Some ==> self.has(unit_rank(r->0)) && (forall|j: int| unit_rank(r->0) < j < 16 ==> !#[trigger] self.has(j)),
{
        proof { lemma_leading_zeros(self.0); lemma_bits_zero(self.0); }

        let zeros = usize::try_from(self.0.leading_zeros()).ok()?;
        15usize.checked_sub(zeros).and_then(Unit::from_usize)
    }
}

#[derive(Clone, Copy)]
pub struct Span {
    pub sign: Sign,
    pub units: UnitSet,
    pub years: SpanYears,
    pub months: SpanMonths,
    pub weeks: SpanWeeks,
    pub days: SpanDays,
    pub hours: SpanHours,
    pub minutes: SpanMinutes,
    pub seconds: SpanSeconds,
    pub milliseconds: SpanMilliseconds,
    pub microseconds: SpanMicroseconds,
    pub nanoseconds: SpanNanoseconds,
} impl Span { pub fn verif_try_checked_mul_years<R: RInto<SpanYears>>(x: SpanYears, rhs: R) -> (res: Result<SpanYears, Error>) requires rhs.rinto_req() ensures res.is_ok() <==> in_SpanYears(x.val * rhs.rinto_spec().val), res.is_ok() ==> res.unwrap().val == x.val * rhs.rinto_spec().val { verif_try_checked_mul_SpanYears(x, rhs) } pub fn verif_try_checked_mul_months<R: RInto<SpanMonths>>(x: SpanMonths, rhs: R) -> (res: Result<SpanMonths, Error>) requires rhs.rinto_req() ensures res.is_ok() <==> in_SpanMonths(x.val * rhs.rinto_spec().val), res.is_ok() ==> res.unwrap().val == x.val * rhs.rinto_spec().val { verif_try_checked_mul_SpanMonths(x, rhs) } pub fn verif_try_checked_mul_weeks<R: RInto<SpanWeeks>>(x: SpanWeeks, rhs: R) -> (res: Result<SpanWeeks, Error>) requires rhs.rinto_req() ensures res.is_ok() <==> in_SpanWeeks(x.val * rhs.rinto_spec().val), res.is_ok() ==> res.unwrap().val == x.val * rhs.rinto_spec().val { verif_try_checked_mul_SpanWeeks(x, rhs) } pub fn verif_try_checked_mul_days<R: RInto<SpanDays>>(x: SpanDays, rhs: R) -> (res: Result<SpanDays, Error>) requires rhs.rinto_req() ensures res.is_ok() <==> in_SpanDays(x.val * rhs.rinto_spec().val), res.is_ok() ==> res.unwrap().val == x.val * rhs.rinto_spec().val { verif_try_checked_mul_SpanDays(x, rhs) } pub fn verif_try_checked_mul_hours<R: RInto<SpanHours>>(x: SpanHours, rhs: R) -> (res: Result<SpanHours, Error>) requires rhs.rinto_req() ensures res.is_ok() <==> in_SpanHours(x.val * rhs.rinto_spec().val), res.is_ok() ==> res.unwrap().val == x.val * rhs.rinto_spec().val { verif_try_checked_mul_SpanHours(x, rhs) } pub fn verif_try_checked_mul_minutes<R: RInto<SpanMinutes>>(x: SpanMinutes, rhs: R) -> (res: Result<SpanMinutes, Error>) requires rhs.rinto_req() ensures res.is_ok() <==> in_SpanMinutes(x.val * rhs.rinto_spec().val), res.is_ok() ==> res.unwrap().val == x.val * rhs.rinto_spec().val { verif_try_checked_mul_SpanMinutes(x, rhs) } pub fn verif_try_checked_mul_seconds<R: RInto<SpanSeconds>>(x: SpanSeconds, rhs: R) -> (res: Result<SpanSeconds, Error>) requires rhs.rinto_req() ensures res.is_ok() <==> in_SpanSeconds(x.val * rhs.rinto_spec().val), res.is_ok() ==> res.unwrap().val == x.val * rhs.rinto_spec().val { verif_try_checked_mul_SpanSeconds(x, rhs) } pub fn verif_try_checked_mul_milliseconds<R: RInto<SpanMilliseconds>>(x: SpanMilliseconds, rhs: R) -> (res: Result<SpanMilliseconds, Error>) requires rhs.rinto_req() ensures res.is_ok() <==> in_SpanMilliseconds(x.val * rhs.rinto_spec().val), res.is_ok() ==> res.unwrap().val == x.val * rhs.rinto_spec().val { verif_try_checked_mul_SpanMilliseconds(x, rhs) } pub fn verif_try_checked_mul_microseconds<R: RInto<SpanMicroseconds>>(x: SpanMicroseconds, rhs: R) -> (res: Result<SpanMicroseconds, Error>) requires rhs.rinto_req() ensures res.is_ok() <==> in_SpanMicroseconds(x.val * rhs.rinto_spec().val), res.is_ok() ==> res.unwrap().val == x.val * rhs.rinto_spec().val { verif_try_checked_mul_SpanMicroseconds(x, rhs) } pub fn verif_try_checked_mul_nanoseconds<R: RInto<SpanNanoseconds>>(x: SpanNanoseconds, rhs: R) -> (res: Result<SpanNanoseconds, Error>) requires rhs.rinto_req() ensures res.is_ok() <==> in_SpanNanoseconds(x.val * rhs.rinto_spec().val), res.is_ok() ==> res.unwrap().val == x.val * rhs.rinto_spec().val { verif_try_checked_mul_SpanNanoseconds(x, rhs) } }

impl Default for Span {
// @fn <Span as Default>::default @src src/span.rs:3222

    fn default() -> (r: Span) ensures r.wf(), r.view() == sv_zero()
{
        Span {
            sign: ri8::verif_N(0),
            units: UnitSet::empty(),
            years: C(0).rinto(),
            months: C(0).rinto(),
            weeks: C(0).rinto(),
            days: C(0).rinto(),
            hours: C(0).rinto(),
            minutes: C(0).rinto(),
            seconds: C(0).rinto(),
            milliseconds: C(0).rinto(),
            microseconds: C(0).rinto(),
            nanoseconds: C(0).rinto(),
        }
    }
}

impl Span {
// @fn Span::new @src src/span.rs:733
#[verifier::spinoff_prover]
pub fn new() -> (r: Span)
    ensures
        r.wf(), r.view() == sv_zero(),
{
        Span::default()
    }
}

impl Span {
// @fn Span::get_sign_ranged @src src/span.rs:2707
#[verifier::spinoff_prover]

    pub fn get_sign_ranged(&self) -> (r: Sign)
    requires
        self.wf(),
    ensures
        r.val == sv_sign(self.view()), r == self.sign,
{
        proof { lemma_view(*self); }

        self.sign
    }
}

impl Span {
// @fn Span::get_years_ranged @src src/span.rs:2657
#[verifier::spinoff_prover]

    pub fn get_years_ranged(&self) -> (r: SpanYears)
    requires
        self.wf(),
    ensures
        r.val == self.view().y, in_SpanYears(r.val as int),
{
        proof { lemma_smul(self.sign.val as int, self.years.val as int); }

        self.years * self.sign
    }
}

impl Span {
// @fn Span::get_months_ranged @src src/span.rs:2662
#[verifier::spinoff_prover]

    pub fn get_months_ranged(&self) -> (r: SpanMonths)
    requires
        self.wf(),
    ensures
        r.val == self.view().mo, in_SpanMonths(r.val as int),
{
        proof { lemma_smul(self.sign.val as int, self.months.val as int); }

        self.months * self.sign
    }
}

impl Span {
// @fn Span::get_weeks_ranged @src src/span.rs:2667
#[verifier::spinoff_prover]

    pub fn get_weeks_ranged(&self) -> (r: SpanWeeks)
    requires
        self.wf(),
    ensures
        r.val == self.view().w, in_SpanWeeks(r.val as int),
{
        proof { lemma_smul(self.sign.val as int, self.weeks.val as int); }

        self.weeks * self.sign
    }
}

impl Span {
// @fn Span::get_days_ranged @src src/span.rs:2672
#[verifier::spinoff_prover]

    pub fn get_days_ranged(&self) -> (r: SpanDays)
    requires
        self.wf(),
    ensures
        r.val == self.view().d, in_SpanDays(r.val as int),
{
        proof { lemma_smul(self.sign.val as int, self.days.val as int); }

        self.days * self.sign
    }
}

impl Span {
// @fn Span::get_hours_ranged @src src/span.rs:2677
#[verifier::spinoff_prover]

    pub fn get_hours_ranged(&self) -> (r: SpanHours)
    requires
        self.wf(),
    ensures
        r.val == self.view().h, in_SpanHours(r.val as int),
{
        proof { lemma_smul(self.sign.val as int, self.hours.val as int); }

        self.hours * self.sign
    }
}

impl Span {
// @fn Span::get_minutes_ranged @src src/span.rs:2682
#[verifier::spinoff_prover]

    pub fn get_minutes_ranged(&self) -> (r: SpanMinutes)
    requires
        self.wf(),
    ensures
        r.val == self.view().mi, in_SpanMinutes(r.val as int),
{
        proof { lemma_smul(self.sign.val as int, self.minutes.val as int); }

        self.minutes * self.sign
    }
}

impl Span {
// @fn Span::get_seconds_ranged @src src/span.rs:2687
#[verifier::spinoff_prover]

    pub fn get_seconds_ranged(&self) -> (r: SpanSeconds)
    requires
        self.wf(),
    ensures
        r.val == self.view().s, in_SpanSeconds(r.val as int),
{
        proof { lemma_smul(self.sign.val as int, self.seconds.val as int); }

        self.seconds * self.sign
    }
}

impl Span {
// @fn Span::get_milliseconds_ranged @src src/span.rs:2692
#[verifier::spinoff_prover]

    pub fn get_milliseconds_ranged(&self) -> (r: SpanMilliseconds)
    requires
        self.wf(),
    ensures
        r.val == self.view().ms, in_SpanMilliseconds(r.val as int),
{
        proof { lemma_smul(self.sign.val as int, self.milliseconds.val as int); }

        self.milliseconds * self.sign
    }
}

impl Span {
// @fn Span::get_microseconds_ranged @src src/span.rs:2697
#[verifier::spinoff_prover]

    pub fn get_microseconds_ranged(&self) -> (r: SpanMicroseconds)
    requires
        self.wf(),
    ensures
        r.val == self.view().us, in_SpanMicroseconds(r.val as int),
{
        proof { lemma_smul(self.sign.val as int, self.microseconds.val as int); }

        self.microseconds * self.sign
    }
}

impl Span {
// @fn Span::get_nanoseconds_ranged @src src/span.rs:2702
#[verifier::spinoff_prover]

    pub fn get_nanoseconds_ranged(&self) -> (r: SpanNanoseconds)
    requires
        self.wf(),
    ensures
        r.val == self.view().ns, in_SpanNanoseconds(r.val as int),
{
        proof { lemma_smul(self.sign.val as int, self.nanoseconds.val as int); }

        self.nanoseconds * self.sign
    }
}

impl Span {
// @fn Span::get_years @src src/span.rs:1097
#[verifier::spinoff_prover]

    pub fn get_years(&self) -> (r: i16)
    requires
        self.wf(),
    ensures
        r == self.view().y,
{
        self.get_years_ranged().get()
    }
}

impl Span {
// @fn Span::get_months @src src/span.rs:1119
#[verifier::spinoff_prover]

    pub fn get_months(&self) -> (r: i32)
    requires
        self.wf(),
    ensures
        r == self.view().mo,
{
        self.get_months_ranged().get()
    }
}

impl Span {
// @fn Span::get_weeks @src src/span.rs:1141
#[verifier::spinoff_prover]

    pub fn get_weeks(&self) -> (r: i32)
    requires
        self.wf(),
    ensures
        r == self.view().w,
{
        self.get_weeks_ranged().get()
    }
}

impl Span {
// @fn Span::get_days @src src/span.rs:1165
#[verifier::spinoff_prover]

    pub fn get_days(&self) -> (r: i32)
    requires
        self.wf(),
    ensures
        r == self.view().d,
{
        self.get_days_ranged().get()
    }
}

impl Span {
// @fn Span::get_hours @src src/span.rs:1187
#[verifier::spinoff_prover]

    pub fn get_hours(&self) -> (r: i32)
    requires
        self.wf(),
    ensures
        r == self.view().h,
{
        self.get_hours_ranged().get()
    }
}

impl Span {
// @fn Span::get_minutes @src src/span.rs:1209
#[verifier::spinoff_prover]

    pub fn get_minutes(&self) -> (r: i64)
    requires
        self.wf(),
    ensures
        r == self.view().mi,
{
        self.get_minutes_ranged().get()
    }
}

impl Span {
// @fn Span::get_seconds @src src/span.rs:1231
#[verifier::spinoff_prover]

    pub fn get_seconds(&self) -> (r: i64)
    requires
        self.wf(),
    ensures
        r == self.view().s,
{
        self.get_seconds_ranged().get()
    }
}

impl Span {
// @fn Span::get_milliseconds @src src/span.rs:1253
#[verifier::spinoff_prover]

    pub fn get_milliseconds(&self) -> (r: i64)
    requires
        self.wf(),
    ensures
        r == self.view().ms,
{
        self.get_milliseconds_ranged().get()
    }
}

impl Span {
// @fn Span::get_microseconds @src src/span.rs:1275
#[verifier::spinoff_prover]

    pub fn get_microseconds(&self) -> (r: i64)
    requires
        self.wf(),
    ensures
        r == self.view().us,
{
        self.get_microseconds_ranged().get()
    }
}

impl Span {
// @fn Span::get_nanoseconds @src src/span.rs:1297
#[verifier::spinoff_prover]

    pub fn get_nanoseconds(&self) -> (r: i64)
    requires
        self.wf(),
    ensures
        r == self.view().ns,
{
        self.get_nanoseconds_ranged().get()
    }
}

impl Span {
// @fn Span::get_units_ranged @src src/span.rs:2712
#[verifier::spinoff_prover]

    pub fn get_units_ranged(&self, unit: Unit) -> (r: NoUnits)
    requires
        self.wf(),
    ensures
        r.val == sv_get(self.view(), unit_rank(unit)),
{
        match unit {
            Unit::Year => self.get_years_ranged().rinto(),
            Unit::Month => self.get_months_ranged().rinto(),
            Unit::Week => self.get_weeks_ranged().rinto(),
            Unit::Day => self.get_days_ranged().rinto(),
            Unit::Hour => self.get_hours_ranged().rinto(),
            Unit::Minute => self.get_minutes_ranged().rinto(),
            Unit::Second => self.get_seconds_ranged().rinto(),
            Unit::Millisecond => self.get_milliseconds_ranged().rinto(),
            Unit::Microsecond => self.get_microseconds_ranged().rinto(),
            Unit::Nanosecond => self.get_nanoseconds_ranged().rinto(),
        }
    }
}

impl Span {
// @fn Span::is_zero @src src/span.rs:1417
#[verifier::spinoff_prover]

    pub fn is_zero(self) -> (r: bool)
    requires
        self.wf(),
    ensures
        r == sv_is_zero(self.view()),
{
        self.sign == C(0)
    }
}

impl Span {
// @fn Span::signum @src src/span.rs:1365
#[verifier::spinoff_prover]

    pub fn signum(self) -> (r: i8)
    requires
        self.wf(),
    ensures
        r == sv_sign(self.view()),
{
        self.sign.signum().get()
    }
}

impl Span {
// @fn Span::is_positive @src src/span.rs:1382
#[verifier::spinoff_prover]

    pub fn is_positive(self) -> (r: bool)
    requires
        self.wf(),
    ensures
        r == (sv_sign(self.view()) > 0),
{
        self.get_sign_ranged() > C(0)
    }
}

impl Span {
// @fn Span::is_negative @src src/span.rs:1399
#[verifier::spinoff_prover]

    pub fn is_negative(self) -> (r: bool)
    requires
        self.wf(),
    ensures
        r == (sv_sign(self.view()) < 0),
{
        self.get_sign_ranged() < C(0)
    }
}

impl Span {
// @fn Span::negate @src src/span.rs:1356
#[verifier::spinoff_prover]

    pub fn negate(self) -> (r: Span)
    requires
        self.wf(),
    ensures
        r.wf(), r.view() == sv_neg(self.view()),
{
        Span { sign: -self.sign, ..self }
    }
}

impl Span {
// @fn Span::abs @src src/span.rs:1319
#[verifier::spinoff_prover]

    pub fn abs(self) -> (r: Span)
    requires
        self.wf(),
    ensures
        r.wf(), r.view() == sv_abs(self.view()),
{
        if self.is_zero() {
            return self;
        }
        Span { sign: ri8::verif_N(1), ..self }
    }
}

impl Span {
// @fn Span::years_ranged @src src/span.rs:2485
#[verifier::spinoff_prover]

    pub fn verif_try_rinto_arg_years_ranged(value: NoUnits) -> (res: Result<SpanYears, Error>) ensures res.is_ok() <==> in_SpanYears(value.val as int), res.is_ok() ==> res.unwrap().val == value.val { verif_try_rfrom_SpanYears_64(value) } pub fn years_ranged(self, years: SpanYears) -> (r: Span)
    requires
        self.wf(), in_SpanYears(years.val as int),
    ensures
        r.wf(), r.view() == spec_set(self.view(), 9, years.val as int), r.mags() == sv_put(self.mags(), 9, iabs(years.val as int)),
{
        proof { lemma_view(self); }

        let mut span = Span { years: years.abs(), ..self };
        span.sign = self.resign(years, &span);
        span.units = span.units.set(Unit::Year, years == C(0));
        span
    }
}

impl Span {
// @fn Span::months_ranged @src src/span.rs:2493
#[verifier::spinoff_prover]

    pub fn verif_try_rinto_arg_months_ranged(value: NoUnits) -> (res: Result<SpanMonths, Error>) ensures res.is_ok() <==> in_SpanMonths(value.val as int), res.is_ok() ==> res.unwrap().val == value.val { verif_try_rfrom_SpanMonths_64(value) } pub fn months_ranged(self, months: SpanMonths) -> (r: Span)
    requires
        self.wf(), in_SpanMonths(months.val as int),
    ensures
        r.wf(), r.view() == spec_set(self.view(), 8, months.val as int), r.mags() == sv_put(self.mags(), 8, iabs(months.val as int)),
{
        proof { lemma_view(self); }

        let mut span = Span { months: months.abs(), ..self };
        span.sign = self.resign(months, &span);
        span.units = span.units.set(Unit::Month, months == C(0));
        span
    }
}

impl Span {
// @fn Span::weeks_ranged @src src/span.rs:2501
#[verifier::spinoff_prover]

    pub fn verif_try_rinto_arg_weeks_ranged(value: NoUnits) -> (res: Result<SpanWeeks, Error>) ensures res.is_ok() <==> in_SpanWeeks(value.val as int), res.is_ok() ==> res.unwrap().val == value.val { verif_try_rfrom_SpanWeeks_64(value) } pub fn weeks_ranged(self, weeks: SpanWeeks) -> (r: Span)
    requires
        self.wf(), in_SpanWeeks(weeks.val as int),
    ensures
        r.wf(), r.view() == spec_set(self.view(), 7, weeks.val as int), r.mags() == sv_put(self.mags(), 7, iabs(weeks.val as int)),
{
        proof { lemma_view(self); }

        let mut span = Span { weeks: weeks.abs(), ..self };
        span.sign = self.resign(weeks, &span);
        span.units = span.units.set(Unit::Week, weeks == C(0));
        span
    }
}

impl Span {
// @fn Span::days_ranged @src src/span.rs:2509
#[verifier::spinoff_prover]

    pub fn verif_try_rinto_arg_days_ranged(value: NoUnits) -> (res: Result<SpanDays, Error>) ensures res.is_ok() <==> in_SpanDays(value.val as int), res.is_ok() ==> res.unwrap().val == value.val { verif_try_rfrom_SpanDays_64(value) } pub fn days_ranged(self, days: SpanDays) -> (r: Span)
    requires
        self.wf(), in_SpanDays(days.val as int),
    ensures
        r.wf(), r.view() == spec_set(self.view(), 6, days.val as int), r.mags() == sv_put(self.mags(), 6, iabs(days.val as int)),
{
        proof { lemma_view(self); }

        let mut span = Span { days: days.abs(), ..self };
        span.sign = self.resign(days, &span);
        span.units = span.units.set(Unit::Day, days == C(0));
        span
    }
}

impl Span {
// @fn Span::hours_ranged @src src/span.rs:2517
#[verifier::spinoff_prover]

    pub fn verif_try_rinto_arg_hours_ranged(value: NoUnits) -> (res: Result<SpanHours, Error>) ensures res.is_ok() <==> in_SpanHours(value.val as int), res.is_ok() ==> res.unwrap().val == value.val { verif_try_rfrom_SpanHours_64(value) } pub fn hours_ranged(self, hours: SpanHours) -> (r: Span)
    requires
        self.wf(), in_SpanHours(hours.val as int),
    ensures
        r.wf(), r.view() == spec_set(self.view(), 5, hours.val as int), r.mags() == sv_put(self.mags(), 5, iabs(hours.val as int)),
{
        proof { lemma_view(self); }

        let mut span = Span { hours: hours.abs(), ..self };
        span.sign = self.resign(hours, &span);
        span.units = span.units.set(Unit::Hour, hours == C(0));
        span
    }
}

impl Span {
// @fn Span::minutes_ranged @src src/span.rs:2525
#[verifier::spinoff_prover]

    pub fn verif_try_rinto_arg_minutes_ranged(value: NoUnits) -> (res: Result<SpanMinutes, Error>) ensures res.is_ok() <==> in_SpanMinutes(value.val as int), res.is_ok() ==> res.unwrap().val == value.val { verif_try_rfrom_SpanMinutes_64(value) } pub fn minutes_ranged(self, minutes: SpanMinutes) -> (r: Span)
    requires
        self.wf(), in_SpanMinutes(minutes.val as int),
    ensures
        r.wf(), r.view() == spec_set(self.view(), 4, minutes.val as int), r.mags() == sv_put(self.mags(), 4, iabs(minutes.val as int)),
{
        proof { lemma_view(self); }

        let mut span = Span { minutes: minutes.abs(), ..self };
        span.sign = self.resign(minutes, &span);
        span.units = span.units.set(Unit::Minute, minutes == C(0));
        span
    }
}

impl Span {
// @fn Span::seconds_ranged @src src/span.rs:2533
#[verifier::spinoff_prover]

    pub fn verif_try_rinto_arg_seconds_ranged(value: NoUnits) -> (res: Result<SpanSeconds, Error>) ensures res.is_ok() <==> in_SpanSeconds(value.val as int), res.is_ok() ==> res.unwrap().val == value.val { verif_try_rfrom_SpanSeconds_64(value) } pub fn seconds_ranged(self, seconds: SpanSeconds) -> (r: Span)
    requires
        self.wf(), in_SpanSeconds(seconds.val as int),
    ensures
        r.wf(), r.view() == spec_set(self.view(), 3, seconds.val as int), r.mags() == sv_put(self.mags(), 3, iabs(seconds.val as int)),
{
        proof { lemma_view(self); }

        let mut span = Span { seconds: seconds.abs(), ..self };
        span.sign = self.resign(seconds, &span);
        span.units = span.units.set(Unit::Second, seconds == C(0));
        span
    }
}

impl Span {
// @fn Span::milliseconds_ranged @src src/span.rs:2541
#[verifier::spinoff_prover]

    pub fn verif_try_rinto_arg_milliseconds_ranged(value: NoUnits) -> (res: Result<SpanMilliseconds, Error>) ensures res.is_ok() <==> in_SpanMilliseconds(value.val as int), res.is_ok() ==> res.unwrap().val == value.val { verif_try_rfrom_SpanMilliseconds_64(value) } pub fn milliseconds_ranged(self, milliseconds: SpanMilliseconds) -> (r: Span)
    requires
        self.wf(), in_SpanMilliseconds(milliseconds.val as int),
    ensures
        r.wf(), r.view() == spec_set(self.view(), 2, milliseconds.val as int), r.mags() == sv_put(self.mags(), 2, iabs(milliseconds.val as int)),
{
        proof { lemma_view(self); }

        let mut span = Span { milliseconds: milliseconds.abs(), ..self };
        span.sign = self.resign(milliseconds, &span);
        span.units = span.units.set(Unit::Millisecond, milliseconds == C(0));
        span
    }
}

impl Span {
// @fn Span::microseconds_ranged @src src/span.rs:2549
#[verifier::spinoff_prover]

    pub fn verif_try_rinto_arg_microseconds_ranged(value: NoUnits) -> (res: Result<SpanMicroseconds, Error>) ensures res.is_ok() <==> in_SpanMicroseconds(value.val as int), res.is_ok() ==> res.unwrap().val == value.val { verif_try_rfrom_SpanMicroseconds_64(value) } pub fn microseconds_ranged(self, microseconds: SpanMicroseconds) -> (r: Span)
    requires
        self.wf(), in_SpanMicroseconds(microseconds.val as int),
    ensures
        r.wf(), r.view() == spec_set(self.view(), 1, microseconds.val as int), r.mags() == sv_put(self.mags(), 1, iabs(microseconds.val as int)),
{
        proof { lemma_view(self); }

        let mut span = Span { microseconds: microseconds.abs(), ..self };
        span.sign = self.resign(microseconds, &span);
        span.units = span.units.set(Unit::Microsecond, microseconds == C(0));
        span
    }
}

impl Span {
// @fn Span::nanoseconds_ranged @src src/span.rs:2557
#[verifier::spinoff_prover]

    pub fn verif_try_rinto_arg_nanoseconds_ranged(value: NoUnits) -> (res: Result<SpanNanoseconds, Error>) ensures res.is_ok() <==> in_SpanNanoseconds(value.val as int), res.is_ok() ==> res.unwrap().val == value.val { verif_try_rfrom_SpanNanoseconds_64(value) } pub fn nanoseconds_ranged(self, nanoseconds: SpanNanoseconds) -> (r: Span)
    requires
        self.wf(), in_SpanNanoseconds(nanoseconds.val as int),
    ensures
        r.wf(), r.view() == spec_set(self.view(), 0, nanoseconds.val as int), r.mags() == sv_put(self.mags(), 0, iabs(nanoseconds.val as int)),
{
        proof { lemma_view(self); }

        let mut span = Span { nanoseconds: nanoseconds.abs(), ..self };
        span.sign = self.resign(nanoseconds, &span);
        span.units = span.units.set(Unit::Nanosecond, nanoseconds == C(0));
        span
    }
}

impl Span {
// @fn Span::try_years @src src/span.rs:903
#[verifier::spinoff_prover]

    pub fn try_years(self, years: i64) -> (r: Result<Span, Error>)
    requires
        self.wf(),
    ensures
        r.is_ok() <==> in_SpanYears(years as int),
    r.is_ok() ==> r.unwrap().wf() && r.unwrap().view() == spec_set(self.view(), 9, years as int),
{
        let years = verif_try_new_SpanYears(years)?;
        Ok(self.years_ranged(years))
    }
}

impl Span {
// @fn Span::try_months @src src/span.rs:918
#[verifier::spinoff_prover]

    pub fn try_months(self, months: i64) -> (r: Result<Span, Error>)
    requires
        self.wf(),
    ensures
        r.is_ok() <==> in_SpanMonths(months as int),
    r.is_ok() ==> r.unwrap().wf() && r.unwrap().view() == spec_set(self.view(), 8, months as int),
{
        let verif_range_lo: i128 = verif_MIN_SpanMonths(); let verif_range_hi: i128 = verif_MAX_SpanMonths();
        let months = verif_try_new_range_64(verif_range_lo, verif_range_hi,months)?;
        Ok(self.months_ranged(months.rinto()))
    }
}

impl Span {
// @fn Span::try_weeks @src src/span.rs:934
#[verifier::spinoff_prover]

    pub fn try_weeks(self, weeks: i64) -> (r: Result<Span, Error>)
    requires
        self.wf(),
    ensures
        r.is_ok() <==> in_SpanWeeks(weeks as int),
    r.is_ok() ==> r.unwrap().wf() && r.unwrap().view() == spec_set(self.view(), 7, weeks as int),
{
        let verif_range_lo: i128 = verif_MIN_SpanWeeks(); let verif_range_hi: i128 = verif_MAX_SpanWeeks();
        let weeks = verif_try_new_range_64(verif_range_lo, verif_range_hi,weeks)?;
        Ok(self.weeks_ranged(weeks.rinto()))
    }
}

impl Span {
// @fn Span::try_days @src src/span.rs:950
#[verifier::spinoff_prover]

    pub fn try_days(self, days: i64) -> (r: Result<Span, Error>)
    requires
        self.wf(),
    ensures
        r.is_ok() <==> in_SpanDays(days as int),
    r.is_ok() ==> r.unwrap().wf() && r.unwrap().view() == spec_set(self.view(), 6, days as int),
{
        let verif_range_lo: i128 = verif_MIN_SpanDays(); let verif_range_hi: i128 = verif_MAX_SpanDays();
        let days = verif_try_new_range_64(verif_range_lo, verif_range_hi,days)?;
        Ok(self.days_ranged(days.rinto()))
    }
}

impl Span {
// @fn Span::try_hours @src src/span.rs:966
#[verifier::spinoff_prover]

    pub fn try_hours(self, hours: i64) -> (r: Result<Span, Error>)
    requires
        self.wf(),
    ensures
        r.is_ok() <==> in_SpanHours(hours as int),
    r.is_ok() ==> r.unwrap().wf() && r.unwrap().view() == spec_set(self.view(), 5, hours as int),
{
        let verif_range_lo: i128 = verif_MIN_SpanHours(); let verif_range_hi: i128 = verif_MAX_SpanHours();
        let hours = verif_try_new_range_64(verif_range_lo, verif_range_hi,hours)?;
        Ok(self.hours_ranged(hours.rinto()))
    }
}

impl Span {
// @fn Span::try_minutes @src src/span.rs:982
#[verifier::spinoff_prover]

    pub fn try_minutes(self, minutes: i64) -> (r: Result<Span, Error>)
    requires
        self.wf(),
    ensures
        r.is_ok() <==> in_SpanMinutes(minutes as int),
    r.is_ok() ==> r.unwrap().wf() && r.unwrap().view() == spec_set(self.view(), 4, minutes as int),
{
        let verif_range_lo: i128 = verif_MIN_SpanMinutes(); let verif_range_hi: i128 = verif_MAX_SpanMinutes();
        let minutes = verif_try_new_range_64(verif_range_lo, verif_range_hi,minutes)?;
        Ok(self.minutes_ranged(minutes))
    }
}

impl Span {
// @fn Span::try_seconds @src src/span.rs:998
#[verifier::spinoff_prover]

    pub fn try_seconds(self, seconds: i64) -> (r: Result<Span, Error>)
    requires
        self.wf(),
    ensures
        r.is_ok() <==> in_SpanSeconds(seconds as int),
    r.is_ok() ==> r.unwrap().wf() && r.unwrap().view() == spec_set(self.view(), 3, seconds as int),
{
        let verif_range_lo: i128 = verif_MIN_SpanSeconds(); let verif_range_hi: i128 = verif_MAX_SpanSeconds();
        let seconds = verif_try_new_range_64(verif_range_lo, verif_range_hi,seconds)?;
        Ok(self.seconds_ranged(seconds))
    }
}

impl Span {
// @fn Span::try_milliseconds @src src/span.rs:1015
#[verifier::spinoff_prover]

    pub fn try_milliseconds(
        self,
        milliseconds: i64,
    ) -> (r: Result<Span, Error>)
    requires
        self.wf(),
    ensures
        r.is_ok() <==> in_SpanMilliseconds(milliseconds as int),
    r.is_ok() ==> r.unwrap().wf() && r.unwrap().view() == spec_set(self.view(), 2, milliseconds as int),
{
        let verif_range_lo: i128 = verif_MIN_SpanMilliseconds(); let verif_range_hi: i128 = verif_MAX_SpanMilliseconds();
        let milliseconds =
            verif_try_new_range_64(verif_range_lo, verif_range_hi,milliseconds)?;
        Ok(self.milliseconds_ranged(milliseconds))
    }
}

impl Span {
// @fn Span::try_microseconds @src src/span.rs:1037
#[verifier::spinoff_prover]

    pub fn try_microseconds(
        self,
        microseconds: i64,
    ) -> (r: Result<Span, Error>)
    requires
        self.wf(),
    ensures
        r.is_ok() <==> in_SpanMicroseconds(microseconds as int),
    r.is_ok() ==> r.unwrap().wf() && r.unwrap().view() == spec_set(self.view(), 1, microseconds as int),
{
        let verif_range_lo: i128 = verif_MIN_SpanMicroseconds(); let verif_range_hi: i128 = verif_MAX_SpanMicroseconds();
        let microseconds =
            verif_try_new_range_64(verif_range_lo, verif_range_hi,microseconds)?;
        Ok(self.microseconds_ranged(microseconds))
    }
}

impl Span {
// @fn Span::try_nanoseconds @src src/span.rs:1066
#[verifier::spinoff_prover]

    pub fn try_nanoseconds(
        self,
        nanoseconds: i64,
    ) -> (r: Result<Span, Error>)
    requires
        self.wf(),
    ensures
        r.is_ok() <==> in_SpanNanoseconds(nanoseconds as int),
    r.is_ok() ==> r.unwrap().wf() && r.unwrap().view() == spec_set(self.view(), 0, nanoseconds as int),
{
        let verif_range_lo: i128 = verif_MIN_SpanNanoseconds(); let verif_range_hi: i128 = verif_MAX_SpanNanoseconds();
        let nanoseconds = verif_try_new_range_64(verif_range_lo, verif_range_hi,nanoseconds)?;
        Ok(self.nanoseconds_ranged(nanoseconds))
    }
}

impl Span {
// @fn Span::resign @src src/span.rs:3185
#[verifier::spinoff_prover]

    pub fn resign(&self, units: impl RInto<NoUnits>, new: &Span) -> (r: Sign)
    requires
        self.wf(), -1 <= new.sign.val <= 1, units.rinto_req(),
    ensures
        r.val == resign_spec(self.sign.val as int, units.rinto_spec().val as int, *new),
{
        
        imp(self, units.rinto(), new)
    }
}

// @fn Span::resign::imp @src src/span.rs:3186
#[verifier::spinoff_prover]
pub fn imp(span: &Span, units: NoUnits, new: &Span) -> (r: Sign)
    requires
        span.wf(), -1 <= new.sign.val <= 1,
    ensures
        r.val == resign_spec(span.sign.val as int, units.val as int, *new),
{
            
            if units < C(0) {
                return Sign::verif_N(-1);
            }
            let mut new_is_zero = new.sign == C(0) && units == C(0);
            
            
            
            
            if units == C(0) {
                new_is_zero = new.years == C(0)
                    && new.months == C(0)
                    && new.weeks == C(0)
                    && new.days == C(0)
                    && new.hours == C(0)
                    && new.minutes == C(0)
                    && new.seconds == C(0)
                    && new.milliseconds == C(0)
                    && new.microseconds == C(0)
                    && new.nanoseconds == C(0);
            }
            match (span.is_zero(), new_is_zero) {
                (_, true) => Sign::verif_N(0),
                (true, false) => units.signum().rinto(),
                
                
                (false, false) => new.sign,
            }
        }

impl Span {
// @fn Span::checked_mul @src src/span.rs:1494
#[verifier::spinoff_prover]

    pub fn checked_mul(self, rhs: i64) -> (r: Result<Span, Error>)
    requires
        self.wf(),
    ensures
        r.is_ok() <==> sv_in_limits(sv_scale(self.view(), rhs as int)),
    r.is_ok() ==> r.unwrap().wf() && r.unwrap().view() == sv_scale(self.view(), rhs as int),
{
        let mut verif_self = self;
        proof { lemma_scale01(self); if rhs != 0 { lemma_mul_over(self, rhs as int); } }

        if rhs == 0 {
            return Ok(Span::default());
        } else if rhs == 1 {
            return Ok(verif_self);
        }
        verif_self.sign *= verif_try_new_Sign(rhs.signum())
            .expect("signum fits in ri8");
        
        
        
        
        
        
        
        
        
        if verif_self.years != C(0) {
            let rhs = verif_try_new_SpanYears(rhs)?;
            verif_self.years = Span::verif_try_checked_mul_years(verif_self.years,rhs.abs())?;
        }
        if verif_self.months != C(0) {
            let rhs = verif_try_new_SpanMonths(rhs)?;
            verif_self.months = Span::verif_try_checked_mul_months(verif_self.months,rhs.abs())?;
        }
        if verif_self.weeks != C(0) {
            let rhs = verif_try_new_SpanWeeks(rhs)?;
            verif_self.weeks = Span::verif_try_checked_mul_weeks(verif_self.weeks,rhs.abs())?;
        }
        if verif_self.days != C(0) {
            let rhs = verif_try_new_SpanDays(rhs)?;
            verif_self.days = Span::verif_try_checked_mul_days(verif_self.days,rhs.abs())?;
        }
        if verif_self.hours != C(0) {
            let rhs = verif_try_new_SpanHours(rhs)?;
            verif_self.hours = Span::verif_try_checked_mul_hours(verif_self.hours,rhs.abs())?;
        }
        if verif_self.minutes != C(0) {
            let rhs = verif_try_new_SpanMinutes(rhs)?;
            verif_self.minutes =
                Span::verif_try_checked_mul_minutes(verif_self.minutes,rhs.abs())?;
        }
        if verif_self.seconds != C(0) {
            let rhs = verif_try_new_SpanSeconds(rhs)?;
            verif_self.seconds =
                Span::verif_try_checked_mul_seconds(verif_self.seconds,rhs.abs())?;
        }
        if verif_self.milliseconds != C(0) {
            let rhs =
                verif_try_new_SpanMilliseconds(rhs)?;
            verif_self.milliseconds = Span::verif_try_checked_mul_milliseconds(verif_self.milliseconds,rhs.abs())?;
        }
        if verif_self.microseconds != C(0) {
            let rhs =
                verif_try_new_SpanMicroseconds(rhs)?;
            verif_self.microseconds = Span::verif_try_checked_mul_microseconds(verif_self.microseconds,rhs.abs())?;
        }
        if verif_self.nanoseconds != C(0) {
            let rhs =
                verif_try_new_SpanNanoseconds(rhs)?;
            verif_self.nanoseconds =
                Span::verif_try_checked_mul_nanoseconds(verif_self.nanoseconds,rhs.abs())?;
        }
        proof { lemma_mul_final(self, verif_self, rhs as int); }

        
        
        
        
        
        
        
        Ok(verif_self)
    }
}

impl Span {
// @fn Span::only_calendar @src src/span.rs:2981
#[verifier::spinoff_prover]

    pub fn only_calendar(self) -> (r: Span)
    requires
        self.wf(),
    ensures
        r.wf(), r.view() == sv_only_calendar(self.view()),
{
        proof { lemma_view(self); }

        let mut span = self;
        span.hours = SpanHours::verif_N(0);
        span.minutes = SpanMinutes::verif_N(0);
        span.seconds = SpanSeconds::verif_N(0);
        span.milliseconds = SpanMilliseconds::verif_N(0);
        span.microseconds = SpanMicroseconds::verif_N(0);
        span.nanoseconds = SpanNanoseconds::verif_N(0);
        if span.sign != C(0)
            && span.years == C(0)
            && span.months == C(0)
            && span.weeks == C(0)
            && span.days == C(0)
        {
            span.sign = Sign::verif_N(0);
        }
        span.units = span.units.only_calendar();
        span
    }
}

impl Span {
// @fn Span::only_time @src src/span.rs:3004
#[verifier::spinoff_prover]

    pub fn only_time(self) -> (r: Span)
    requires
        self.wf(),
    ensures
        r.wf(), r.view() == sv_only_time(self.view()),
{
        proof { lemma_view(self); }

        let mut span = self;
        span.years = SpanYears::verif_N(0);
        span.months = SpanMonths::verif_N(0);
        span.weeks = SpanWeeks::verif_N(0);
        span.days = SpanDays::verif_N(0);
        if span.sign != C(0)
            && span.hours == C(0)
            && span.minutes == C(0)
            && span.seconds == C(0)
            && span.milliseconds == C(0)
            && span.microseconds == C(0)
            && span.nanoseconds == C(0)
        {
            span.sign = Sign::verif_N(0);
        }
        span.units = span.units.only_time();
        span
    }
}

impl Span {
// @fn Span::largest_unit @src src/span.rs:3125
#[verifier::spinoff_prover]

    pub fn largest_unit(&self) -> (r: Unit)
    requires
        self.wf(),
    ensures
        unit_rank(r) == sv_top(self.view()),
{
        proof { lemma_units(*self); lemma_view(*self); }

        self.units().largest_unit().unwrap_or(Unit::Nanosecond)
    }
}

impl Span {
// @fn Span::units @src src/span.rs:3131
#[verifier::spinoff_prover]

    pub fn units(&self) -> (r: UnitSet)
    ensures
        r == self.units,
{
        self.units
    }
}

impl Span {
// @fn Span::try_units_ranged @src src/span.rs:2631
#[verifier::spinoff_prover]

    pub fn try_units_ranged(
        self,
        unit: Unit,
        value: NoUnits,
    ) -> (r: Result<Span, Error>)
    requires
        self.wf(),
    ensures
        r.is_ok() <==> in_limit(unit_rank(unit), value.val as int),
    r.is_ok() ==> r.unwrap().wf() && r.unwrap().view() == spec_set(self.view(), unit_rank(unit), value.val as int),
{
        Ok(match unit {
            Unit::Year => self.years_ranged(Span::verif_try_rinto_arg_years_ranged(value)?),
            Unit::Month => self.months_ranged(Span::verif_try_rinto_arg_months_ranged(value)?),
            Unit::Week => self.weeks_ranged(Span::verif_try_rinto_arg_weeks_ranged(value)?),
            Unit::Day => self.days_ranged(Span::verif_try_rinto_arg_days_ranged(value)?),
            Unit::Hour => self.hours_ranged(Span::verif_try_rinto_arg_hours_ranged(value)?),
            Unit::Minute => self.minutes_ranged(Span::verif_try_rinto_arg_minutes_ranged(value)?),
            Unit::Second => self.seconds_ranged(Span::verif_try_rinto_arg_seconds_ranged(value)?),
            Unit::Millisecond => {
                self.milliseconds_ranged(Span::verif_try_rinto_arg_milliseconds_ranged(value)?)
            }
            Unit::Microsecond => {
                self.microseconds_ranged(Span::verif_try_rinto_arg_microseconds_ranged(value)?)
            }
            Unit::Nanosecond => {
                self.nanoseconds_ranged(Span::verif_try_rinto_arg_nanoseconds_ranged(value)?)
            }
        })
    }
}

impl Span {
// @fn Span::try_days_ranged @src src/span.rs:2568
#[verifier::spinoff_prover]

    pub fn try_days_ranged(
        self,
        days: impl TryRInto_SpanDays,
    ) -> (r: Result<Span, Error>)
    requires
        self.wf(),
    ensures
        r.is_ok() <==> in_SpanDays(days.try_rinto_val()),
    r.is_ok() ==> r.unwrap().wf() && r.unwrap().view() == spec_set(self.view(), 6, days.try_rinto_val()),
{
        let days = days.try_rinto("days")?;
        Ok(self.days_ranged(days))
    }
}

impl Span {
// @fn Span::try_hours_ranged @src src/span.rs:2577
#[verifier::spinoff_prover]

    pub fn try_hours_ranged(
        self,
        hours: impl TryRInto_SpanHours,
    ) -> (r: Result<Span, Error>)
    requires
        self.wf(),
    ensures
        r.is_ok() <==> in_SpanHours(hours.try_rinto_val()),
    r.is_ok() ==> r.unwrap().wf() && r.unwrap().view() == spec_set(self.view(), 5, hours.try_rinto_val()),
{
        let hours = hours.try_rinto("hours")?;
        Ok(self.hours_ranged(hours))
    }
}

impl Span {
// @fn Span::try_minutes_ranged @src src/span.rs:2586
#[verifier::spinoff_prover]

    pub fn try_minutes_ranged(
        self,
        minutes: impl TryRInto_SpanMinutes,
    ) -> (r: Result<Span, Error>)
    requires
        self.wf(),
    ensures
        r.is_ok() <==> in_SpanMinutes(minutes.try_rinto_val()),
    r.is_ok() ==> r.unwrap().wf() && r.unwrap().view() == spec_set(self.view(), 4, minutes.try_rinto_val()),
{
        let minutes = minutes.try_rinto("minutes")?;
        Ok(self.minutes_ranged(minutes))
    }
}

impl Span {
// @fn Span::try_seconds_ranged @src src/span.rs:2595
#[verifier::spinoff_prover]

    pub fn try_seconds_ranged(
        self,
        seconds: impl TryRInto_SpanSeconds,
    ) -> (r: Result<Span, Error>)
    requires
        self.wf(),
    ensures
        r.is_ok() <==> in_SpanSeconds(seconds.try_rinto_val()),
    r.is_ok() ==> r.unwrap().wf() && r.unwrap().view() == spec_set(self.view(), 3, seconds.try_rinto_val()),
{
        let seconds = seconds.try_rinto("seconds")?;
        Ok(self.seconds_ranged(seconds))
    }
}

impl Span {
// @fn Span::try_milliseconds_ranged @src src/span.rs:2604
#[verifier::spinoff_prover]

    pub fn try_milliseconds_ranged(
        self,
        milliseconds: impl TryRInto_SpanMilliseconds,
    ) -> (r: Result<Span, Error>)
    requires
        self.wf(),
    ensures
        r.is_ok() <==> in_SpanMilliseconds(milliseconds.try_rinto_val()),
    r.is_ok() ==> r.unwrap().wf() && r.unwrap().view() == spec_set(self.view(), 2, milliseconds.try_rinto_val()),
{
        let milliseconds = milliseconds.try_rinto("milliseconds")?;
        Ok(self.milliseconds_ranged(milliseconds))
    }
}

impl Span {
// @fn Span::try_microseconds_ranged @src src/span.rs:2613
#[verifier::spinoff_prover]

    pub fn try_microseconds_ranged(
        self,
        microseconds: impl TryRInto_SpanMicroseconds,
    ) -> (r: Result<Span, Error>)
    requires
        self.wf(),
    ensures
        r.is_ok() <==> in_SpanMicroseconds(microseconds.try_rinto_val()),
    r.is_ok() ==> r.unwrap().wf() && r.unwrap().view() == spec_set(self.view(), 1, microseconds.try_rinto_val()),
{
        let microseconds = microseconds.try_rinto("microseconds")?;
        Ok(self.microseconds_ranged(microseconds))
    }
}

impl Span {
// @fn Span::try_nanoseconds_ranged @src src/span.rs:2622
#[verifier::spinoff_prover]

    pub fn try_nanoseconds_ranged(
        self,
        nanoseconds: impl TryRInto_SpanNanoseconds,
    ) -> (r: Result<Span, Error>)
    requires
        self.wf(),
    ensures
        r.is_ok() <==> in_SpanNanoseconds(nanoseconds.try_rinto_val()),
    r.is_ok() ==> r.unwrap().wf() && r.unwrap().view() == spec_set(self.view(), 0, nanoseconds.try_rinto_val()),
{
        let nanoseconds = nanoseconds.try_rinto("nanoseconds")?;
        Ok(self.nanoseconds_ranged(nanoseconds))
    }
}

impl Span {
// @fn Span::without_lower @src src/span.rs:3063
#[verifier::spinoff_prover]

    pub fn without_lower(self, unit: Unit) -> (r: Span)
    requires
        self.wf(),
    ensures
        r.wf(), r.view() == sv_from(self.view(), unit_rank(unit)),
{
        proof { lemma_set_zero_all(); }

        let mut span = self;
        if unit > Unit::Nanosecond {
            span = span.nanoseconds_ranged(C(0).rinto());
        }
        if unit > Unit::Microsecond {
            span = span.microseconds_ranged(C(0).rinto());
        }
        if unit > Unit::Millisecond {
            span = span.milliseconds_ranged(C(0).rinto());
        }
        if unit > Unit::Second {
            span = span.seconds_ranged(C(0).rinto());
        }
        if unit > Unit::Minute {
            span = span.minutes_ranged(C(0).rinto());
        }
        if unit > Unit::Hour {
            span = span.hours_ranged(C(0).rinto());
        }
        if unit > Unit::Day {
            span = span.days_ranged(C(0).rinto());
        }
        if unit > Unit::Week {
            span = span.weeks_ranged(C(0).rinto());
        }
        if unit > Unit::Month {
            span = span.months_ranged(C(0).rinto());
        }
        
        span
    }
}

impl Span {
// @fn Span::fieldwise @src src/span.rs:1450
#[verifier::spinoff_prover]

    pub fn fieldwise(self) -> (r: SpanFieldwise)
    ensures
        r.0 == self,
{
        SpanFieldwise(self)
    }
}

#[derive(Clone, Copy)] pub struct SpanFieldwise(pub Span);

impl PartialEq for SpanFieldwise {
// @fn <SpanFieldwise as PartialEq>::eq @src src/span.rs:3781
fn eq(&self, rhs: &SpanFieldwise) -> bool
{
        self.0.sign == rhs.0.sign
            && self.0.years == rhs.0.years
            && self.0.months == rhs.0.months
            && self.0.weeks == rhs.0.weeks
            && self.0.days == rhs.0.days
            && self.0.hours == rhs.0.hours
            && self.0.minutes == rhs.0.minutes
            && self.0.seconds == rhs.0.seconds
            && self.0.milliseconds == rhs.0.milliseconds
            && self.0.microseconds == rhs.0.microseconds
            && self.0.nanoseconds == rhs.0.nanoseconds
    }
}

// ==== end extracted ====


} // verus!
fn main() {}
