#![allow(unused, non_snake_case, non_upper_case_globals)]
use vstd::prelude::*;
verus! {
// ---- include lib/stdspecs.vrs ----
// Specifications of core integer methods that vstd 0.2026.09.13 does not provide (trusted; each mirrors the std documentation).
// Included by every unit so that an edited body that starts using one of them is still decided.
pub assume_specification[ i8::div_euclid ](x: i8, y: i8) -> (r: i8) requires y != 0, !(x == i8::MIN && y == -1), ensures y > 0 ==> r as int == (x as int) / (y as int);
pub assume_specification[ i8::rem_euclid ](x: i8, y: i8) -> (r: i8) requires y != 0, !(x == i8::MIN && y == -1), ensures y > 0 ==> r as int == (x as int) % (y as int), y < 0 ==> r as int == (x as int) % (-(y as int));
pub assume_specification[ i8::abs ](x: i8) -> (r: i8) requires x != i8::MIN, ensures r as int == (if x < 0 { -(x as int) } else { x as int });
pub assume_specification[ i8::signum ](x: i8) -> (r: i8) ensures r == (if x > 0 { 1int } else if x < 0 { -1int } else { 0int });
pub assume_specification[ i8::is_positive ](x: i8) -> (r: bool) ensures r == (x > 0);
pub assume_specification[ i8::is_negative ](x: i8) -> (r: bool) ensures r == (x < 0);
pub assume_specification[ i8::checked_neg ](x: i8) -> (r: Option<i8>) ensures x == i8::MIN ==> r.is_none(), x != i8::MIN ==> r == Some((-x) as i8);
pub assume_specification[ i8::saturating_add ](x: i8, y: i8) -> (r: i8) ensures i8::MIN <= x + y <= i8::MAX ==> r == x + y, x + y > i8::MAX ==> r == i8::MAX, x + y < i8::MIN ==> r == i8::MIN;
pub assume_specification[ i8::saturating_sub ](x: i8, y: i8) -> (r: i8) ensures i8::MIN <= x - y <= i8::MAX ==> r == x - y, x - y > i8::MAX ==> r == i8::MAX, x - y < i8::MIN ==> r == i8::MIN;
pub assume_specification[ i8::saturating_neg ](x: i8) -> (r: i8) ensures x == i8::MIN ==> r == i8::MAX, x != i8::MIN ==> r == -x;
pub assume_specification[ i8::unsigned_abs ](x: i8) -> (r: u8) ensures r as int == (if x < 0 { -(x as int) } else { x as int });
pub assume_specification[ i8::checked_abs ](x: i8) -> (r: Option<i8>) ensures x == i8::MIN ==> r.is_none(), x != i8::MIN ==> r == Some((if x < 0 { -x } else { x as int }) as i8);
pub assume_specification[ i16::div_euclid ](x: i16, y: i16) -> (r: i16) requires y != 0, !(x == i16::MIN && y == -1), ensures y > 0 ==> r as int == (x as int) / (y as int);
pub assume_specification[ i16::rem_euclid ](x: i16, y: i16) -> (r: i16) requires y != 0, !(x == i16::MIN && y == -1), ensures y > 0 ==> r as int == (x as int) % (y as int), y < 0 ==> r as int == (x as int) % (-(y as int));
pub assume_specification[ i16::abs ](x: i16) -> (r: i16) requires x != i16::MIN, ensures r as int == (if x < 0 { -(x as int) } else { x as int });
pub assume_specification[ i16::signum ](x: i16) -> (r: i16) ensures r == (if x > 0 { 1int } else if x < 0 { -1int } else { 0int });
pub assume_specification[ i16::is_positive ](x: i16) -> (r: bool) ensures r == (x > 0);
pub assume_specification[ i16::is_negative ](x: i16) -> (r: bool) ensures r == (x < 0);
pub assume_specification[ i16::checked_neg ](x: i16) -> (r: Option<i16>) ensures x == i16::MIN ==> r.is_none(), x != i16::MIN ==> r == Some((-x) as i16);
pub assume_specification[ i16::saturating_add ](x: i16, y: i16) -> (r: i16) ensures i16::MIN <= x + y <= i16::MAX ==> r == x + y, x + y > i16::MAX ==> r == i16::MAX, x + y < i16::MIN ==> r == i16::MIN;
pub assume_specification[ i16::saturating_sub ](x: i16, y: i16) -> (r: i16) ensures i16::MIN <= x - y <= i16::MAX ==> r == x - y, x - y > i16::MAX ==> r == i16::MAX, x - y < i16::MIN ==> r == i16::MIN;
pub assume_specification[ i16::saturating_neg ](x: i16) -> (r: i16) ensures x == i16::MIN ==> r == i16::MAX, x != i16::MIN ==> r == -x;
pub assume_specification[ i16::unsigned_abs ](x: i16) -> (r: u16) ensures r as int == (if x < 0 { -(x as int) } else { x as int });
pub assume_specification[ i16::checked_abs ](x: i16) -> (r: Option<i16>) ensures x == i16::MIN ==> r.is_none(), x != i16::MIN ==> r == Some((if x < 0 { -x } else { x as int }) as i16);
pub assume_specification[ i32::div_euclid ](x: i32, y: i32) -> (r: i32) requires y != 0, !(x == i32::MIN && y == -1), ensures y > 0 ==> r as int == (x as int) / (y as int);
pub assume_specification[ i32::rem_euclid ](x: i32, y: i32) -> (r: i32) requires y != 0, !(x == i32::MIN && y == -1), ensures y > 0 ==> r as int == (x as int) % (y as int), y < 0 ==> r as int == (x as int) % (-(y as int));
pub assume_specification[ i32::abs ](x: i32) -> (r: i32) requires x != i32::MIN, ensures r as int == (if x < 0 { -(x as int) } else { x as int });
pub assume_specification[ i32::signum ](x: i32) -> (r: i32) ensures r == (if x > 0 { 1int } else if x < 0 { -1int } else { 0int });
pub assume_specification[ i32::is_positive ](x: i32) -> (r: bool) ensures r == (x > 0);
pub assume_specification[ i32::is_negative ](x: i32) -> (r: bool) ensures r == (x < 0);
pub assume_specification[ i32::checked_neg ](x: i32) -> (r: Option<i32>) ensures x == i32::MIN ==> r.is_none(), x != i32::MIN ==> r == Some((-x) as i32);
pub assume_specification[ i32::saturating_add ](x: i32, y: i32) -> (r: i32) ensures i32::MIN <= x + y <= i32::MAX ==> r == x + y, x + y > i32::MAX ==> r == i32::MAX, x + y < i32::MIN ==> r == i32::MIN;
pub assume_specification[ i32::saturating_sub ](x: i32, y: i32) -> (r: i32) ensures i32::MIN <= x - y <= i32::MAX ==> r == x - y, x - y > i32::MAX ==> r == i32::MAX, x - y < i32::MIN ==> r == i32::MIN;
pub assume_specification[ i32::saturating_neg ](x: i32) -> (r: i32) ensures x == i32::MIN ==> r == i32::MAX, x != i32::MIN ==> r == -x;
pub assume_specification[ i32::unsigned_abs ](x: i32) -> (r: u32) ensures r as int == (if x < 0 { -(x as int) } else { x as int });
pub assume_specification[ i32::checked_abs ](x: i32) -> (r: Option<i32>) ensures x == i32::MIN ==> r.is_none(), x != i32::MIN ==> r == Some((if x < 0 { -x } else { x as int }) as i32);
pub assume_specification[ i64::div_euclid ](x: i64, y: i64) -> (r: i64) requires y != 0, !(x == i64::MIN && y == -1), ensures y > 0 ==> r as int == (x as int) / (y as int);
pub assume_specification[ i64::rem_euclid ](x: i64, y: i64) -> (r: i64) requires y != 0, !(x == i64::MIN && y == -1), ensures y > 0 ==> r as int == (x as int) % (y as int), y < 0 ==> r as int == (x as int) % (-(y as int));
pub assume_specification[ i64::abs ](x: i64) -> (r: i64) requires x != i64::MIN, ensures r as int == (if x < 0 { -(x as int) } else { x as int });
pub assume_specification[ i64::signum ](x: i64) -> (r: i64) ensures r == (if x > 0 { 1int } else if x < 0 { -1int } else { 0int });
pub assume_specification[ i64::is_positive ](x: i64) -> (r: bool) ensures r == (x > 0);
pub assume_specification[ i64::is_negative ](x: i64) -> (r: bool) ensures r == (x < 0);
pub assume_specification[ i64::checked_neg ](x: i64) -> (r: Option<i64>) ensures x == i64::MIN ==> r.is_none(), x != i64::MIN ==> r == Some((-x) as i64);
pub assume_specification[ i64::saturating_add ](x: i64, y: i64) -> (r: i64) ensures i64::MIN <= x + y <= i64::MAX ==> r == x + y, x + y > i64::MAX ==> r == i64::MAX, x + y < i64::MIN ==> r == i64::MIN;
pub assume_specification[ i64::saturating_sub ](x: i64, y: i64) -> (r: i64) ensures i64::MIN <= x - y <= i64::MAX ==> r == x - y, x - y > i64::MAX ==> r == i64::MAX, x - y < i64::MIN ==> r == i64::MIN;
pub assume_specification[ i64::saturating_neg ](x: i64) -> (r: i64) ensures x == i64::MIN ==> r == i64::MAX, x != i64::MIN ==> r == -x;
pub assume_specification[ i64::unsigned_abs ](x: i64) -> (r: u64) ensures r as int == (if x < 0 { -(x as int) } else { x as int });
pub assume_specification[ i64::checked_abs ](x: i64) -> (r: Option<i64>) ensures x == i64::MIN ==> r.is_none(), x != i64::MIN ==> r == Some((if x < 0 { -x } else { x as int }) as i64);
pub assume_specification[ i128::div_euclid ](x: i128, y: i128) -> (r: i128) requires y != 0, !(x == i128::MIN && y == -1), ensures y > 0 ==> r as int == (x as int) / (y as int);
pub assume_specification[ i128::rem_euclid ](x: i128, y: i128) -> (r: i128) requires y != 0, !(x == i128::MIN && y == -1), ensures y > 0 ==> r as int == (x as int) % (y as int), y < 0 ==> r as int == (x as int) % (-(y as int));
pub assume_specification[ i128::abs ](x: i128) -> (r: i128) requires x != i128::MIN, ensures r as int == (if x < 0 { -(x as int) } else { x as int });
pub assume_specification[ i128::signum ](x: i128) -> (r: i128) ensures r == (if x > 0 { 1int } else if x < 0 { -1int } else { 0int });
pub assume_specification[ i128::is_positive ](x: i128) -> (r: bool) ensures r == (x > 0);
pub assume_specification[ i128::is_negative ](x: i128) -> (r: bool) ensures r == (x < 0);
pub assume_specification[ i128::checked_neg ](x: i128) -> (r: Option<i128>) ensures x == i128::MIN ==> r.is_none(), x != i128::MIN ==> r == Some((-x) as i128);
pub assume_specification[ i128::saturating_add ](x: i128, y: i128) -> (r: i128) ensures i128::MIN <= x + y <= i128::MAX ==> r == x + y, x + y > i128::MAX ==> r == i128::MAX, x + y < i128::MIN ==> r == i128::MIN;
pub assume_specification[ i128::saturating_sub ](x: i128, y: i128) -> (r: i128) ensures i128::MIN <= x - y <= i128::MAX ==> r == x - y, x - y > i128::MAX ==> r == i128::MAX, x - y < i128::MIN ==> r == i128::MIN;
pub assume_specification[ i128::saturating_neg ](x: i128) -> (r: i128) ensures x == i128::MIN ==> r == i128::MAX, x != i128::MIN ==> r == -x;
pub assume_specification[ i128::unsigned_abs ](x: i128) -> (r: u128) ensures r as int == (if x < 0 { -(x as int) } else { x as int });
pub assume_specification[ i128::checked_abs ](x: i128) -> (r: Option<i128>) ensures x == i128::MIN ==> r.is_none(), x != i128::MIN ==> r == Some((if x < 0 { -x } else { x as int }) as i128);

// ---- include lib/rangeint.vrs ----
// GENERATED by lib/gen_rangeint.py -- the rangeint model (T2).  Do not edit by hand.
use vstd::std_specs::cmp::*;
use vstd::std_specs::ops::*;
use core::cmp::Ordering;

#[derive(Clone, Copy)]
pub struct Constant(pub i64);
#[allow(non_snake_case)]
pub fn C(v: i64) -> (r: ri64) ensures r.val == v { ri64 { val: v } }
#[allow(non_snake_case)]
pub fn C128(v: i64) -> (r: ri128) ensures r.val == v { ri128 { val: v as i128 } }
impl Constant {
    pub fn value(self) -> (r: i64) ensures r == self.0 { self.0 }
    pub fn bound(self) -> (r: i128) ensures r == self.0 { self.0 as i128 }
}
pub open spec fn int_cmp(a: int, b: int) -> Ordering { if a < b { Ordering::Less } else if a > b { Ordering::Greater } else { Ordering::Equal } }
/// truncating division / remainder (Rust `/`, `%` on primitives), b != 0
pub open spec fn tdiv(a: int, b: int) -> int {
    if b > 0 { if a >= 0 { a / b } else { -((-a) / b) } } else { if a >= 0 { -(a / (-b)) } else { (-a) / (-b) } }
}
pub open spec fn trem(a: int, b: int) -> int { a - tdiv(a, b) * b }

pub trait RInto<T>: Sized {
    spec fn rinto_spec(self) -> T;
    spec fn rinto_req(self) -> bool;
    fn rinto(self) -> (r: T) requires self.rinto_req() ensures r == self.rinto_spec();
}
pub trait RFrom<T>: Sized {
    spec fn rfrom_spec(t: T) -> Self;
    spec fn rfrom_req(t: T) -> bool;
    fn rfrom(t: T) -> (r: Self) requires Self::rfrom_req(t) ensures r == Self::rfrom_spec(t);
}


// ------------------------------------------------------------------ ri8
#[derive(Clone, Copy)]
pub struct ri8 { pub val: i8 }
impl ri8 {
    pub fn new_unchecked(val: i8) -> (r: Self) ensures r.val == val { ri8 { val } }
    pub fn get(self) -> (r: i8) ensures r == self.val { self.val }
    pub fn get_unchecked(self) -> (r: i8) ensures r == self.val { self.val }
    pub fn without_bounds(self) -> (r: Self) ensures r == self { self }
    // `T::N::<VAL>()` is rewritten to `T::verif_N(VAL)`: the constant VAL (release: `Self { val: VAL }`, no bound is consulted).
    // (Not modelled with a const generic: Verus 0.2026.09.13 derives `false` from a negative const generic argument.)
    pub const fn verif_N(v: i8) -> (r: Self) ensures r.val == v { ri8 { val: v } }
    #[verifier::external_body]
    pub fn abs(self) -> (r: Self)
        requires self.val > i8::MIN,
        ensures r.val == (if self.val < 0 { -self.val } else { self.val as int })
    { unimplemented!() }
    // real: returns `riN<-1, 1>` of the SAME width
    pub fn signum(self) -> (r: Self) ensures r.val == (if self.val < 0 { -1int } else if self.val > 0 { 1int } else { 0int })
    { if self.val < 0 { ri8 { val: -1 } } else if self.val > 0 { ri8 { val: 1 } } else { ri8 { val: 0 } } }
    pub fn min<R: RInto<Self>>(self, other: R) -> (r: Self)
        requires other.rinto_req(),
        ensures r.val == (if other.rinto_spec().val < self.val { other.rinto_spec().val } else { self.val })
    { let o = other.rinto(); if o.val < self.val { o } else { self } }
    pub fn max<R: RInto<Self>>(self, other: R) -> (r: Self)
        requires other.rinto_req(),
        ensures r.val == (if other.rinto_spec().val > self.val { other.rinto_spec().val } else { self.val })
    { let o = other.rinto(); if o.val > self.val { o } else { self } }
    // truncating
    #[verifier::external_body]
    pub fn div_ceil<R: RInto<Self>>(self, rhs: R) -> (r: Self)
        requires rhs.rinto_req(), rhs.rinto_spec().val != 0, !(self.val == i8::MIN && rhs.rinto_spec().val == -1),
        ensures r.val == tdiv(self.val as int, rhs.rinto_spec().val as int)
    { unimplemented!() }
    #[verifier::external_body]
    pub fn rem_ceil<R: RInto<Self>>(self, rhs: R) -> (r: Self)
        requires rhs.rinto_req(), rhs.rinto_spec().val != 0, !(self.val == i8::MIN && rhs.rinto_spec().val == -1),
        ensures r.val == trem(self.val as int, rhs.rinto_spec().val as int)
    { unimplemented!() }
    // Euclidean (divisor > 0 required here; every use in jiff divides by a positive quantity)
    #[verifier::external_body]
    pub fn div_floor<R: RInto<Self>>(self, rhs: R) -> (r: Self)
        requires rhs.rinto_req(), rhs.rinto_spec().val > 0,
        ensures r.val == (self.val as int) / (rhs.rinto_spec().val as int)
    { unimplemented!() }
    #[verifier::external_body]
    pub fn rem_floor<R: RInto<Self>>(self, rhs: R) -> (r: Self)
        requires rhs.rinto_req(), rhs.rinto_spec().val > 0,
        ensures r.val == (self.val as int) % (rhs.rinto_spec().val as int)
    { unimplemented!() }
    #[verifier::external_body]
    pub fn saturating_mul<R: RInto<Self>>(self, rhs: R) -> (r: Self)
        requires rhs.rinto_req(),
        ensures i8::MIN <= self.val * rhs.rinto_spec().val <= i8::MAX ==> r.val == self.val * rhs.rinto_spec().val,
                self.val * rhs.rinto_spec().val > i8::MAX ==> r.val == i8::MAX,
                self.val * rhs.rinto_spec().val < i8::MIN ==> r.val == i8::MIN,
    { unimplemented!() }
    #[verifier::external_body]
    pub fn saturating_add<R: RInto<Self>>(self, rhs: R) -> (r: Self)
        requires rhs.rinto_req(),
        ensures i8::MIN <= self.val + rhs.rinto_spec().val <= i8::MAX ==> r.val == self.val + rhs.rinto_spec().val,
                self.val + rhs.rinto_spec().val > i8::MAX ==> r.val == i8::MAX,
                self.val + rhs.rinto_spec().val < i8::MIN ==> r.val == i8::MIN,
    { unimplemented!() }
}
// `type Range = ri8<{ LO }, { HI }>; Range::try_new("what", v)`: the bounds of an anonymous range are passed explicitly
#[verifier::external_body]
pub fn verif_try_new_range_8(lo: i128, hi: i128, v: i64) -> (res: Result<ri8, Error>)
    requires i8::MIN <= lo, hi <= i8::MAX,
    ensures res.is_ok() <==> lo <= v <= hi, res.is_ok() ==> res.unwrap().val == v
{ unimplemented!() }
impl RInto<ri8> for ri8 {
    open spec fn rinto_spec(self) -> ri8 { self }
    open spec fn rinto_req(self) -> bool { true }
    fn rinto(self) -> (r: ri8) { self }
}
impl RFrom<ri8> for ri8 {
    open spec fn rfrom_spec(t: ri8) -> ri8 { t }
    open spec fn rfrom_req(t: ri8) -> bool { true }
    fn rfrom(t: ri8) -> (r: ri8) { t }
}
impl RInto<ri8> for Constant {
    open spec fn rinto_spec(self) -> ri8 { ri8 { val: self.0 as i8 } }
    open spec fn rinto_req(self) -> bool { i8::MIN <= self.0 <= i8::MAX }
    #[verifier::external_body]
    fn rinto(self) -> (r: ri8) { unimplemented!() }
}
impl RFrom<Constant> for ri8 {
    open spec fn rfrom_spec(t: Constant) -> ri8 { ri8 { val: t.0 as i8 } }
    open spec fn rfrom_req(t: Constant) -> bool { i8::MIN <= t.0 <= i8::MAX }
    #[verifier::external_body]
    fn rfrom(t: Constant) -> (r: ri8) { unimplemented!() }
}
impl RInto<i8> for ri8 {
    open spec fn rinto_spec(self) -> i8 { self.val }
    open spec fn rinto_req(self) -> bool { true }
    fn rinto(self) -> (r: i8) { self.val }
}

impl PartialEqSpecImpl<ri8> for ri8 {
    open spec fn obeys_eq_spec() -> bool { true }
    open spec fn eq_spec(&self, other: &ri8) -> bool { self.val == other.val }
}
impl PartialEq<ri8> for ri8 {
    #[verifier::external_body]
    fn eq(&self, other: &ri8) -> bool { unimplemented!() }
}
impl PartialOrdSpecImpl<ri8> for ri8 {
    open spec fn obeys_partial_cmp_spec() -> bool { true }
    open spec fn partial_cmp_spec(&self, other: &ri8) -> Option<Ordering> { Some(int_cmp(self.val as int, other.val as int)) }
}
impl PartialOrd<ri8> for ri8 {
    #[verifier::external_body]
    fn partial_cmp(&self, other: &ri8) -> Option<Ordering> { unimplemented!() }
}

impl PartialEqSpecImpl<Constant> for ri8 {
    open spec fn obeys_eq_spec() -> bool { true }
    open spec fn eq_spec(&self, other: &Constant) -> bool { self.val == other.0 }
}
impl PartialEq<Constant> for ri8 {
    #[verifier::external_body]
    fn eq(&self, other: &Constant) -> bool { unimplemented!() }
}
impl PartialOrdSpecImpl<Constant> for ri8 {
    open spec fn obeys_partial_cmp_spec() -> bool { true }
    open spec fn partial_cmp_spec(&self, other: &Constant) -> Option<Ordering> { Some(int_cmp(self.val as int, other.0 as int)) }
}
impl PartialOrd<Constant> for ri8 {
    #[verifier::external_body]
    fn partial_cmp(&self, other: &Constant) -> Option<Ordering> { unimplemented!() }
}

impl PartialEqSpecImpl<ri16> for ri8 {
    open spec fn obeys_eq_spec() -> bool { true }
    open spec fn eq_spec(&self, other: &ri16) -> bool { self.val == other.val }
}
impl PartialEq<ri16> for ri8 {
    #[verifier::external_body]
    fn eq(&self, other: &ri16) -> bool { unimplemented!() }
}
impl PartialOrdSpecImpl<ri16> for ri8 {
    open spec fn obeys_partial_cmp_spec() -> bool { true }
    open spec fn partial_cmp_spec(&self, other: &ri16) -> Option<Ordering> { Some(int_cmp(self.val as int, other.val as int)) }
}
impl PartialOrd<ri16> for ri8 {
    #[verifier::external_body]
    fn partial_cmp(&self, other: &ri16) -> Option<Ordering> { unimplemented!() }
}

impl PartialEqSpecImpl<ri32> for ri8 {
    open spec fn obeys_eq_spec() -> bool { true }
    open spec fn eq_spec(&self, other: &ri32) -> bool { self.val == other.val }
}
impl PartialEq<ri32> for ri8 {
    #[verifier::external_body]
    fn eq(&self, other: &ri32) -> bool { unimplemented!() }
}
impl PartialOrdSpecImpl<ri32> for ri8 {
    open spec fn obeys_partial_cmp_spec() -> bool { true }
    open spec fn partial_cmp_spec(&self, other: &ri32) -> Option<Ordering> { Some(int_cmp(self.val as int, other.val as int)) }
}
impl PartialOrd<ri32> for ri8 {
    #[verifier::external_body]
    fn partial_cmp(&self, other: &ri32) -> Option<Ordering> { unimplemented!() }
}

impl PartialEqSpecImpl<ri64> for ri8 {
    open spec fn obeys_eq_spec() -> bool { true }
    open spec fn eq_spec(&self, other: &ri64) -> bool { self.val == other.val }
}
impl PartialEq<ri64> for ri8 {
    #[verifier::external_body]
    fn eq(&self, other: &ri64) -> bool { unimplemented!() }
}
impl PartialOrdSpecImpl<ri64> for ri8 {
    open spec fn obeys_partial_cmp_spec() -> bool { true }
    open spec fn partial_cmp_spec(&self, other: &ri64) -> Option<Ordering> { Some(int_cmp(self.val as int, other.val as int)) }
}
impl PartialOrd<ri64> for ri8 {
    #[verifier::external_body]
    fn partial_cmp(&self, other: &ri64) -> Option<Ordering> { unimplemented!() }
}

impl PartialEqSpecImpl<ri128> for ri8 {
    open spec fn obeys_eq_spec() -> bool { true }
    open spec fn eq_spec(&self, other: &ri128) -> bool { self.val == other.val }
}
impl PartialEq<ri128> for ri8 {
    #[verifier::external_body]
    fn eq(&self, other: &ri128) -> bool { unimplemented!() }
}
impl PartialOrdSpecImpl<ri128> for ri8 {
    open spec fn obeys_partial_cmp_spec() -> bool { true }
    open spec fn partial_cmp_spec(&self, other: &ri128) -> Option<Ordering> { Some(int_cmp(self.val as int, other.val as int)) }
}
impl PartialOrd<ri128> for ri8 {
    #[verifier::external_body]
    fn partial_cmp(&self, other: &ri128) -> Option<Ordering> { unimplemented!() }
}

impl AddSpecImpl<ri8> for ri8 {
    open spec fn obeys_add_spec() -> bool { true }
    open spec fn add_req(self, rhs: ri8) -> bool { i8::MIN <= self.val + rhs.val <= i8::MAX }
    open spec fn add_spec(self, rhs: ri8) -> ri8 { ri8 { val: (self.val + rhs.val) as i8 } }
}
impl core::ops::Add<ri8> for ri8 {
    type Output = ri8;
    #[verifier::external_body]
    fn add(self, rhs: ri8) -> ri8 { unimplemented!() }
}
impl AddAssignSpecImpl<ri8> for ri8 {
    open spec fn obeys_add_assign_spec() -> bool { true }
    open spec fn add_assign_req(&self, rhs: ri8) -> bool { i8::MIN <= self.val + rhs.val <= i8::MAX }
    open spec fn add_assign_spec(&self, rhs: ri8) -> &ri8 { &ri8 { val: (self.val + rhs.val) as i8 } }
}
impl core::ops::AddAssign<ri8> for ri8 {
    #[verifier::external_body]
    fn add_assign(&mut self, rhs: ri8) { unimplemented!() }
}

impl SubSpecImpl<ri8> for ri8 {
    open spec fn obeys_sub_spec() -> bool { true }
    open spec fn sub_req(self, rhs: ri8) -> bool { i8::MIN <= self.val - rhs.val <= i8::MAX }
    open spec fn sub_spec(self, rhs: ri8) -> ri8 { ri8 { val: (self.val - rhs.val) as i8 } }
}
impl core::ops::Sub<ri8> for ri8 {
    type Output = ri8;
    #[verifier::external_body]
    fn sub(self, rhs: ri8) -> ri8 { unimplemented!() }
}
impl SubAssignSpecImpl<ri8> for ri8 {
    open spec fn obeys_sub_assign_spec() -> bool { true }
    open spec fn sub_assign_req(&self, rhs: ri8) -> bool { i8::MIN <= self.val - rhs.val <= i8::MAX }
    open spec fn sub_assign_spec(&self, rhs: ri8) -> &ri8 { &ri8 { val: (self.val - rhs.val) as i8 } }
}
impl core::ops::SubAssign<ri8> for ri8 {
    #[verifier::external_body]
    fn sub_assign(&mut self, rhs: ri8) { unimplemented!() }
}

impl MulSpecImpl<ri8> for ri8 {
    open spec fn obeys_mul_spec() -> bool { true }
    open spec fn mul_req(self, rhs: ri8) -> bool { i8::MIN <= self.val * rhs.val <= i8::MAX }
    open spec fn mul_spec(self, rhs: ri8) -> ri8 { ri8 { val: (self.val * rhs.val) as i8 } }
}
impl core::ops::Mul<ri8> for ri8 {
    type Output = ri8;
    #[verifier::external_body]
    fn mul(self, rhs: ri8) -> ri8 { unimplemented!() }
}
impl MulAssignSpecImpl<ri8> for ri8 {
    open spec fn obeys_mul_assign_spec() -> bool { true }
    open spec fn mul_assign_req(&self, rhs: ri8) -> bool { i8::MIN <= self.val * rhs.val <= i8::MAX }
    open spec fn mul_assign_spec(&self, rhs: ri8) -> &ri8 { &ri8 { val: (self.val * rhs.val) as i8 } }
}
impl core::ops::MulAssign<ri8> for ri8 {
    #[verifier::external_body]
    fn mul_assign(&mut self, rhs: ri8) { unimplemented!() }
}

impl DivSpecImpl<ri8> for ri8 {
    open spec fn obeys_div_spec() -> bool { true }
    open spec fn div_req(self, rhs: ri8) -> bool { rhs.val > 0 }
    open spec fn div_spec(self, rhs: ri8) -> ri8 { ri8 { val: (self.val as int / rhs.val as int) as i8 } }
}
impl core::ops::Div<ri8> for ri8 {
    type Output = ri8;
    #[verifier::external_body]
    fn div(self, rhs: ri8) -> ri8 { unimplemented!() }
}
impl RemSpecImpl<ri8> for ri8 {
    open spec fn obeys_rem_spec() -> bool { true }
    open spec fn rem_req(self, rhs: ri8) -> bool { rhs.val > 0 }
    open spec fn rem_spec(self, rhs: ri8) -> ri8 { ri8 { val: (self.val as int % rhs.val as int) as i8 } }
}
impl core::ops::Rem<ri8> for ri8 {
    type Output = ri8;
    #[verifier::external_body]
    fn rem(self, rhs: ri8) -> ri8 { unimplemented!() }
}

impl AddSpecImpl<Constant> for ri8 {
    open spec fn obeys_add_spec() -> bool { true }
    open spec fn add_req(self, rhs: Constant) -> bool { i8::MIN <= self.val + rhs.0 <= i8::MAX }
    open spec fn add_spec(self, rhs: Constant) -> ri8 { ri8 { val: (self.val + rhs.0) as i8 } }
}
impl core::ops::Add<Constant> for ri8 {
    type Output = ri8;
    #[verifier::external_body]
    fn add(self, rhs: Constant) -> ri8 { unimplemented!() }
}
impl AddAssignSpecImpl<Constant> for ri8 {
    open spec fn obeys_add_assign_spec() -> bool { true }
    open spec fn add_assign_req(&self, rhs: Constant) -> bool { i8::MIN <= self.val + rhs.0 <= i8::MAX }
    open spec fn add_assign_spec(&self, rhs: Constant) -> &ri8 { &ri8 { val: (self.val + rhs.0) as i8 } }
}
impl core::ops::AddAssign<Constant> for ri8 {
    #[verifier::external_body]
    fn add_assign(&mut self, rhs: Constant) { unimplemented!() }
}

impl SubSpecImpl<Constant> for ri8 {
    open spec fn obeys_sub_spec() -> bool { true }
    open spec fn sub_req(self, rhs: Constant) -> bool { i8::MIN <= self.val - rhs.0 <= i8::MAX }
    open spec fn sub_spec(self, rhs: Constant) -> ri8 { ri8 { val: (self.val - rhs.0) as i8 } }
}
impl core::ops::Sub<Constant> for ri8 {
    type Output = ri8;
    #[verifier::external_body]
    fn sub(self, rhs: Constant) -> ri8 { unimplemented!() }
}
impl SubAssignSpecImpl<Constant> for ri8 {
    open spec fn obeys_sub_assign_spec() -> bool { true }
    open spec fn sub_assign_req(&self, rhs: Constant) -> bool { i8::MIN <= self.val - rhs.0 <= i8::MAX }
    open spec fn sub_assign_spec(&self, rhs: Constant) -> &ri8 { &ri8 { val: (self.val - rhs.0) as i8 } }
}
impl core::ops::SubAssign<Constant> for ri8 {
    #[verifier::external_body]
    fn sub_assign(&mut self, rhs: Constant) { unimplemented!() }
}

impl MulSpecImpl<Constant> for ri8 {
    open spec fn obeys_mul_spec() -> bool { true }
    open spec fn mul_req(self, rhs: Constant) -> bool { i8::MIN <= self.val * rhs.0 <= i8::MAX }
    open spec fn mul_spec(self, rhs: Constant) -> ri8 { ri8 { val: (self.val * rhs.0) as i8 } }
}
impl core::ops::Mul<Constant> for ri8 {
    type Output = ri8;
    #[verifier::external_body]
    fn mul(self, rhs: Constant) -> ri8 { unimplemented!() }
}
impl MulAssignSpecImpl<Constant> for ri8 {
    open spec fn obeys_mul_assign_spec() -> bool { true }
    open spec fn mul_assign_req(&self, rhs: Constant) -> bool { i8::MIN <= self.val * rhs.0 <= i8::MAX }
    open spec fn mul_assign_spec(&self, rhs: Constant) -> &ri8 { &ri8 { val: (self.val * rhs.0) as i8 } }
}
impl core::ops::MulAssign<Constant> for ri8 {
    #[verifier::external_body]
    fn mul_assign(&mut self, rhs: Constant) { unimplemented!() }
}

impl DivSpecImpl<Constant> for ri8 {
    open spec fn obeys_div_spec() -> bool { true }
    open spec fn div_req(self, rhs: Constant) -> bool { rhs.0 > 0 }
    open spec fn div_spec(self, rhs: Constant) -> ri8 { ri8 { val: (self.val as int / rhs.0 as int) as i8 } }
}
impl core::ops::Div<Constant> for ri8 {
    type Output = ri8;
    #[verifier::external_body]
    fn div(self, rhs: Constant) -> ri8 { unimplemented!() }
}
impl RemSpecImpl<Constant> for ri8 {
    open spec fn obeys_rem_spec() -> bool { true }
    open spec fn rem_req(self, rhs: Constant) -> bool { rhs.0 > 0 }
    open spec fn rem_spec(self, rhs: Constant) -> ri8 { ri8 { val: (self.val as int % rhs.0 as int) as i8 } }
}
impl core::ops::Rem<Constant> for ri8 {
    type Output = ri8;
    #[verifier::external_body]
    fn rem(self, rhs: Constant) -> ri8 { unimplemented!() }
}

impl AddSpecImpl<ri16> for ri8 {
    open spec fn obeys_add_spec() -> bool { true }
    open spec fn add_req(self, rhs: ri16) -> bool { i8::MIN <= self.val + rhs.val <= i8::MAX }
    open spec fn add_spec(self, rhs: ri16) -> ri8 { ri8 { val: (self.val + rhs.val) as i8 } }
}
impl core::ops::Add<ri16> for ri8 {
    type Output = ri8;
    #[verifier::external_body]
    fn add(self, rhs: ri16) -> ri8 { unimplemented!() }
}
impl AddAssignSpecImpl<ri16> for ri8 {
    open spec fn obeys_add_assign_spec() -> bool { true }
    open spec fn add_assign_req(&self, rhs: ri16) -> bool { i8::MIN <= self.val + rhs.val <= i8::MAX }
    open spec fn add_assign_spec(&self, rhs: ri16) -> &ri8 { &ri8 { val: (self.val + rhs.val) as i8 } }
}
impl core::ops::AddAssign<ri16> for ri8 {
    #[verifier::external_body]
    fn add_assign(&mut self, rhs: ri16) { unimplemented!() }
}

impl SubSpecImpl<ri16> for ri8 {
    open spec fn obeys_sub_spec() -> bool { true }
    open spec fn sub_req(self, rhs: ri16) -> bool { i8::MIN <= self.val - rhs.val <= i8::MAX }
    open spec fn sub_spec(self, rhs: ri16) -> ri8 { ri8 { val: (self.val - rhs.val) as i8 } }
}
impl core::ops::Sub<ri16> for ri8 {
    type Output = ri8;
    #[verifier::external_body]
    fn sub(self, rhs: ri16) -> ri8 { unimplemented!() }
}
impl SubAssignSpecImpl<ri16> for ri8 {
    open spec fn obeys_sub_assign_spec() -> bool { true }
    open spec fn sub_assign_req(&self, rhs: ri16) -> bool { i8::MIN <= self.val - rhs.val <= i8::MAX }
    open spec fn sub_assign_spec(&self, rhs: ri16) -> &ri8 { &ri8 { val: (self.val - rhs.val) as i8 } }
}
impl core::ops::SubAssign<ri16> for ri8 {
    #[verifier::external_body]
    fn sub_assign(&mut self, rhs: ri16) { unimplemented!() }
}

impl MulSpecImpl<ri16> for ri8 {
    open spec fn obeys_mul_spec() -> bool { true }
    open spec fn mul_req(self, rhs: ri16) -> bool { i8::MIN <= self.val * rhs.val <= i8::MAX }
    open spec fn mul_spec(self, rhs: ri16) -> ri8 { ri8 { val: (self.val * rhs.val) as i8 } }
}
impl core::ops::Mul<ri16> for ri8 {
    type Output = ri8;
    #[verifier::external_body]
    fn mul(self, rhs: ri16) -> ri8 { unimplemented!() }
}
impl MulAssignSpecImpl<ri16> for ri8 {
    open spec fn obeys_mul_assign_spec() -> bool { true }
    open spec fn mul_assign_req(&self, rhs: ri16) -> bool { i8::MIN <= self.val * rhs.val <= i8::MAX }
    open spec fn mul_assign_spec(&self, rhs: ri16) -> &ri8 { &ri8 { val: (self.val * rhs.val) as i8 } }
}
impl core::ops::MulAssign<ri16> for ri8 {
    #[verifier::external_body]
    fn mul_assign(&mut self, rhs: ri16) { unimplemented!() }
}

impl DivSpecImpl<ri16> for ri8 {
    open spec fn obeys_div_spec() -> bool { true }
    open spec fn div_req(self, rhs: ri16) -> bool { rhs.val > 0 }
    open spec fn div_spec(self, rhs: ri16) -> ri8 { ri8 { val: (self.val as int / rhs.val as int) as i8 } }
}
impl core::ops::Div<ri16> for ri8 {
    type Output = ri8;
    #[verifier::external_body]
    fn div(self, rhs: ri16) -> ri8 { unimplemented!() }
}
impl RemSpecImpl<ri16> for ri8 {
    open spec fn obeys_rem_spec() -> bool { true }
    open spec fn rem_req(self, rhs: ri16) -> bool { rhs.val > 0 }
    open spec fn rem_spec(self, rhs: ri16) -> ri8 { ri8 { val: (self.val as int % rhs.val as int) as i8 } }
}
impl core::ops::Rem<ri16> for ri8 {
    type Output = ri8;
    #[verifier::external_body]
    fn rem(self, rhs: ri16) -> ri8 { unimplemented!() }
}

impl AddSpecImpl<ri32> for ri8 {
    open spec fn obeys_add_spec() -> bool { true }
    open spec fn add_req(self, rhs: ri32) -> bool { i8::MIN <= self.val + rhs.val <= i8::MAX }
    open spec fn add_spec(self, rhs: ri32) -> ri8 { ri8 { val: (self.val + rhs.val) as i8 } }
}
impl core::ops::Add<ri32> for ri8 {
    type Output = ri8;
    #[verifier::external_body]
    fn add(self, rhs: ri32) -> ri8 { unimplemented!() }
}
impl AddAssignSpecImpl<ri32> for ri8 {
    open spec fn obeys_add_assign_spec() -> bool { true }
    open spec fn add_assign_req(&self, rhs: ri32) -> bool { i8::MIN <= self.val + rhs.val <= i8::MAX }
    open spec fn add_assign_spec(&self, rhs: ri32) -> &ri8 { &ri8 { val: (self.val + rhs.val) as i8 } }
}
impl core::ops::AddAssign<ri32> for ri8 {
    #[verifier::external_body]
    fn add_assign(&mut self, rhs: ri32) { unimplemented!() }
}

impl SubSpecImpl<ri32> for ri8 {
    open spec fn obeys_sub_spec() -> bool { true }
    open spec fn sub_req(self, rhs: ri32) -> bool { i8::MIN <= self.val - rhs.val <= i8::MAX }
    open spec fn sub_spec(self, rhs: ri32) -> ri8 { ri8 { val: (self.val - rhs.val) as i8 } }
}
impl core::ops::Sub<ri32> for ri8 {
    type Output = ri8;
    #[verifier::external_body]
    fn sub(self, rhs: ri32) -> ri8 { unimplemented!() }
}
impl SubAssignSpecImpl<ri32> for ri8 {
    open spec fn obeys_sub_assign_spec() -> bool { true }
    open spec fn sub_assign_req(&self, rhs: ri32) -> bool { i8::MIN <= self.val - rhs.val <= i8::MAX }
    open spec fn sub_assign_spec(&self, rhs: ri32) -> &ri8 { &ri8 { val: (self.val - rhs.val) as i8 } }
}
impl core::ops::SubAssign<ri32> for ri8 {
    #[verifier::external_body]
    fn sub_assign(&mut self, rhs: ri32) { unimplemented!() }
}

impl MulSpecImpl<ri32> for ri8 {
    open spec fn obeys_mul_spec() -> bool { true }
    open spec fn mul_req(self, rhs: ri32) -> bool { i8::MIN <= self.val * rhs.val <= i8::MAX }
    open spec fn mul_spec(self, rhs: ri32) -> ri8 { ri8 { val: (self.val * rhs.val) as i8 } }
}
impl core::ops::Mul<ri32> for ri8 {
    type Output = ri8;
    #[verifier::external_body]
    fn mul(self, rhs: ri32) -> ri8 { unimplemented!() }
}
impl MulAssignSpecImpl<ri32> for ri8 {
    open spec fn obeys_mul_assign_spec() -> bool { true }
    open spec fn mul_assign_req(&self, rhs: ri32) -> bool { i8::MIN <= self.val * rhs.val <= i8::MAX }
    open spec fn mul_assign_spec(&self, rhs: ri32) -> &ri8 { &ri8 { val: (self.val * rhs.val) as i8 } }
}
impl core::ops::MulAssign<ri32> for ri8 {
    #[verifier::external_body]
    fn mul_assign(&mut self, rhs: ri32) { unimplemented!() }
}

impl DivSpecImpl<ri32> for ri8 {
    open spec fn obeys_div_spec() -> bool { true }
    open spec fn div_req(self, rhs: ri32) -> bool { rhs.val > 0 }
    open spec fn div_spec(self, rhs: ri32) -> ri8 { ri8 { val: (self.val as int / rhs.val as int) as i8 } }
}
impl core::ops::Div<ri32> for ri8 {
    type Output = ri8;
    #[verifier::external_body]
    fn div(self, rhs: ri32) -> ri8 { unimplemented!() }
}
impl RemSpecImpl<ri32> for ri8 {
    open spec fn obeys_rem_spec() -> bool { true }
    open spec fn rem_req(self, rhs: ri32) -> bool { rhs.val > 0 }
    open spec fn rem_spec(self, rhs: ri32) -> ri8 { ri8 { val: (self.val as int % rhs.val as int) as i8 } }
}
impl core::ops::Rem<ri32> for ri8 {
    type Output = ri8;
    #[verifier::external_body]
    fn rem(self, rhs: ri32) -> ri8 { unimplemented!() }
}

impl AddSpecImpl<ri64> for ri8 {
    open spec fn obeys_add_spec() -> bool { true }
    open spec fn add_req(self, rhs: ri64) -> bool { i8::MIN <= self.val + rhs.val <= i8::MAX }
    open spec fn add_spec(self, rhs: ri64) -> ri8 { ri8 { val: (self.val + rhs.val) as i8 } }
}
impl core::ops::Add<ri64> for ri8 {
    type Output = ri8;
    #[verifier::external_body]
    fn add(self, rhs: ri64) -> ri8 { unimplemented!() }
}
impl AddAssignSpecImpl<ri64> for ri8 {
    open spec fn obeys_add_assign_spec() -> bool { true }
    open spec fn add_assign_req(&self, rhs: ri64) -> bool { i8::MIN <= self.val + rhs.val <= i8::MAX }
    open spec fn add_assign_spec(&self, rhs: ri64) -> &ri8 { &ri8 { val: (self.val + rhs.val) as i8 } }
}
impl core::ops::AddAssign<ri64> for ri8 {
    #[verifier::external_body]
    fn add_assign(&mut self, rhs: ri64) { unimplemented!() }
}

impl SubSpecImpl<ri64> for ri8 {
    open spec fn obeys_sub_spec() -> bool { true }
    open spec fn sub_req(self, rhs: ri64) -> bool { i8::MIN <= self.val - rhs.val <= i8::MAX }
    open spec fn sub_spec(self, rhs: ri64) -> ri8 { ri8 { val: (self.val - rhs.val) as i8 } }
}
impl core::ops::Sub<ri64> for ri8 {
    type Output = ri8;
    #[verifier::external_body]
    fn sub(self, rhs: ri64) -> ri8 { unimplemented!() }
}
impl SubAssignSpecImpl<ri64> for ri8 {
    open spec fn obeys_sub_assign_spec() -> bool { true }
    open spec fn sub_assign_req(&self, rhs: ri64) -> bool { i8::MIN <= self.val - rhs.val <= i8::MAX }
    open spec fn sub_assign_spec(&self, rhs: ri64) -> &ri8 { &ri8 { val: (self.val - rhs.val) as i8 } }
}
impl core::ops::SubAssign<ri64> for ri8 {
    #[verifier::external_body]
    fn sub_assign(&mut self, rhs: ri64) { unimplemented!() }
}

impl MulSpecImpl<ri64> for ri8 {
    open spec fn obeys_mul_spec() -> bool { true }
    open spec fn mul_req(self, rhs: ri64) -> bool { i8::MIN <= self.val * rhs.val <= i8::MAX }
    open spec fn mul_spec(self, rhs: ri64) -> ri8 { ri8 { val: (self.val * rhs.val) as i8 } }
}
impl core::ops::Mul<ri64> for ri8 {
    type Output = ri8;
    #[verifier::external_body]
    fn mul(self, rhs: ri64) -> ri8 { unimplemented!() }
}
impl MulAssignSpecImpl<ri64> for ri8 {
    open spec fn obeys_mul_assign_spec() -> bool { true }
    open spec fn mul_assign_req(&self, rhs: ri64) -> bool { i8::MIN <= self.val * rhs.val <= i8::MAX }
    open spec fn mul_assign_spec(&self, rhs: ri64) -> &ri8 { &ri8 { val: (self.val * rhs.val) as i8 } }
}
impl core::ops::MulAssign<ri64> for ri8 {
    #[verifier::external_body]
    fn mul_assign(&mut self, rhs: ri64) { unimplemented!() }
}

impl DivSpecImpl<ri64> for ri8 {
    open spec fn obeys_div_spec() -> bool { true }
    open spec fn div_req(self, rhs: ri64) -> bool { rhs.val > 0 }
    open spec fn div_spec(self, rhs: ri64) -> ri8 { ri8 { val: (self.val as int / rhs.val as int) as i8 } }
}
impl core::ops::Div<ri64> for ri8 {
    type Output = ri8;
    #[verifier::external_body]
    fn div(self, rhs: ri64) -> ri8 { unimplemented!() }
}
impl RemSpecImpl<ri64> for ri8 {
    open spec fn obeys_rem_spec() -> bool { true }
    open spec fn rem_req(self, rhs: ri64) -> bool { rhs.val > 0 }
    open spec fn rem_spec(self, rhs: ri64) -> ri8 { ri8 { val: (self.val as int % rhs.val as int) as i8 } }
}
impl core::ops::Rem<ri64> for ri8 {
    type Output = ri8;
    #[verifier::external_body]
    fn rem(self, rhs: ri64) -> ri8 { unimplemented!() }
}

impl AddSpecImpl<ri128> for ri8 {
    open spec fn obeys_add_spec() -> bool { true }
    open spec fn add_req(self, rhs: ri128) -> bool { i8::MIN <= self.val + rhs.val <= i8::MAX }
    open spec fn add_spec(self, rhs: ri128) -> ri8 { ri8 { val: (self.val + rhs.val) as i8 } }
}
impl core::ops::Add<ri128> for ri8 {
    type Output = ri8;
    #[verifier::external_body]
    fn add(self, rhs: ri128) -> ri8 { unimplemented!() }
}
impl AddAssignSpecImpl<ri128> for ri8 {
    open spec fn obeys_add_assign_spec() -> bool { true }
    open spec fn add_assign_req(&self, rhs: ri128) -> bool { i8::MIN <= self.val + rhs.val <= i8::MAX }
    open spec fn add_assign_spec(&self, rhs: ri128) -> &ri8 { &ri8 { val: (self.val + rhs.val) as i8 } }
}
impl core::ops::AddAssign<ri128> for ri8 {
    #[verifier::external_body]
    fn add_assign(&mut self, rhs: ri128) { unimplemented!() }
}

impl SubSpecImpl<ri128> for ri8 {
    open spec fn obeys_sub_spec() -> bool { true }
    open spec fn sub_req(self, rhs: ri128) -> bool { i8::MIN <= self.val - rhs.val <= i8::MAX }
    open spec fn sub_spec(self, rhs: ri128) -> ri8 { ri8 { val: (self.val - rhs.val) as i8 } }
}
impl core::ops::Sub<ri128> for ri8 {
    type Output = ri8;
    #[verifier::external_body]
    fn sub(self, rhs: ri128) -> ri8 { unimplemented!() }
}
impl SubAssignSpecImpl<ri128> for ri8 {
    open spec fn obeys_sub_assign_spec() -> bool { true }
    open spec fn sub_assign_req(&self, rhs: ri128) -> bool { i8::MIN <= self.val - rhs.val <= i8::MAX }
    open spec fn sub_assign_spec(&self, rhs: ri128) -> &ri8 { &ri8 { val: (self.val - rhs.val) as i8 } }
}
impl core::ops::SubAssign<ri128> for ri8 {
    #[verifier::external_body]
    fn sub_assign(&mut self, rhs: ri128) { unimplemented!() }
}

impl MulSpecImpl<ri128> for ri8 {
    open spec fn obeys_mul_spec() -> bool { true }
    open spec fn mul_req(self, rhs: ri128) -> bool { i8::MIN <= self.val * rhs.val <= i8::MAX }
    open spec fn mul_spec(self, rhs: ri128) -> ri8 { ri8 { val: (self.val * rhs.val) as i8 } }
}
impl core::ops::Mul<ri128> for ri8 {
    type Output = ri8;
    #[verifier::external_body]
    fn mul(self, rhs: ri128) -> ri8 { unimplemented!() }
}
impl MulAssignSpecImpl<ri128> for ri8 {
    open spec fn obeys_mul_assign_spec() -> bool { true }
    open spec fn mul_assign_req(&self, rhs: ri128) -> bool { i8::MIN <= self.val * rhs.val <= i8::MAX }
    open spec fn mul_assign_spec(&self, rhs: ri128) -> &ri8 { &ri8 { val: (self.val * rhs.val) as i8 } }
}
impl core::ops::MulAssign<ri128> for ri8 {
    #[verifier::external_body]
    fn mul_assign(&mut self, rhs: ri128) { unimplemented!() }
}

impl DivSpecImpl<ri128> for ri8 {
    open spec fn obeys_div_spec() -> bool { true }
    open spec fn div_req(self, rhs: ri128) -> bool { rhs.val > 0 }
    open spec fn div_spec(self, rhs: ri128) -> ri8 { ri8 { val: (self.val as int / rhs.val as int) as i8 } }
}
impl core::ops::Div<ri128> for ri8 {
    type Output = ri8;
    #[verifier::external_body]
    fn div(self, rhs: ri128) -> ri8 { unimplemented!() }
}
impl RemSpecImpl<ri128> for ri8 {
    open spec fn obeys_rem_spec() -> bool { true }
    open spec fn rem_req(self, rhs: ri128) -> bool { rhs.val > 0 }
    open spec fn rem_spec(self, rhs: ri128) -> ri8 { ri8 { val: (self.val as int % rhs.val as int) as i8 } }
}
impl core::ops::Rem<ri128> for ri8 {
    type Output = ri8;
    #[verifier::external_body]
    fn rem(self, rhs: ri128) -> ri8 { unimplemented!() }
}

impl NegSpecImpl for ri8 {
    open spec fn obeys_neg_spec() -> bool { true }
    open spec fn neg_req(self) -> bool { self.val > i8::MIN }
    open spec fn neg_spec(self) -> ri8 { ri8 { val: (-self.val) as i8 } }
}
impl core::ops::Neg for ri8 {
    type Output = ri8;
    #[verifier::external_body]
    fn neg(self) -> ri8 { unimplemented!() }
}


// ------------------------------------------------------------------ ri16
#[derive(Clone, Copy)]
pub struct ri16 { pub val: i16 }
impl ri16 {
    pub fn new_unchecked(val: i16) -> (r: Self) ensures r.val == val { ri16 { val } }
    pub fn get(self) -> (r: i16) ensures r == self.val { self.val }
    pub fn get_unchecked(self) -> (r: i16) ensures r == self.val { self.val }
    pub fn without_bounds(self) -> (r: Self) ensures r == self { self }
    // `T::N::<VAL>()` is rewritten to `T::verif_N(VAL)`: the constant VAL (release: `Self { val: VAL }`, no bound is consulted).
    // (Not modelled with a const generic: Verus 0.2026.09.13 derives `false` from a negative const generic argument.)
    pub const fn verif_N(v: i16) -> (r: Self) ensures r.val == v { ri16 { val: v } }
    #[verifier::external_body]
    pub fn abs(self) -> (r: Self)
        requires self.val > i16::MIN,
        ensures r.val == (if self.val < 0 { -self.val } else { self.val as int })
    { unimplemented!() }
    // real: returns `riN<-1, 1>` of the SAME width
    pub fn signum(self) -> (r: Self) ensures r.val == (if self.val < 0 { -1int } else if self.val > 0 { 1int } else { 0int })
    { if self.val < 0 { ri16 { val: -1 } } else if self.val > 0 { ri16 { val: 1 } } else { ri16 { val: 0 } } }
    pub fn min<R: RInto<Self>>(self, other: R) -> (r: Self)
        requires other.rinto_req(),
        ensures r.val == (if other.rinto_spec().val < self.val { other.rinto_spec().val } else { self.val })
    { let o = other.rinto(); if o.val < self.val { o } else { self } }
    pub fn max<R: RInto<Self>>(self, other: R) -> (r: Self)
        requires other.rinto_req(),
        ensures r.val == (if other.rinto_spec().val > self.val { other.rinto_spec().val } else { self.val })
    { let o = other.rinto(); if o.val > self.val { o } else { self } }
    // truncating
    #[verifier::external_body]
    pub fn div_ceil<R: RInto<Self>>(self, rhs: R) -> (r: Self)
        requires rhs.rinto_req(), rhs.rinto_spec().val != 0, !(self.val == i16::MIN && rhs.rinto_spec().val == -1),
        ensures r.val == tdiv(self.val as int, rhs.rinto_spec().val as int)
    { unimplemented!() }
    #[verifier::external_body]
    pub fn rem_ceil<R: RInto<Self>>(self, rhs: R) -> (r: Self)
        requires rhs.rinto_req(), rhs.rinto_spec().val != 0, !(self.val == i16::MIN && rhs.rinto_spec().val == -1),
        ensures r.val == trem(self.val as int, rhs.rinto_spec().val as int)
    { unimplemented!() }
    // Euclidean (divisor > 0 required here; every use in jiff divides by a positive quantity)
    #[verifier::external_body]
    pub fn div_floor<R: RInto<Self>>(self, rhs: R) -> (r: Self)
        requires rhs.rinto_req(), rhs.rinto_spec().val > 0,
        ensures r.val == (self.val as int) / (rhs.rinto_spec().val as int)
    { unimplemented!() }
    #[verifier::external_body]
    pub fn rem_floor<R: RInto<Self>>(self, rhs: R) -> (r: Self)
        requires rhs.rinto_req(), rhs.rinto_spec().val > 0,
        ensures r.val == (self.val as int) % (rhs.rinto_spec().val as int)
    { unimplemented!() }
    #[verifier::external_body]
    pub fn saturating_mul<R: RInto<Self>>(self, rhs: R) -> (r: Self)
        requires rhs.rinto_req(),
        ensures i16::MIN <= self.val * rhs.rinto_spec().val <= i16::MAX ==> r.val == self.val * rhs.rinto_spec().val,
                self.val * rhs.rinto_spec().val > i16::MAX ==> r.val == i16::MAX,
                self.val * rhs.rinto_spec().val < i16::MIN ==> r.val == i16::MIN,
    { unimplemented!() }
    #[verifier::external_body]
    pub fn saturating_add<R: RInto<Self>>(self, rhs: R) -> (r: Self)
        requires rhs.rinto_req(),
        ensures i16::MIN <= self.val + rhs.rinto_spec().val <= i16::MAX ==> r.val == self.val + rhs.rinto_spec().val,
                self.val + rhs.rinto_spec().val > i16::MAX ==> r.val == i16::MAX,
                self.val + rhs.rinto_spec().val < i16::MIN ==> r.val == i16::MIN,
    { unimplemented!() }
}
// `type Range = ri16<{ LO }, { HI }>; Range::try_new("what", v)`: the bounds of an anonymous range are passed explicitly
#[verifier::external_body]
pub fn verif_try_new_range_16(lo: i128, hi: i128, v: i64) -> (res: Result<ri16, Error>)
    requires i16::MIN <= lo, hi <= i16::MAX,
    ensures res.is_ok() <==> lo <= v <= hi, res.is_ok() ==> res.unwrap().val == v
{ unimplemented!() }
impl RInto<ri16> for ri16 {
    open spec fn rinto_spec(self) -> ri16 { self }
    open spec fn rinto_req(self) -> bool { true }
    fn rinto(self) -> (r: ri16) { self }
}
impl RFrom<ri16> for ri16 {
    open spec fn rfrom_spec(t: ri16) -> ri16 { t }
    open spec fn rfrom_req(t: ri16) -> bool { true }
    fn rfrom(t: ri16) -> (r: ri16) { t }
}
impl RInto<ri16> for Constant {
    open spec fn rinto_spec(self) -> ri16 { ri16 { val: self.0 as i16 } }
    open spec fn rinto_req(self) -> bool { i16::MIN <= self.0 <= i16::MAX }
    #[verifier::external_body]
    fn rinto(self) -> (r: ri16) { unimplemented!() }
}
impl RFrom<Constant> for ri16 {
    open spec fn rfrom_spec(t: Constant) -> ri16 { ri16 { val: t.0 as i16 } }
    open spec fn rfrom_req(t: Constant) -> bool { i16::MIN <= t.0 <= i16::MAX }
    #[verifier::external_body]
    fn rfrom(t: Constant) -> (r: ri16) { unimplemented!() }
}
impl RInto<i16> for ri16 {
    open spec fn rinto_spec(self) -> i16 { self.val }
    open spec fn rinto_req(self) -> bool { true }
    fn rinto(self) -> (r: i16) { self.val }
}

impl PartialEqSpecImpl<ri16> for ri16 {
    open spec fn obeys_eq_spec() -> bool { true }
    open spec fn eq_spec(&self, other: &ri16) -> bool { self.val == other.val }
}
impl PartialEq<ri16> for ri16 {
    #[verifier::external_body]
    fn eq(&self, other: &ri16) -> bool { unimplemented!() }
}
impl PartialOrdSpecImpl<ri16> for ri16 {
    open spec fn obeys_partial_cmp_spec() -> bool { true }
    open spec fn partial_cmp_spec(&self, other: &ri16) -> Option<Ordering> { Some(int_cmp(self.val as int, other.val as int)) }
}
impl PartialOrd<ri16> for ri16 {
    #[verifier::external_body]
    fn partial_cmp(&self, other: &ri16) -> Option<Ordering> { unimplemented!() }
}

impl PartialEqSpecImpl<Constant> for ri16 {
    open spec fn obeys_eq_spec() -> bool { true }
    open spec fn eq_spec(&self, other: &Constant) -> bool { self.val == other.0 }
}
impl PartialEq<Constant> for ri16 {
    #[verifier::external_body]
    fn eq(&self, other: &Constant) -> bool { unimplemented!() }
}
impl PartialOrdSpecImpl<Constant> for ri16 {
    open spec fn obeys_partial_cmp_spec() -> bool { true }
    open spec fn partial_cmp_spec(&self, other: &Constant) -> Option<Ordering> { Some(int_cmp(self.val as int, other.0 as int)) }
}
impl PartialOrd<Constant> for ri16 {
    #[verifier::external_body]
    fn partial_cmp(&self, other: &Constant) -> Option<Ordering> { unimplemented!() }
}

impl PartialEqSpecImpl<ri8> for ri16 {
    open spec fn obeys_eq_spec() -> bool { true }
    open spec fn eq_spec(&self, other: &ri8) -> bool { self.val == other.val }
}
impl PartialEq<ri8> for ri16 {
    #[verifier::external_body]
    fn eq(&self, other: &ri8) -> bool { unimplemented!() }
}
impl PartialOrdSpecImpl<ri8> for ri16 {
    open spec fn obeys_partial_cmp_spec() -> bool { true }
    open spec fn partial_cmp_spec(&self, other: &ri8) -> Option<Ordering> { Some(int_cmp(self.val as int, other.val as int)) }
}
impl PartialOrd<ri8> for ri16 {
    #[verifier::external_body]
    fn partial_cmp(&self, other: &ri8) -> Option<Ordering> { unimplemented!() }
}

impl PartialEqSpecImpl<ri32> for ri16 {
    open spec fn obeys_eq_spec() -> bool { true }
    open spec fn eq_spec(&self, other: &ri32) -> bool { self.val == other.val }
}
impl PartialEq<ri32> for ri16 {
    #[verifier::external_body]
    fn eq(&self, other: &ri32) -> bool { unimplemented!() }
}
impl PartialOrdSpecImpl<ri32> for ri16 {
    open spec fn obeys_partial_cmp_spec() -> bool { true }
    open spec fn partial_cmp_spec(&self, other: &ri32) -> Option<Ordering> { Some(int_cmp(self.val as int, other.val as int)) }
}
impl PartialOrd<ri32> for ri16 {
    #[verifier::external_body]
    fn partial_cmp(&self, other: &ri32) -> Option<Ordering> { unimplemented!() }
}

impl PartialEqSpecImpl<ri64> for ri16 {
    open spec fn obeys_eq_spec() -> bool { true }
    open spec fn eq_spec(&self, other: &ri64) -> bool { self.val == other.val }
}
impl PartialEq<ri64> for ri16 {
    #[verifier::external_body]
    fn eq(&self, other: &ri64) -> bool { unimplemented!() }
}
impl PartialOrdSpecImpl<ri64> for ri16 {
    open spec fn obeys_partial_cmp_spec() -> bool { true }
    open spec fn partial_cmp_spec(&self, other: &ri64) -> Option<Ordering> { Some(int_cmp(self.val as int, other.val as int)) }
}
impl PartialOrd<ri64> for ri16 {
    #[verifier::external_body]
    fn partial_cmp(&self, other: &ri64) -> Option<Ordering> { unimplemented!() }
}

impl PartialEqSpecImpl<ri128> for ri16 {
    open spec fn obeys_eq_spec() -> bool { true }
    open spec fn eq_spec(&self, other: &ri128) -> bool { self.val == other.val }
}
impl PartialEq<ri128> for ri16 {
    #[verifier::external_body]
    fn eq(&self, other: &ri128) -> bool { unimplemented!() }
}
impl PartialOrdSpecImpl<ri128> for ri16 {
    open spec fn obeys_partial_cmp_spec() -> bool { true }
    open spec fn partial_cmp_spec(&self, other: &ri128) -> Option<Ordering> { Some(int_cmp(self.val as int, other.val as int)) }
}
impl PartialOrd<ri128> for ri16 {
    #[verifier::external_body]
    fn partial_cmp(&self, other: &ri128) -> Option<Ordering> { unimplemented!() }
}

impl AddSpecImpl<ri16> for ri16 {
    open spec fn obeys_add_spec() -> bool { true }
    open spec fn add_req(self, rhs: ri16) -> bool { i16::MIN <= self.val + rhs.val <= i16::MAX }
    open spec fn add_spec(self, rhs: ri16) -> ri16 { ri16 { val: (self.val + rhs.val) as i16 } }
}
impl core::ops::Add<ri16> for ri16 {
    type Output = ri16;
    #[verifier::external_body]
    fn add(self, rhs: ri16) -> ri16 { unimplemented!() }
}
impl AddAssignSpecImpl<ri16> for ri16 {
    open spec fn obeys_add_assign_spec() -> bool { true }
    open spec fn add_assign_req(&self, rhs: ri16) -> bool { i16::MIN <= self.val + rhs.val <= i16::MAX }
    open spec fn add_assign_spec(&self, rhs: ri16) -> &ri16 { &ri16 { val: (self.val + rhs.val) as i16 } }
}
impl core::ops::AddAssign<ri16> for ri16 {
    #[verifier::external_body]
    fn add_assign(&mut self, rhs: ri16) { unimplemented!() }
}

impl SubSpecImpl<ri16> for ri16 {
    open spec fn obeys_sub_spec() -> bool { true }
    open spec fn sub_req(self, rhs: ri16) -> bool { i16::MIN <= self.val - rhs.val <= i16::MAX }
    open spec fn sub_spec(self, rhs: ri16) -> ri16 { ri16 { val: (self.val - rhs.val) as i16 } }
}
impl core::ops::Sub<ri16> for ri16 {
    type Output = ri16;
    #[verifier::external_body]
    fn sub(self, rhs: ri16) -> ri16 { unimplemented!() }
}
impl SubAssignSpecImpl<ri16> for ri16 {
    open spec fn obeys_sub_assign_spec() -> bool { true }
    open spec fn sub_assign_req(&self, rhs: ri16) -> bool { i16::MIN <= self.val - rhs.val <= i16::MAX }
    open spec fn sub_assign_spec(&self, rhs: ri16) -> &ri16 { &ri16 { val: (self.val - rhs.val) as i16 } }
}
impl core::ops::SubAssign<ri16> for ri16 {
    #[verifier::external_body]
    fn sub_assign(&mut self, rhs: ri16) { unimplemented!() }
}

impl MulSpecImpl<ri16> for ri16 {
    open spec fn obeys_mul_spec() -> bool { true }
    open spec fn mul_req(self, rhs: ri16) -> bool { i16::MIN <= self.val * rhs.val <= i16::MAX }
    open spec fn mul_spec(self, rhs: ri16) -> ri16 { ri16 { val: (self.val * rhs.val) as i16 } }
}
impl core::ops::Mul<ri16> for ri16 {
    type Output = ri16;
    #[verifier::external_body]
    fn mul(self, rhs: ri16) -> ri16 { unimplemented!() }
}
impl MulAssignSpecImpl<ri16> for ri16 {
    open spec fn obeys_mul_assign_spec() -> bool { true }
    open spec fn mul_assign_req(&self, rhs: ri16) -> bool { i16::MIN <= self.val * rhs.val <= i16::MAX }
    open spec fn mul_assign_spec(&self, rhs: ri16) -> &ri16 { &ri16 { val: (self.val * rhs.val) as i16 } }
}
impl core::ops::MulAssign<ri16> for ri16 {
    #[verifier::external_body]
    fn mul_assign(&mut self, rhs: ri16) { unimplemented!() }
}

impl DivSpecImpl<ri16> for ri16 {
    open spec fn obeys_div_spec() -> bool { true }
    open spec fn div_req(self, rhs: ri16) -> bool { rhs.val > 0 }
    open spec fn div_spec(self, rhs: ri16) -> ri16 { ri16 { val: (self.val as int / rhs.val as int) as i16 } }
}
impl core::ops::Div<ri16> for ri16 {
    type Output = ri16;
    #[verifier::external_body]
    fn div(self, rhs: ri16) -> ri16 { unimplemented!() }
}
impl RemSpecImpl<ri16> for ri16 {
    open spec fn obeys_rem_spec() -> bool { true }
    open spec fn rem_req(self, rhs: ri16) -> bool { rhs.val > 0 }
    open spec fn rem_spec(self, rhs: ri16) -> ri16 { ri16 { val: (self.val as int % rhs.val as int) as i16 } }
}
impl core::ops::Rem<ri16> for ri16 {
    type Output = ri16;
    #[verifier::external_body]
    fn rem(self, rhs: ri16) -> ri16 { unimplemented!() }
}

impl AddSpecImpl<Constant> for ri16 {
    open spec fn obeys_add_spec() -> bool { true }
    open spec fn add_req(self, rhs: Constant) -> bool { i16::MIN <= self.val + rhs.0 <= i16::MAX }
    open spec fn add_spec(self, rhs: Constant) -> ri16 { ri16 { val: (self.val + rhs.0) as i16 } }
}
impl core::ops::Add<Constant> for ri16 {
    type Output = ri16;
    #[verifier::external_body]
    fn add(self, rhs: Constant) -> ri16 { unimplemented!() }
}
impl AddAssignSpecImpl<Constant> for ri16 {
    open spec fn obeys_add_assign_spec() -> bool { true }
    open spec fn add_assign_req(&self, rhs: Constant) -> bool { i16::MIN <= self.val + rhs.0 <= i16::MAX }
    open spec fn add_assign_spec(&self, rhs: Constant) -> &ri16 { &ri16 { val: (self.val + rhs.0) as i16 } }
}
impl core::ops::AddAssign<Constant> for ri16 {
    #[verifier::external_body]
    fn add_assign(&mut self, rhs: Constant) { unimplemented!() }
}

impl SubSpecImpl<Constant> for ri16 {
    open spec fn obeys_sub_spec() -> bool { true }
    open spec fn sub_req(self, rhs: Constant) -> bool { i16::MIN <= self.val - rhs.0 <= i16::MAX }
    open spec fn sub_spec(self, rhs: Constant) -> ri16 { ri16 { val: (self.val - rhs.0) as i16 } }
}
impl core::ops::Sub<Constant> for ri16 {
    type Output = ri16;
    #[verifier::external_body]
    fn sub(self, rhs: Constant) -> ri16 { unimplemented!() }
}
impl SubAssignSpecImpl<Constant> for ri16 {
    open spec fn obeys_sub_assign_spec() -> bool { true }
    open spec fn sub_assign_req(&self, rhs: Constant) -> bool { i16::MIN <= self.val - rhs.0 <= i16::MAX }
    open spec fn sub_assign_spec(&self, rhs: Constant) -> &ri16 { &ri16 { val: (self.val - rhs.0) as i16 } }
}
impl core::ops::SubAssign<Constant> for ri16 {
    #[verifier::external_body]
    fn sub_assign(&mut self, rhs: Constant) { unimplemented!() }
}

impl MulSpecImpl<Constant> for ri16 {
    open spec fn obeys_mul_spec() -> bool { true }
    open spec fn mul_req(self, rhs: Constant) -> bool { i16::MIN <= self.val * rhs.0 <= i16::MAX }
    open spec fn mul_spec(self, rhs: Constant) -> ri16 { ri16 { val: (self.val * rhs.0) as i16 } }
}
impl core::ops::Mul<Constant> for ri16 {
    type Output = ri16;
    #[verifier::external_body]
    fn mul(self, rhs: Constant) -> ri16 { unimplemented!() }
}
impl MulAssignSpecImpl<Constant> for ri16 {
    open spec fn obeys_mul_assign_spec() -> bool { true }
    open spec fn mul_assign_req(&self, rhs: Constant) -> bool { i16::MIN <= self.val * rhs.0 <= i16::MAX }
    open spec fn mul_assign_spec(&self, rhs: Constant) -> &ri16 { &ri16 { val: (self.val * rhs.0) as i16 } }
}
impl core::ops::MulAssign<Constant> for ri16 {
    #[verifier::external_body]
    fn mul_assign(&mut self, rhs: Constant) { unimplemented!() }
}

impl DivSpecImpl<Constant> for ri16 {
    open spec fn obeys_div_spec() -> bool { true }
    open spec fn div_req(self, rhs: Constant) -> bool { rhs.0 > 0 }
    open spec fn div_spec(self, rhs: Constant) -> ri16 { ri16 { val: (self.val as int / rhs.0 as int) as i16 } }
}
impl core::ops::Div<Constant> for ri16 {
    type Output = ri16;
    #[verifier::external_body]
    fn div(self, rhs: Constant) -> ri16 { unimplemented!() }
}
impl RemSpecImpl<Constant> for ri16 {
    open spec fn obeys_rem_spec() -> bool { true }
    open spec fn rem_req(self, rhs: Constant) -> bool { rhs.0 > 0 }
    open spec fn rem_spec(self, rhs: Constant) -> ri16 { ri16 { val: (self.val as int % rhs.0 as int) as i16 } }
}
impl core::ops::Rem<Constant> for ri16 {
    type Output = ri16;
    #[verifier::external_body]
    fn rem(self, rhs: Constant) -> ri16 { unimplemented!() }
}

impl AddSpecImpl<ri8> for ri16 {
    open spec fn obeys_add_spec() -> bool { true }
    open spec fn add_req(self, rhs: ri8) -> bool { i16::MIN <= self.val + rhs.val <= i16::MAX }
    open spec fn add_spec(self, rhs: ri8) -> ri16 { ri16 { val: (self.val + rhs.val) as i16 } }
}
impl core::ops::Add<ri8> for ri16 {
    type Output = ri16;
    #[verifier::external_body]
    fn add(self, rhs: ri8) -> ri16 { unimplemented!() }
}
impl AddAssignSpecImpl<ri8> for ri16 {
    open spec fn obeys_add_assign_spec() -> bool { true }
    open spec fn add_assign_req(&self, rhs: ri8) -> bool { i16::MIN <= self.val + rhs.val <= i16::MAX }
    open spec fn add_assign_spec(&self, rhs: ri8) -> &ri16 { &ri16 { val: (self.val + rhs.val) as i16 } }
}
impl core::ops::AddAssign<ri8> for ri16 {
    #[verifier::external_body]
    fn add_assign(&mut self, rhs: ri8) { unimplemented!() }
}

impl SubSpecImpl<ri8> for ri16 {
    open spec fn obeys_sub_spec() -> bool { true }
    open spec fn sub_req(self, rhs: ri8) -> bool { i16::MIN <= self.val - rhs.val <= i16::MAX }
    open spec fn sub_spec(self, rhs: ri8) -> ri16 { ri16 { val: (self.val - rhs.val) as i16 } }
}
impl core::ops::Sub<ri8> for ri16 {
    type Output = ri16;
    #[verifier::external_body]
    fn sub(self, rhs: ri8) -> ri16 { unimplemented!() }
}
impl SubAssignSpecImpl<ri8> for ri16 {
    open spec fn obeys_sub_assign_spec() -> bool { true }
    open spec fn sub_assign_req(&self, rhs: ri8) -> bool { i16::MIN <= self.val - rhs.val <= i16::MAX }
    open spec fn sub_assign_spec(&self, rhs: ri8) -> &ri16 { &ri16 { val: (self.val - rhs.val) as i16 } }
}
impl core::ops::SubAssign<ri8> for ri16 {
    #[verifier::external_body]
    fn sub_assign(&mut self, rhs: ri8) { unimplemented!() }
}

impl MulSpecImpl<ri8> for ri16 {
    open spec fn obeys_mul_spec() -> bool { true }
    open spec fn mul_req(self, rhs: ri8) -> bool { i16::MIN <= self.val * rhs.val <= i16::MAX }
    open spec fn mul_spec(self, rhs: ri8) -> ri16 { ri16 { val: (self.val * rhs.val) as i16 } }
}
impl core::ops::Mul<ri8> for ri16 {
    type Output = ri16;
    #[verifier::external_body]
    fn mul(self, rhs: ri8) -> ri16 { unimplemented!() }
}
impl MulAssignSpecImpl<ri8> for ri16 {
    open spec fn obeys_mul_assign_spec() -> bool { true }
    open spec fn mul_assign_req(&self, rhs: ri8) -> bool { i16::MIN <= self.val * rhs.val <= i16::MAX }
    open spec fn mul_assign_spec(&self, rhs: ri8) -> &ri16 { &ri16 { val: (self.val * rhs.val) as i16 } }
}
impl core::ops::MulAssign<ri8> for ri16 {
    #[verifier::external_body]
    fn mul_assign(&mut self, rhs: ri8) { unimplemented!() }
}

impl DivSpecImpl<ri8> for ri16 {
    open spec fn obeys_div_spec() -> bool { true }
    open spec fn div_req(self, rhs: ri8) -> bool { rhs.val > 0 }
    open spec fn div_spec(self, rhs: ri8) -> ri16 { ri16 { val: (self.val as int / rhs.val as int) as i16 } }
}
impl core::ops::Div<ri8> for ri16 {
    type Output = ri16;
    #[verifier::external_body]
    fn div(self, rhs: ri8) -> ri16 { unimplemented!() }
}
impl RemSpecImpl<ri8> for ri16 {
    open spec fn obeys_rem_spec() -> bool { true }
    open spec fn rem_req(self, rhs: ri8) -> bool { rhs.val > 0 }
    open spec fn rem_spec(self, rhs: ri8) -> ri16 { ri16 { val: (self.val as int % rhs.val as int) as i16 } }
}
impl core::ops::Rem<ri8> for ri16 {
    type Output = ri16;
    #[verifier::external_body]
    fn rem(self, rhs: ri8) -> ri16 { unimplemented!() }
}

impl AddSpecImpl<ri32> for ri16 {
    open spec fn obeys_add_spec() -> bool { true }
    open spec fn add_req(self, rhs: ri32) -> bool { i16::MIN <= self.val + rhs.val <= i16::MAX }
    open spec fn add_spec(self, rhs: ri32) -> ri16 { ri16 { val: (self.val + rhs.val) as i16 } }
}
impl core::ops::Add<ri32> for ri16 {
    type Output = ri16;
    #[verifier::external_body]
    fn add(self, rhs: ri32) -> ri16 { unimplemented!() }
}
impl AddAssignSpecImpl<ri32> for ri16 {
    open spec fn obeys_add_assign_spec() -> bool { true }
    open spec fn add_assign_req(&self, rhs: ri32) -> bool { i16::MIN <= self.val + rhs.val <= i16::MAX }
    open spec fn add_assign_spec(&self, rhs: ri32) -> &ri16 { &ri16 { val: (self.val + rhs.val) as i16 } }
}
impl core::ops::AddAssign<ri32> for ri16 {
    #[verifier::external_body]
    fn add_assign(&mut self, rhs: ri32) { unimplemented!() }
}

impl SubSpecImpl<ri32> for ri16 {
    open spec fn obeys_sub_spec() -> bool { true }
    open spec fn sub_req(self, rhs: ri32) -> bool { i16::MIN <= self.val - rhs.val <= i16::MAX }
    open spec fn sub_spec(self, rhs: ri32) -> ri16 { ri16 { val: (self.val - rhs.val) as i16 } }
}
impl core::ops::Sub<ri32> for ri16 {
    type Output = ri16;
    #[verifier::external_body]
    fn sub(self, rhs: ri32) -> ri16 { unimplemented!() }
}
impl SubAssignSpecImpl<ri32> for ri16 {
    open spec fn obeys_sub_assign_spec() -> bool { true }
    open spec fn sub_assign_req(&self, rhs: ri32) -> bool { i16::MIN <= self.val - rhs.val <= i16::MAX }
    open spec fn sub_assign_spec(&self, rhs: ri32) -> &ri16 { &ri16 { val: (self.val - rhs.val) as i16 } }
}
impl core::ops::SubAssign<ri32> for ri16 {
    #[verifier::external_body]
    fn sub_assign(&mut self, rhs: ri32) { unimplemented!() }
}

impl MulSpecImpl<ri32> for ri16 {
    open spec fn obeys_mul_spec() -> bool { true }
    open spec fn mul_req(self, rhs: ri32) -> bool { i16::MIN <= self.val * rhs.val <= i16::MAX }
    open spec fn mul_spec(self, rhs: ri32) -> ri16 { ri16 { val: (self.val * rhs.val) as i16 } }
}
impl core::ops::Mul<ri32> for ri16 {
    type Output = ri16;
    #[verifier::external_body]
    fn mul(self, rhs: ri32) -> ri16 { unimplemented!() }
}
impl MulAssignSpecImpl<ri32> for ri16 {
    open spec fn obeys_mul_assign_spec() -> bool { true }
    open spec fn mul_assign_req(&self, rhs: ri32) -> bool { i16::MIN <= self.val * rhs.val <= i16::MAX }
    open spec fn mul_assign_spec(&self, rhs: ri32) -> &ri16 { &ri16 { val: (self.val * rhs.val) as i16 } }
}
impl core::ops::MulAssign<ri32> for ri16 {
    #[verifier::external_body]
    fn mul_assign(&mut self, rhs: ri32) { unimplemented!() }
}

impl DivSpecImpl<ri32> for ri16 {
    open spec fn obeys_div_spec() -> bool { true }
    open spec fn div_req(self, rhs: ri32) -> bool { rhs.val > 0 }
    open spec fn div_spec(self, rhs: ri32) -> ri16 { ri16 { val: (self.val as int / rhs.val as int) as i16 } }
}
impl core::ops::Div<ri32> for ri16 {
    type Output = ri16;
    #[verifier::external_body]
    fn div(self, rhs: ri32) -> ri16 { unimplemented!() }
}
impl RemSpecImpl<ri32> for ri16 {
    open spec fn obeys_rem_spec() -> bool { true }
    open spec fn rem_req(self, rhs: ri32) -> bool { rhs.val > 0 }
    open spec fn rem_spec(self, rhs: ri32) -> ri16 { ri16 { val: (self.val as int % rhs.val as int) as i16 } }
}
impl core::ops::Rem<ri32> for ri16 {
    type Output = ri16;
    #[verifier::external_body]
    fn rem(self, rhs: ri32) -> ri16 { unimplemented!() }
}

impl AddSpecImpl<ri64> for ri16 {
    open spec fn obeys_add_spec() -> bool { true }
    open spec fn add_req(self, rhs: ri64) -> bool { i16::MIN <= self.val + rhs.val <= i16::MAX }
    open spec fn add_spec(self, rhs: ri64) -> ri16 { ri16 { val: (self.val + rhs.val) as i16 } }
}
impl core::ops::Add<ri64> for ri16 {
    type Output = ri16;
    #[verifier::external_body]
    fn add(self, rhs: ri64) -> ri16 { unimplemented!() }
}
impl AddAssignSpecImpl<ri64> for ri16 {
    open spec fn obeys_add_assign_spec() -> bool { true }
    open spec fn add_assign_req(&self, rhs: ri64) -> bool { i16::MIN <= self.val + rhs.val <= i16::MAX }
    open spec fn add_assign_spec(&self, rhs: ri64) -> &ri16 { &ri16 { val: (self.val + rhs.val) as i16 } }
}
impl core::ops::AddAssign<ri64> for ri16 {
    #[verifier::external_body]
    fn add_assign(&mut self, rhs: ri64) { unimplemented!() }
}

impl SubSpecImpl<ri64> for ri16 {
    open spec fn obeys_sub_spec() -> bool { true }
    open spec fn sub_req(self, rhs: ri64) -> bool { i16::MIN <= self.val - rhs.val <= i16::MAX }
    open spec fn sub_spec(self, rhs: ri64) -> ri16 { ri16 { val: (self.val - rhs.val) as i16 } }
}
impl core::ops::Sub<ri64> for ri16 {
    type Output = ri16;
    #[verifier::external_body]
    fn sub(self, rhs: ri64) -> ri16 { unimplemented!() }
}
impl SubAssignSpecImpl<ri64> for ri16 {
    open spec fn obeys_sub_assign_spec() -> bool { true }
    open spec fn sub_assign_req(&self, rhs: ri64) -> bool { i16::MIN <= self.val - rhs.val <= i16::MAX }
    open spec fn sub_assign_spec(&self, rhs: ri64) -> &ri16 { &ri16 { val: (self.val - rhs.val) as i16 } }
}
impl core::ops::SubAssign<ri64> for ri16 {
    #[verifier::external_body]
    fn sub_assign(&mut self, rhs: ri64) { unimplemented!() }
}

impl MulSpecImpl<ri64> for ri16 {
    open spec fn obeys_mul_spec() -> bool { true }
    open spec fn mul_req(self, rhs: ri64) -> bool { i16::MIN <= self.val * rhs.val <= i16::MAX }
    open spec fn mul_spec(self, rhs: ri64) -> ri16 { ri16 { val: (self.val * rhs.val) as i16 } }
}
impl core::ops::Mul<ri64> for ri16 {
    type Output = ri16;
    #[verifier::external_body]
    fn mul(self, rhs: ri64) -> ri16 { unimplemented!() }
}
impl MulAssignSpecImpl<ri64> for ri16 {
    open spec fn obeys_mul_assign_spec() -> bool { true }
    open spec fn mul_assign_req(&self, rhs: ri64) -> bool { i16::MIN <= self.val * rhs.val <= i16::MAX }
    open spec fn mul_assign_spec(&self, rhs: ri64) -> &ri16 { &ri16 { val: (self.val * rhs.val) as i16 } }
}
impl core::ops::MulAssign<ri64> for ri16 {
    #[verifier::external_body]
    fn mul_assign(&mut self, rhs: ri64) { unimplemented!() }
}

impl DivSpecImpl<ri64> for ri16 {
    open spec fn obeys_div_spec() -> bool { true }
    open spec fn div_req(self, rhs: ri64) -> bool { rhs.val > 0 }
    open spec fn div_spec(self, rhs: ri64) -> ri16 { ri16 { val: (self.val as int / rhs.val as int) as i16 } }
}
impl core::ops::Div<ri64> for ri16 {
    type Output = ri16;
    #[verifier::external_body]
    fn div(self, rhs: ri64) -> ri16 { unimplemented!() }
}
impl RemSpecImpl<ri64> for ri16 {
    open spec fn obeys_rem_spec() -> bool { true }
    open spec fn rem_req(self, rhs: ri64) -> bool { rhs.val > 0 }
    open spec fn rem_spec(self, rhs: ri64) -> ri16 { ri16 { val: (self.val as int % rhs.val as int) as i16 } }
}
impl core::ops::Rem<ri64> for ri16 {
    type Output = ri16;
    #[verifier::external_body]
    fn rem(self, rhs: ri64) -> ri16 { unimplemented!() }
}

impl AddSpecImpl<ri128> for ri16 {
    open spec fn obeys_add_spec() -> bool { true }
    open spec fn add_req(self, rhs: ri128) -> bool { i16::MIN <= self.val + rhs.val <= i16::MAX }
    open spec fn add_spec(self, rhs: ri128) -> ri16 { ri16 { val: (self.val + rhs.val) as i16 } }
}
impl core::ops::Add<ri128> for ri16 {
    type Output = ri16;
    #[verifier::external_body]
    fn add(self, rhs: ri128) -> ri16 { unimplemented!() }
}
impl AddAssignSpecImpl<ri128> for ri16 {
    open spec fn obeys_add_assign_spec() -> bool { true }
    open spec fn add_assign_req(&self, rhs: ri128) -> bool { i16::MIN <= self.val + rhs.val <= i16::MAX }
    open spec fn add_assign_spec(&self, rhs: ri128) -> &ri16 { &ri16 { val: (self.val + rhs.val) as i16 } }
}
impl core::ops::AddAssign<ri128> for ri16 {
    #[verifier::external_body]
    fn add_assign(&mut self, rhs: ri128) { unimplemented!() }
}

impl SubSpecImpl<ri128> for ri16 {
    open spec fn obeys_sub_spec() -> bool { true }
    open spec fn sub_req(self, rhs: ri128) -> bool { i16::MIN <= self.val - rhs.val <= i16::MAX }
    open spec fn sub_spec(self, rhs: ri128) -> ri16 { ri16 { val: (self.val - rhs.val) as i16 } }
}
impl core::ops::Sub<ri128> for ri16 {
    type Output = ri16;
    #[verifier::external_body]
    fn sub(self, rhs: ri128) -> ri16 { unimplemented!() }
}
impl SubAssignSpecImpl<ri128> for ri16 {
    open spec fn obeys_sub_assign_spec() -> bool { true }
    open spec fn sub_assign_req(&self, rhs: ri128) -> bool { i16::MIN <= self.val - rhs.val <= i16::MAX }
    open spec fn sub_assign_spec(&self, rhs: ri128) -> &ri16 { &ri16 { val: (self.val - rhs.val) as i16 } }
}
impl core::ops::SubAssign<ri128> for ri16 {
    #[verifier::external_body]
    fn sub_assign(&mut self, rhs: ri128) { unimplemented!() }
}

impl MulSpecImpl<ri128> for ri16 {
    open spec fn obeys_mul_spec() -> bool { true }
    open spec fn mul_req(self, rhs: ri128) -> bool { i16::MIN <= self.val * rhs.val <= i16::MAX }
    open spec fn mul_spec(self, rhs: ri128) -> ri16 { ri16 { val: (self.val * rhs.val) as i16 } }
}
impl core::ops::Mul<ri128> for ri16 {
    type Output = ri16;
    #[verifier::external_body]
    fn mul(self, rhs: ri128) -> ri16 { unimplemented!() }
}
impl MulAssignSpecImpl<ri128> for ri16 {
    open spec fn obeys_mul_assign_spec() -> bool { true }
    open spec fn mul_assign_req(&self, rhs: ri128) -> bool { i16::MIN <= self.val * rhs.val <= i16::MAX }
    open spec fn mul_assign_spec(&self, rhs: ri128) -> &ri16 { &ri16 { val: (self.val * rhs.val) as i16 } }
}
impl core::ops::MulAssign<ri128> for ri16 {
    #[verifier::external_body]
    fn mul_assign(&mut self, rhs: ri128) { unimplemented!() }
}

impl DivSpecImpl<ri128> for ri16 {
    open spec fn obeys_div_spec() -> bool { true }
    open spec fn div_req(self, rhs: ri128) -> bool { rhs.val > 0 }
    open spec fn div_spec(self, rhs: ri128) -> ri16 { ri16 { val: (self.val as int / rhs.val as int) as i16 } }
}
impl core::ops::Div<ri128> for ri16 {
    type Output = ri16;
    #[verifier::external_body]
    fn div(self, rhs: ri128) -> ri16 { unimplemented!() }
}
impl RemSpecImpl<ri128> for ri16 {
    open spec fn obeys_rem_spec() -> bool { true }
    open spec fn rem_req(self, rhs: ri128) -> bool { rhs.val > 0 }
    open spec fn rem_spec(self, rhs: ri128) -> ri16 { ri16 { val: (self.val as int % rhs.val as int) as i16 } }
}
impl core::ops::Rem<ri128> for ri16 {
    type Output = ri16;
    #[verifier::external_body]
    fn rem(self, rhs: ri128) -> ri16 { unimplemented!() }
}

impl NegSpecImpl for ri16 {
    open spec fn obeys_neg_spec() -> bool { true }
    open spec fn neg_req(self) -> bool { self.val > i16::MIN }
    open spec fn neg_spec(self) -> ri16 { ri16 { val: (-self.val) as i16 } }
}
impl core::ops::Neg for ri16 {
    type Output = ri16;
    #[verifier::external_body]
    fn neg(self) -> ri16 { unimplemented!() }
}


// ------------------------------------------------------------------ ri32
#[derive(Clone, Copy)]
pub struct ri32 { pub val: i32 }
impl ri32 {
    pub fn new_unchecked(val: i32) -> (r: Self) ensures r.val == val { ri32 { val } }
    pub fn get(self) -> (r: i32) ensures r == self.val { self.val }
    pub fn get_unchecked(self) -> (r: i32) ensures r == self.val { self.val }
    pub fn without_bounds(self) -> (r: Self) ensures r == self { self }
    // `T::N::<VAL>()` is rewritten to `T::verif_N(VAL)`: the constant VAL (release: `Self { val: VAL }`, no bound is consulted).
    // (Not modelled with a const generic: Verus 0.2026.09.13 derives `false` from a negative const generic argument.)
    pub const fn verif_N(v: i32) -> (r: Self) ensures r.val == v { ri32 { val: v } }
    #[verifier::external_body]
    pub fn abs(self) -> (r: Self)
        requires self.val > i32::MIN,
        ensures r.val == (if self.val < 0 { -self.val } else { self.val as int })
    { unimplemented!() }
    // real: returns `riN<-1, 1>` of the SAME width
    pub fn signum(self) -> (r: Self) ensures r.val == (if self.val < 0 { -1int } else if self.val > 0 { 1int } else { 0int })
    { if self.val < 0 { ri32 { val: -1 } } else if self.val > 0 { ri32 { val: 1 } } else { ri32 { val: 0 } } }
    pub fn min<R: RInto<Self>>(self, other: R) -> (r: Self)
        requires other.rinto_req(),
        ensures r.val == (if other.rinto_spec().val < self.val { other.rinto_spec().val } else { self.val })
    { let o = other.rinto(); if o.val < self.val { o } else { self } }
    pub fn max<R: RInto<Self>>(self, other: R) -> (r: Self)
        requires other.rinto_req(),
        ensures r.val == (if other.rinto_spec().val > self.val { other.rinto_spec().val } else { self.val })
    { let o = other.rinto(); if o.val > self.val { o } else { self } }
    // truncating
    #[verifier::external_body]
    pub fn div_ceil<R: RInto<Self>>(self, rhs: R) -> (r: Self)
        requires rhs.rinto_req(), rhs.rinto_spec().val != 0, !(self.val == i32::MIN && rhs.rinto_spec().val == -1),
        ensures r.val == tdiv(self.val as int, rhs.rinto_spec().val as int)
    { unimplemented!() }
    #[verifier::external_body]
    pub fn rem_ceil<R: RInto<Self>>(self, rhs: R) -> (r: Self)
        requires rhs.rinto_req(), rhs.rinto_spec().val != 0, !(self.val == i32::MIN && rhs.rinto_spec().val == -1),
        ensures r.val == trem(self.val as int, rhs.rinto_spec().val as int)
    { unimplemented!() }
    // Euclidean (divisor > 0 required here; every use in jiff divides by a positive quantity)
    #[verifier::external_body]
    pub fn div_floor<R: RInto<Self>>(self, rhs: R) -> (r: Self)
        requires rhs.rinto_req(), rhs.rinto_spec().val > 0,
        ensures r.val == (self.val as int) / (rhs.rinto_spec().val as int)
    { unimplemented!() }
    #[verifier::external_body]
    pub fn rem_floor<R: RInto<Self>>(self, rhs: R) -> (r: Self)
        requires rhs.rinto_req(), rhs.rinto_spec().val > 0,
        ensures r.val == (self.val as int) % (rhs.rinto_spec().val as int)
    { unimplemented!() }
    #[verifier::external_body]
    pub fn saturating_mul<R: RInto<Self>>(self, rhs: R) -> (r: Self)
        requires rhs.rinto_req(),
        ensures i32::MIN <= self.val * rhs.rinto_spec().val <= i32::MAX ==> r.val == self.val * rhs.rinto_spec().val,
                self.val * rhs.rinto_spec().val > i32::MAX ==> r.val == i32::MAX,
                self.val * rhs.rinto_spec().val < i32::MIN ==> r.val == i32::MIN,
    { unimplemented!() }
    #[verifier::external_body]
    pub fn saturating_add<R: RInto<Self>>(self, rhs: R) -> (r: Self)
        requires rhs.rinto_req(),
        ensures i32::MIN <= self.val + rhs.rinto_spec().val <= i32::MAX ==> r.val == self.val + rhs.rinto_spec().val,
                self.val + rhs.rinto_spec().val > i32::MAX ==> r.val == i32::MAX,
                self.val + rhs.rinto_spec().val < i32::MIN ==> r.val == i32::MIN,
    { unimplemented!() }
}
// `type Range = ri32<{ LO }, { HI }>; Range::try_new("what", v)`: the bounds of an anonymous range are passed explicitly
#[verifier::external_body]
pub fn verif_try_new_range_32(lo: i128, hi: i128, v: i64) -> (res: Result<ri32, Error>)
    requires i32::MIN <= lo, hi <= i32::MAX,
    ensures res.is_ok() <==> lo <= v <= hi, res.is_ok() ==> res.unwrap().val == v
{ unimplemented!() }
impl RInto<ri32> for ri32 {
    open spec fn rinto_spec(self) -> ri32 { self }
    open spec fn rinto_req(self) -> bool { true }
    fn rinto(self) -> (r: ri32) { self }
}
impl RFrom<ri32> for ri32 {
    open spec fn rfrom_spec(t: ri32) -> ri32 { t }
    open spec fn rfrom_req(t: ri32) -> bool { true }
    fn rfrom(t: ri32) -> (r: ri32) { t }
}
impl RInto<ri32> for Constant {
    open spec fn rinto_spec(self) -> ri32 { ri32 { val: self.0 as i32 } }
    open spec fn rinto_req(self) -> bool { i32::MIN <= self.0 <= i32::MAX }
    #[verifier::external_body]
    fn rinto(self) -> (r: ri32) { unimplemented!() }
}
impl RFrom<Constant> for ri32 {
    open spec fn rfrom_spec(t: Constant) -> ri32 { ri32 { val: t.0 as i32 } }
    open spec fn rfrom_req(t: Constant) -> bool { i32::MIN <= t.0 <= i32::MAX }
    #[verifier::external_body]
    fn rfrom(t: Constant) -> (r: ri32) { unimplemented!() }
}
impl RInto<i32> for ri32 {
    open spec fn rinto_spec(self) -> i32 { self.val }
    open spec fn rinto_req(self) -> bool { true }
    fn rinto(self) -> (r: i32) { self.val }
}

impl PartialEqSpecImpl<ri32> for ri32 {
    open spec fn obeys_eq_spec() -> bool { true }
    open spec fn eq_spec(&self, other: &ri32) -> bool { self.val == other.val }
}
impl PartialEq<ri32> for ri32 {
    #[verifier::external_body]
    fn eq(&self, other: &ri32) -> bool { unimplemented!() }
}
impl PartialOrdSpecImpl<ri32> for ri32 {
    open spec fn obeys_partial_cmp_spec() -> bool { true }
    open spec fn partial_cmp_spec(&self, other: &ri32) -> Option<Ordering> { Some(int_cmp(self.val as int, other.val as int)) }
}
impl PartialOrd<ri32> for ri32 {
    #[verifier::external_body]
    fn partial_cmp(&self, other: &ri32) -> Option<Ordering> { unimplemented!() }
}

impl PartialEqSpecImpl<Constant> for ri32 {
    open spec fn obeys_eq_spec() -> bool { true }
    open spec fn eq_spec(&self, other: &Constant) -> bool { self.val == other.0 }
}
impl PartialEq<Constant> for ri32 {
    #[verifier::external_body]
    fn eq(&self, other: &Constant) -> bool { unimplemented!() }
}
impl PartialOrdSpecImpl<Constant> for ri32 {
    open spec fn obeys_partial_cmp_spec() -> bool { true }
    open spec fn partial_cmp_spec(&self, other: &Constant) -> Option<Ordering> { Some(int_cmp(self.val as int, other.0 as int)) }
}
impl PartialOrd<Constant> for ri32 {
    #[verifier::external_body]
    fn partial_cmp(&self, other: &Constant) -> Option<Ordering> { unimplemented!() }
}

impl PartialEqSpecImpl<ri8> for ri32 {
    open spec fn obeys_eq_spec() -> bool { true }
    open spec fn eq_spec(&self, other: &ri8) -> bool { self.val == other.val }
}
impl PartialEq<ri8> for ri32 {
    #[verifier::external_body]
    fn eq(&self, other: &ri8) -> bool { unimplemented!() }
}
impl PartialOrdSpecImpl<ri8> for ri32 {
    open spec fn obeys_partial_cmp_spec() -> bool { true }
    open spec fn partial_cmp_spec(&self, other: &ri8) -> Option<Ordering> { Some(int_cmp(self.val as int, other.val as int)) }
}
impl PartialOrd<ri8> for ri32 {
    #[verifier::external_body]
    fn partial_cmp(&self, other: &ri8) -> Option<Ordering> { unimplemented!() }
}

impl PartialEqSpecImpl<ri16> for ri32 {
    open spec fn obeys_eq_spec() -> bool { true }
    open spec fn eq_spec(&self, other: &ri16) -> bool { self.val == other.val }
}
impl PartialEq<ri16> for ri32 {
    #[verifier::external_body]
    fn eq(&self, other: &ri16) -> bool { unimplemented!() }
}
impl PartialOrdSpecImpl<ri16> for ri32 {
    open spec fn obeys_partial_cmp_spec() -> bool { true }
    open spec fn partial_cmp_spec(&self, other: &ri16) -> Option<Ordering> { Some(int_cmp(self.val as int, other.val as int)) }
}
impl PartialOrd<ri16> for ri32 {
    #[verifier::external_body]
    fn partial_cmp(&self, other: &ri16) -> Option<Ordering> { unimplemented!() }
}

impl PartialEqSpecImpl<ri64> for ri32 {
    open spec fn obeys_eq_spec() -> bool { true }
    open spec fn eq_spec(&self, other: &ri64) -> bool { self.val == other.val }
}
impl PartialEq<ri64> for ri32 {
    #[verifier::external_body]
    fn eq(&self, other: &ri64) -> bool { unimplemented!() }
}
impl PartialOrdSpecImpl<ri64> for ri32 {
    open spec fn obeys_partial_cmp_spec() -> bool { true }
    open spec fn partial_cmp_spec(&self, other: &ri64) -> Option<Ordering> { Some(int_cmp(self.val as int, other.val as int)) }
}
impl PartialOrd<ri64> for ri32 {
    #[verifier::external_body]
    fn partial_cmp(&self, other: &ri64) -> Option<Ordering> { unimplemented!() }
}

impl PartialEqSpecImpl<ri128> for ri32 {
    open spec fn obeys_eq_spec() -> bool { true }
    open spec fn eq_spec(&self, other: &ri128) -> bool { self.val == other.val }
}
impl PartialEq<ri128> for ri32 {
    #[verifier::external_body]
    fn eq(&self, other: &ri128) -> bool { unimplemented!() }
}
impl PartialOrdSpecImpl<ri128> for ri32 {
    open spec fn obeys_partial_cmp_spec() -> bool { true }
    open spec fn partial_cmp_spec(&self, other: &ri128) -> Option<Ordering> { Some(int_cmp(self.val as int, other.val as int)) }
}
impl PartialOrd<ri128> for ri32 {
    #[verifier::external_body]
    fn partial_cmp(&self, other: &ri128) -> Option<Ordering> { unimplemented!() }
}

impl AddSpecImpl<ri32> for ri32 {
    open spec fn obeys_add_spec() -> bool { true }
    open spec fn add_req(self, rhs: ri32) -> bool { i32::MIN <= self.val + rhs.val <= i32::MAX }
    open spec fn add_spec(self, rhs: ri32) -> ri32 { ri32 { val: (self.val + rhs.val) as i32 } }
}
impl core::ops::Add<ri32> for ri32 {
    type Output = ri32;
    #[verifier::external_body]
    fn add(self, rhs: ri32) -> ri32 { unimplemented!() }
}
impl AddAssignSpecImpl<ri32> for ri32 {
    open spec fn obeys_add_assign_spec() -> bool { true }
    open spec fn add_assign_req(&self, rhs: ri32) -> bool { i32::MIN <= self.val + rhs.val <= i32::MAX }
    open spec fn add_assign_spec(&self, rhs: ri32) -> &ri32 { &ri32 { val: (self.val + rhs.val) as i32 } }
}
impl core::ops::AddAssign<ri32> for ri32 {
    #[verifier::external_body]
    fn add_assign(&mut self, rhs: ri32) { unimplemented!() }
}

impl SubSpecImpl<ri32> for ri32 {
    open spec fn obeys_sub_spec() -> bool { true }
    open spec fn sub_req(self, rhs: ri32) -> bool { i32::MIN <= self.val - rhs.val <= i32::MAX }
    open spec fn sub_spec(self, rhs: ri32) -> ri32 { ri32 { val: (self.val - rhs.val) as i32 } }
}
impl core::ops::Sub<ri32> for ri32 {
    type Output = ri32;
    #[verifier::external_body]
    fn sub(self, rhs: ri32) -> ri32 { unimplemented!() }
}
impl SubAssignSpecImpl<ri32> for ri32 {
    open spec fn obeys_sub_assign_spec() -> bool { true }
    open spec fn sub_assign_req(&self, rhs: ri32) -> bool { i32::MIN <= self.val - rhs.val <= i32::MAX }
    open spec fn sub_assign_spec(&self, rhs: ri32) -> &ri32 { &ri32 { val: (self.val - rhs.val) as i32 } }
}
impl core::ops::SubAssign<ri32> for ri32 {
    #[verifier::external_body]
    fn sub_assign(&mut self, rhs: ri32) { unimplemented!() }
}

impl MulSpecImpl<ri32> for ri32 {
    open spec fn obeys_mul_spec() -> bool { true }
    open spec fn mul_req(self, rhs: ri32) -> bool { i32::MIN <= self.val * rhs.val <= i32::MAX }
    open spec fn mul_spec(self, rhs: ri32) -> ri32 { ri32 { val: (self.val * rhs.val) as i32 } }
}
impl core::ops::Mul<ri32> for ri32 {
    type Output = ri32;
    #[verifier::external_body]
    fn mul(self, rhs: ri32) -> ri32 { unimplemented!() }
}
impl MulAssignSpecImpl<ri32> for ri32 {
    open spec fn obeys_mul_assign_spec() -> bool { true }
    open spec fn mul_assign_req(&self, rhs: ri32) -> bool { i32::MIN <= self.val * rhs.val <= i32::MAX }
    open spec fn mul_assign_spec(&self, rhs: ri32) -> &ri32 { &ri32 { val: (self.val * rhs.val) as i32 } }
}
impl core::ops::MulAssign<ri32> for ri32 {
    #[verifier::external_body]
    fn mul_assign(&mut self, rhs: ri32) { unimplemented!() }
}

impl DivSpecImpl<ri32> for ri32 {
    open spec fn obeys_div_spec() -> bool { true }
    open spec fn div_req(self, rhs: ri32) -> bool { rhs.val > 0 }
    open spec fn div_spec(self, rhs: ri32) -> ri32 { ri32 { val: (self.val as int / rhs.val as int) as i32 } }
}
impl core::ops::Div<ri32> for ri32 {
    type Output = ri32;
    #[verifier::external_body]
    fn div(self, rhs: ri32) -> ri32 { unimplemented!() }
}
impl RemSpecImpl<ri32> for ri32 {
    open spec fn obeys_rem_spec() -> bool { true }
    open spec fn rem_req(self, rhs: ri32) -> bool { rhs.val > 0 }
    open spec fn rem_spec(self, rhs: ri32) -> ri32 { ri32 { val: (self.val as int % rhs.val as int) as i32 } }
}
impl core::ops::Rem<ri32> for ri32 {
    type Output = ri32;
    #[verifier::external_body]
    fn rem(self, rhs: ri32) -> ri32 { unimplemented!() }
}

impl AddSpecImpl<Constant> for ri32 {
    open spec fn obeys_add_spec() -> bool { true }
    open spec fn add_req(self, rhs: Constant) -> bool { i32::MIN <= self.val + rhs.0 <= i32::MAX }
    open spec fn add_spec(self, rhs: Constant) -> ri32 { ri32 { val: (self.val + rhs.0) as i32 } }
}
impl core::ops::Add<Constant> for ri32 {
    type Output = ri32;
    #[verifier::external_body]
    fn add(self, rhs: Constant) -> ri32 { unimplemented!() }
}
impl AddAssignSpecImpl<Constant> for ri32 {
    open spec fn obeys_add_assign_spec() -> bool { true }
    open spec fn add_assign_req(&self, rhs: Constant) -> bool { i32::MIN <= self.val + rhs.0 <= i32::MAX }
    open spec fn add_assign_spec(&self, rhs: Constant) -> &ri32 { &ri32 { val: (self.val + rhs.0) as i32 } }
}
impl core::ops::AddAssign<Constant> for ri32 {
    #[verifier::external_body]
    fn add_assign(&mut self, rhs: Constant) { unimplemented!() }
}

impl SubSpecImpl<Constant> for ri32 {
    open spec fn obeys_sub_spec() -> bool { true }
    open spec fn sub_req(self, rhs: Constant) -> bool { i32::MIN <= self.val - rhs.0 <= i32::MAX }
    open spec fn sub_spec(self, rhs: Constant) -> ri32 { ri32 { val: (self.val - rhs.0) as i32 } }
}
impl core::ops::Sub<Constant> for ri32 {
    type Output = ri32;
    #[verifier::external_body]
    fn sub(self, rhs: Constant) -> ri32 { unimplemented!() }
}
impl SubAssignSpecImpl<Constant> for ri32 {
    open spec fn obeys_sub_assign_spec() -> bool { true }
    open spec fn sub_assign_req(&self, rhs: Constant) -> bool { i32::MIN <= self.val - rhs.0 <= i32::MAX }
    open spec fn sub_assign_spec(&self, rhs: Constant) -> &ri32 { &ri32 { val: (self.val - rhs.0) as i32 } }
}
impl core::ops::SubAssign<Constant> for ri32 {
    #[verifier::external_body]
    fn sub_assign(&mut self, rhs: Constant) { unimplemented!() }
}

impl MulSpecImpl<Constant> for ri32 {
    open spec fn obeys_mul_spec() -> bool { true }
    open spec fn mul_req(self, rhs: Constant) -> bool { i32::MIN <= self.val * rhs.0 <= i32::MAX }
    open spec fn mul_spec(self, rhs: Constant) -> ri32 { ri32 { val: (self.val * rhs.0) as i32 } }
}
impl core::ops::Mul<Constant> for ri32 {
    type Output = ri32;
    #[verifier::external_body]
    fn mul(self, rhs: Constant) -> ri32 { unimplemented!() }
}
impl MulAssignSpecImpl<Constant> for ri32 {
    open spec fn obeys_mul_assign_spec() -> bool { true }
    open spec fn mul_assign_req(&self, rhs: Constant) -> bool { i32::MIN <= self.val * rhs.0 <= i32::MAX }
    open spec fn mul_assign_spec(&self, rhs: Constant) -> &ri32 { &ri32 { val: (self.val * rhs.0) as i32 } }
}
impl core::ops::MulAssign<Constant> for ri32 {
    #[verifier::external_body]
    fn mul_assign(&mut self, rhs: Constant) { unimplemented!() }
}

impl DivSpecImpl<Constant> for ri32 {
    open spec fn obeys_div_spec() -> bool { true }
    open spec fn div_req(self, rhs: Constant) -> bool { rhs.0 > 0 }
    open spec fn div_spec(self, rhs: Constant) -> ri32 { ri32 { val: (self.val as int / rhs.0 as int) as i32 } }
}
impl core::ops::Div<Constant> for ri32 {
    type Output = ri32;
    #[verifier::external_body]
    fn div(self, rhs: Constant) -> ri32 { unimplemented!() }
}
impl RemSpecImpl<Constant> for ri32 {
    open spec fn obeys_rem_spec() -> bool { true }
    open spec fn rem_req(self, rhs: Constant) -> bool { rhs.0 > 0 }
    open spec fn rem_spec(self, rhs: Constant) -> ri32 { ri32 { val: (self.val as int % rhs.0 as int) as i32 } }
}
impl core::ops::Rem<Constant> for ri32 {
    type Output = ri32;
    #[verifier::external_body]
    fn rem(self, rhs: Constant) -> ri32 { unimplemented!() }
}

impl AddSpecImpl<ri8> for ri32 {
    open spec fn obeys_add_spec() -> bool { true }
    open spec fn add_req(self, rhs: ri8) -> bool { i32::MIN <= self.val + rhs.val <= i32::MAX }
    open spec fn add_spec(self, rhs: ri8) -> ri32 { ri32 { val: (self.val + rhs.val) as i32 } }
}
impl core::ops::Add<ri8> for ri32 {
    type Output = ri32;
    #[verifier::external_body]
    fn add(self, rhs: ri8) -> ri32 { unimplemented!() }
}
impl AddAssignSpecImpl<ri8> for ri32 {
    open spec fn obeys_add_assign_spec() -> bool { true }
    open spec fn add_assign_req(&self, rhs: ri8) -> bool { i32::MIN <= self.val + rhs.val <= i32::MAX }
    open spec fn add_assign_spec(&self, rhs: ri8) -> &ri32 { &ri32 { val: (self.val + rhs.val) as i32 } }
}
impl core::ops::AddAssign<ri8> for ri32 {
    #[verifier::external_body]
    fn add_assign(&mut self, rhs: ri8) { unimplemented!() }
}

impl SubSpecImpl<ri8> for ri32 {
    open spec fn obeys_sub_spec() -> bool { true }
    open spec fn sub_req(self, rhs: ri8) -> bool { i32::MIN <= self.val - rhs.val <= i32::MAX }
    open spec fn sub_spec(self, rhs: ri8) -> ri32 { ri32 { val: (self.val - rhs.val) as i32 } }
}
impl core::ops::Sub<ri8> for ri32 {
    type Output = ri32;
    #[verifier::external_body]
    fn sub(self, rhs: ri8) -> ri32 { unimplemented!() }
}
impl SubAssignSpecImpl<ri8> for ri32 {
    open spec fn obeys_sub_assign_spec() -> bool { true }
    open spec fn sub_assign_req(&self, rhs: ri8) -> bool { i32::MIN <= self.val - rhs.val <= i32::MAX }
    open spec fn sub_assign_spec(&self, rhs: ri8) -> &ri32 { &ri32 { val: (self.val - rhs.val) as i32 } }
}
impl core::ops::SubAssign<ri8> for ri32 {
    #[verifier::external_body]
    fn sub_assign(&mut self, rhs: ri8) { unimplemented!() }
}

impl MulSpecImpl<ri8> for ri32 {
    open spec fn obeys_mul_spec() -> bool { true }
    open spec fn mul_req(self, rhs: ri8) -> bool { i32::MIN <= self.val * rhs.val <= i32::MAX }
    open spec fn mul_spec(self, rhs: ri8) -> ri32 { ri32 { val: (self.val * rhs.val) as i32 } }
}
impl core::ops::Mul<ri8> for ri32 {
    type Output = ri32;
    #[verifier::external_body]
    fn mul(self, rhs: ri8) -> ri32 { unimplemented!() }
}
impl MulAssignSpecImpl<ri8> for ri32 {
    open spec fn obeys_mul_assign_spec() -> bool { true }
    open spec fn mul_assign_req(&self, rhs: ri8) -> bool { i32::MIN <= self.val * rhs.val <= i32::MAX }
    open spec fn mul_assign_spec(&self, rhs: ri8) -> &ri32 { &ri32 { val: (self.val * rhs.val) as i32 } }
}
impl core::ops::MulAssign<ri8> for ri32 {
    #[verifier::external_body]
    fn mul_assign(&mut self, rhs: ri8) { unimplemented!() }
}

impl DivSpecImpl<ri8> for ri32 {
    open spec fn obeys_div_spec() -> bool { true }
    open spec fn div_req(self, rhs: ri8) -> bool { rhs.val > 0 }
    open spec fn div_spec(self, rhs: ri8) -> ri32 { ri32 { val: (self.val as int / rhs.val as int) as i32 } }
}
impl core::ops::Div<ri8> for ri32 {
    type Output = ri32;
    #[verifier::external_body]
    fn div(self, rhs: ri8) -> ri32 { unimplemented!() }
}
impl RemSpecImpl<ri8> for ri32 {
    open spec fn obeys_rem_spec() -> bool { true }
    open spec fn rem_req(self, rhs: ri8) -> bool { rhs.val > 0 }
    open spec fn rem_spec(self, rhs: ri8) -> ri32 { ri32 { val: (self.val as int % rhs.val as int) as i32 } }
}
impl core::ops::Rem<ri8> for ri32 {
    type Output = ri32;
    #[verifier::external_body]
    fn rem(self, rhs: ri8) -> ri32 { unimplemented!() }
}

impl AddSpecImpl<ri16> for ri32 {
    open spec fn obeys_add_spec() -> bool { true }
    open spec fn add_req(self, rhs: ri16) -> bool { i32::MIN <= self.val + rhs.val <= i32::MAX }
    open spec fn add_spec(self, rhs: ri16) -> ri32 { ri32 { val: (self.val + rhs.val) as i32 } }
}
impl core::ops::Add<ri16> for ri32 {
    type Output = ri32;
    #[verifier::external_body]
    fn add(self, rhs: ri16) -> ri32 { unimplemented!() }
}
impl AddAssignSpecImpl<ri16> for ri32 {
    open spec fn obeys_add_assign_spec() -> bool { true }
    open spec fn add_assign_req(&self, rhs: ri16) -> bool { i32::MIN <= self.val + rhs.val <= i32::MAX }
    open spec fn add_assign_spec(&self, rhs: ri16) -> &ri32 { &ri32 { val: (self.val + rhs.val) as i32 } }
}
impl core::ops::AddAssign<ri16> for ri32 {
    #[verifier::external_body]
    fn add_assign(&mut self, rhs: ri16) { unimplemented!() }
}

impl SubSpecImpl<ri16> for ri32 {
    open spec fn obeys_sub_spec() -> bool { true }
    open spec fn sub_req(self, rhs: ri16) -> bool { i32::MIN <= self.val - rhs.val <= i32::MAX }
    open spec fn sub_spec(self, rhs: ri16) -> ri32 { ri32 { val: (self.val - rhs.val) as i32 } }
}
impl core::ops::Sub<ri16> for ri32 {
    type Output = ri32;
    #[verifier::external_body]
    fn sub(self, rhs: ri16) -> ri32 { unimplemented!() }
}
impl SubAssignSpecImpl<ri16> for ri32 {
    open spec fn obeys_sub_assign_spec() -> bool { true }
    open spec fn sub_assign_req(&self, rhs: ri16) -> bool { i32::MIN <= self.val - rhs.val <= i32::MAX }
    open spec fn sub_assign_spec(&self, rhs: ri16) -> &ri32 { &ri32 { val: (self.val - rhs.val) as i32 } }
}
impl core::ops::SubAssign<ri16> for ri32 {
    #[verifier::external_body]
    fn sub_assign(&mut self, rhs: ri16) { unimplemented!() }
}

impl MulSpecImpl<ri16> for ri32 {
    open spec fn obeys_mul_spec() -> bool { true }
    open spec fn mul_req(self, rhs: ri16) -> bool { i32::MIN <= self.val * rhs.val <= i32::MAX }
    open spec fn mul_spec(self, rhs: ri16) -> ri32 { ri32 { val: (self.val * rhs.val) as i32 } }
}
impl core::ops::Mul<ri16> for ri32 {
    type Output = ri32;
    #[verifier::external_body]
    fn mul(self, rhs: ri16) -> ri32 { unimplemented!() }
}
impl MulAssignSpecImpl<ri16> for ri32 {
    open spec fn obeys_mul_assign_spec() -> bool { true }
    open spec fn mul_assign_req(&self, rhs: ri16) -> bool { i32::MIN <= self.val * rhs.val <= i32::MAX }
    open spec fn mul_assign_spec(&self, rhs: ri16) -> &ri32 { &ri32 { val: (self.val * rhs.val) as i32 } }
}
impl core::ops::MulAssign<ri16> for ri32 {
    #[verifier::external_body]
    fn mul_assign(&mut self, rhs: ri16) { unimplemented!() }
}

impl DivSpecImpl<ri16> for ri32 {
    open spec fn obeys_div_spec() -> bool { true }
    open spec fn div_req(self, rhs: ri16) -> bool { rhs.val > 0 }
    open spec fn div_spec(self, rhs: ri16) -> ri32 { ri32 { val: (self.val as int / rhs.val as int) as i32 } }
}
impl core::ops::Div<ri16> for ri32 {
    type Output = ri32;
    #[verifier::external_body]
    fn div(self, rhs: ri16) -> ri32 { unimplemented!() }
}
impl RemSpecImpl<ri16> for ri32 {
    open spec fn obeys_rem_spec() -> bool { true }
    open spec fn rem_req(self, rhs: ri16) -> bool { rhs.val > 0 }
    open spec fn rem_spec(self, rhs: ri16) -> ri32 { ri32 { val: (self.val as int % rhs.val as int) as i32 } }
}
impl core::ops::Rem<ri16> for ri32 {
    type Output = ri32;
    #[verifier::external_body]
    fn rem(self, rhs: ri16) -> ri32 { unimplemented!() }
}

impl AddSpecImpl<ri64> for ri32 {
    open spec fn obeys_add_spec() -> bool { true }
    open spec fn add_req(self, rhs: ri64) -> bool { i32::MIN <= self.val + rhs.val <= i32::MAX }
    open spec fn add_spec(self, rhs: ri64) -> ri32 { ri32 { val: (self.val + rhs.val) as i32 } }
}
impl core::ops::Add<ri64> for ri32 {
    type Output = ri32;
    #[verifier::external_body]
    fn add(self, rhs: ri64) -> ri32 { unimplemented!() }
}
impl AddAssignSpecImpl<ri64> for ri32 {
    open spec fn obeys_add_assign_spec() -> bool { true }
    open spec fn add_assign_req(&self, rhs: ri64) -> bool { i32::MIN <= self.val + rhs.val <= i32::MAX }
    open spec fn add_assign_spec(&self, rhs: ri64) -> &ri32 { &ri32 { val: (self.val + rhs.val) as i32 } }
}
impl core::ops::AddAssign<ri64> for ri32 {
    #[verifier::external_body]
    fn add_assign(&mut self, rhs: ri64) { unimplemented!() }
}

impl SubSpecImpl<ri64> for ri32 {
    open spec fn obeys_sub_spec() -> bool { true }
    open spec fn sub_req(self, rhs: ri64) -> bool { i32::MIN <= self.val - rhs.val <= i32::MAX }
    open spec fn sub_spec(self, rhs: ri64) -> ri32 { ri32 { val: (self.val - rhs.val) as i32 } }
}
impl core::ops::Sub<ri64> for ri32 {
    type Output = ri32;
    #[verifier::external_body]
    fn sub(self, rhs: ri64) -> ri32 { unimplemented!() }
}
impl SubAssignSpecImpl<ri64> for ri32 {
    open spec fn obeys_sub_assign_spec() -> bool { true }
    open spec fn sub_assign_req(&self, rhs: ri64) -> bool { i32::MIN <= self.val - rhs.val <= i32::MAX }
    open spec fn sub_assign_spec(&self, rhs: ri64) -> &ri32 { &ri32 { val: (self.val - rhs.val) as i32 } }
}
impl core::ops::SubAssign<ri64> for ri32 {
    #[verifier::external_body]
    fn sub_assign(&mut self, rhs: ri64) { unimplemented!() }
}

impl MulSpecImpl<ri64> for ri32 {
    open spec fn obeys_mul_spec() -> bool { true }
    open spec fn mul_req(self, rhs: ri64) -> bool { i32::MIN <= self.val * rhs.val <= i32::MAX }
    open spec fn mul_spec(self, rhs: ri64) -> ri32 { ri32 { val: (self.val * rhs.val) as i32 } }
}
impl core::ops::Mul<ri64> for ri32 {
    type Output = ri32;
    #[verifier::external_body]
    fn mul(self, rhs: ri64) -> ri32 { unimplemented!() }
}
impl MulAssignSpecImpl<ri64> for ri32 {
    open spec fn obeys_mul_assign_spec() -> bool { true }
    open spec fn mul_assign_req(&self, rhs: ri64) -> bool { i32::MIN <= self.val * rhs.val <= i32::MAX }
    open spec fn mul_assign_spec(&self, rhs: ri64) -> &ri32 { &ri32 { val: (self.val * rhs.val) as i32 } }
}
impl core::ops::MulAssign<ri64> for ri32 {
    #[verifier::external_body]
    fn mul_assign(&mut self, rhs: ri64) { unimplemented!() }
}

impl DivSpecImpl<ri64> for ri32 {
    open spec fn obeys_div_spec() -> bool { true }
    open spec fn div_req(self, rhs: ri64) -> bool { rhs.val > 0 }
    open spec fn div_spec(self, rhs: ri64) -> ri32 { ri32 { val: (self.val as int / rhs.val as int) as i32 } }
}
impl core::ops::Div<ri64> for ri32 {
    type Output = ri32;
    #[verifier::external_body]
    fn div(self, rhs: ri64) -> ri32 { unimplemented!() }
}
impl RemSpecImpl<ri64> for ri32 {
    open spec fn obeys_rem_spec() -> bool { true }
    open spec fn rem_req(self, rhs: ri64) -> bool { rhs.val > 0 }
    open spec fn rem_spec(self, rhs: ri64) -> ri32 { ri32 { val: (self.val as int % rhs.val as int) as i32 } }
}
impl core::ops::Rem<ri64> for ri32 {
    type Output = ri32;
    #[verifier::external_body]
    fn rem(self, rhs: ri64) -> ri32 { unimplemented!() }
}

impl AddSpecImpl<ri128> for ri32 {
    open spec fn obeys_add_spec() -> bool { true }
    open spec fn add_req(self, rhs: ri128) -> bool { i32::MIN <= self.val + rhs.val <= i32::MAX }
    open spec fn add_spec(self, rhs: ri128) -> ri32 { ri32 { val: (self.val + rhs.val) as i32 } }
}
impl core::ops::Add<ri128> for ri32 {
    type Output = ri32;
    #[verifier::external_body]
    fn add(self, rhs: ri128) -> ri32 { unimplemented!() }
}
impl AddAssignSpecImpl<ri128> for ri32 {
    open spec fn obeys_add_assign_spec() -> bool { true }
    open spec fn add_assign_req(&self, rhs: ri128) -> bool { i32::MIN <= self.val + rhs.val <= i32::MAX }
    open spec fn add_assign_spec(&self, rhs: ri128) -> &ri32 { &ri32 { val: (self.val + rhs.val) as i32 } }
}
impl core::ops::AddAssign<ri128> for ri32 {
    #[verifier::external_body]
    fn add_assign(&mut self, rhs: ri128) { unimplemented!() }
}

impl SubSpecImpl<ri128> for ri32 {
    open spec fn obeys_sub_spec() -> bool { true }
    open spec fn sub_req(self, rhs: ri128) -> bool { i32::MIN <= self.val - rhs.val <= i32::MAX }
    open spec fn sub_spec(self, rhs: ri128) -> ri32 { ri32 { val: (self.val - rhs.val) as i32 } }
}
impl core::ops::Sub<ri128> for ri32 {
    type Output = ri32;
    #[verifier::external_body]
    fn sub(self, rhs: ri128) -> ri32 { unimplemented!() }
}
impl SubAssignSpecImpl<ri128> for ri32 {
    open spec fn obeys_sub_assign_spec() -> bool { true }
    open spec fn sub_assign_req(&self, rhs: ri128) -> bool { i32::MIN <= self.val - rhs.val <= i32::MAX }
    open spec fn sub_assign_spec(&self, rhs: ri128) -> &ri32 { &ri32 { val: (self.val - rhs.val) as i32 } }
}
impl core::ops::SubAssign<ri128> for ri32 {
    #[verifier::external_body]
    fn sub_assign(&mut self, rhs: ri128) { unimplemented!() }
}

impl MulSpecImpl<ri128> for ri32 {
    open spec fn obeys_mul_spec() -> bool { true }
    open spec fn mul_req(self, rhs: ri128) -> bool { i32::MIN <= self.val * rhs.val <= i32::MAX }
    open spec fn mul_spec(self, rhs: ri128) -> ri32 { ri32 { val: (self.val * rhs.val) as i32 } }
}
impl core::ops::Mul<ri128> for ri32 {
    type Output = ri32;
    #[verifier::external_body]
    fn mul(self, rhs: ri128) -> ri32 { unimplemented!() }
}
impl MulAssignSpecImpl<ri128> for ri32 {
    open spec fn obeys_mul_assign_spec() -> bool { true }
    open spec fn mul_assign_req(&self, rhs: ri128) -> bool { i32::MIN <= self.val * rhs.val <= i32::MAX }
    open spec fn mul_assign_spec(&self, rhs: ri128) -> &ri32 { &ri32 { val: (self.val * rhs.val) as i32 } }
}
impl core::ops::MulAssign<ri128> for ri32 {
    #[verifier::external_body]
    fn mul_assign(&mut self, rhs: ri128) { unimplemented!() }
}

impl DivSpecImpl<ri128> for ri32 {
    open spec fn obeys_div_spec() -> bool { true }
    open spec fn div_req(self, rhs: ri128) -> bool { rhs.val > 0 }
    open spec fn div_spec(self, rhs: ri128) -> ri32 { ri32 { val: (self.val as int / rhs.val as int) as i32 } }
}
impl core::ops::Div<ri128> for ri32 {
    type Output = ri32;
    #[verifier::external_body]
    fn div(self, rhs: ri128) -> ri32 { unimplemented!() }
}
impl RemSpecImpl<ri128> for ri32 {
    open spec fn obeys_rem_spec() -> bool { true }
    open spec fn rem_req(self, rhs: ri128) -> bool { rhs.val > 0 }
    open spec fn rem_spec(self, rhs: ri128) -> ri32 { ri32 { val: (self.val as int % rhs.val as int) as i32 } }
}
impl core::ops::Rem<ri128> for ri32 {
    type Output = ri32;
    #[verifier::external_body]
    fn rem(self, rhs: ri128) -> ri32 { unimplemented!() }
}

impl NegSpecImpl for ri32 {
    open spec fn obeys_neg_spec() -> bool { true }
    open spec fn neg_req(self) -> bool { self.val > i32::MIN }
    open spec fn neg_spec(self) -> ri32 { ri32 { val: (-self.val) as i32 } }
}
impl core::ops::Neg for ri32 {
    type Output = ri32;
    #[verifier::external_body]
    fn neg(self) -> ri32 { unimplemented!() }
}


// ------------------------------------------------------------------ ri64
#[derive(Clone, Copy)]
pub struct ri64 { pub val: i64 }
impl ri64 {
    pub fn new_unchecked(val: i64) -> (r: Self) ensures r.val == val { ri64 { val } }
    pub fn get(self) -> (r: i64) ensures r == self.val { self.val }
    pub fn get_unchecked(self) -> (r: i64) ensures r == self.val { self.val }
    pub fn without_bounds(self) -> (r: Self) ensures r == self { self }
    // `T::N::<VAL>()` is rewritten to `T::verif_N(VAL)`: the constant VAL (release: `Self { val: VAL }`, no bound is consulted).
    // (Not modelled with a const generic: Verus 0.2026.09.13 derives `false` from a negative const generic argument.)
    pub const fn verif_N(v: i64) -> (r: Self) ensures r.val == v { ri64 { val: v } }
    #[verifier::external_body]
    pub fn abs(self) -> (r: Self)
        requires self.val > i64::MIN,
        ensures r.val == (if self.val < 0 { -self.val } else { self.val as int })
    { unimplemented!() }
    // real: returns `riN<-1, 1>` of the SAME width
    pub fn signum(self) -> (r: Self) ensures r.val == (if self.val < 0 { -1int } else if self.val > 0 { 1int } else { 0int })
    { if self.val < 0 { ri64 { val: -1 } } else if self.val > 0 { ri64 { val: 1 } } else { ri64 { val: 0 } } }
    pub fn min<R: RInto<Self>>(self, other: R) -> (r: Self)
        requires other.rinto_req(),
        ensures r.val == (if other.rinto_spec().val < self.val { other.rinto_spec().val } else { self.val })
    { let o = other.rinto(); if o.val < self.val { o } else { self } }
    pub fn max<R: RInto<Self>>(self, other: R) -> (r: Self)
        requires other.rinto_req(),
        ensures r.val == (if other.rinto_spec().val > self.val { other.rinto_spec().val } else { self.val })
    { let o = other.rinto(); if o.val > self.val { o } else { self } }
    // truncating
    #[verifier::external_body]
    pub fn div_ceil<R: RInto<Self>>(self, rhs: R) -> (r: Self)
        requires rhs.rinto_req(), rhs.rinto_spec().val != 0, !(self.val == i64::MIN && rhs.rinto_spec().val == -1),
        ensures r.val == tdiv(self.val as int, rhs.rinto_spec().val as int)
    { unimplemented!() }
    #[verifier::external_body]
    pub fn rem_ceil<R: RInto<Self>>(self, rhs: R) -> (r: Self)
        requires rhs.rinto_req(), rhs.rinto_spec().val != 0, !(self.val == i64::MIN && rhs.rinto_spec().val == -1),
        ensures r.val == trem(self.val as int, rhs.rinto_spec().val as int)
    { unimplemented!() }
    // Euclidean (divisor > 0 required here; every use in jiff divides by a positive quantity)
    #[verifier::external_body]
    pub fn div_floor<R: RInto<Self>>(self, rhs: R) -> (r: Self)
        requires rhs.rinto_req(), rhs.rinto_spec().val > 0,
        ensures r.val == (self.val as int) / (rhs.rinto_spec().val as int)
    { unimplemented!() }
    #[verifier::external_body]
    pub fn rem_floor<R: RInto<Self>>(self, rhs: R) -> (r: Self)
        requires rhs.rinto_req(), rhs.rinto_spec().val > 0,
        ensures r.val == (self.val as int) % (rhs.rinto_spec().val as int)
    { unimplemented!() }
    #[verifier::external_body]
    pub fn saturating_mul<R: RInto<Self>>(self, rhs: R) -> (r: Self)
        requires rhs.rinto_req(),
        ensures i64::MIN <= self.val * rhs.rinto_spec().val <= i64::MAX ==> r.val == self.val * rhs.rinto_spec().val,
                self.val * rhs.rinto_spec().val > i64::MAX ==> r.val == i64::MAX,
                self.val * rhs.rinto_spec().val < i64::MIN ==> r.val == i64::MIN,
    { unimplemented!() }
    #[verifier::external_body]
    pub fn saturating_add<R: RInto<Self>>(self, rhs: R) -> (r: Self)
        requires rhs.rinto_req(),
        ensures i64::MIN <= self.val + rhs.rinto_spec().val <= i64::MAX ==> r.val == self.val + rhs.rinto_spec().val,
                self.val + rhs.rinto_spec().val > i64::MAX ==> r.val == i64::MAX,
                self.val + rhs.rinto_spec().val < i64::MIN ==> r.val == i64::MIN,
    { unimplemented!() }
}
// `type Range = ri64<{ LO }, { HI }>; Range::try_new("what", v)`: the bounds of an anonymous range are passed explicitly
#[verifier::external_body]
pub fn verif_try_new_range_64(lo: i128, hi: i128, v: i64) -> (res: Result<ri64, Error>)
    requires i64::MIN <= lo, hi <= i64::MAX,
    ensures res.is_ok() <==> lo <= v <= hi, res.is_ok() ==> res.unwrap().val == v
{ unimplemented!() }
impl RInto<ri64> for ri64 {
    open spec fn rinto_spec(self) -> ri64 { self }
    open spec fn rinto_req(self) -> bool { true }
    fn rinto(self) -> (r: ri64) { self }
}
impl RFrom<ri64> for ri64 {
    open spec fn rfrom_spec(t: ri64) -> ri64 { t }
    open spec fn rfrom_req(t: ri64) -> bool { true }
    fn rfrom(t: ri64) -> (r: ri64) { t }
}
impl RInto<ri64> for Constant {
    open spec fn rinto_spec(self) -> ri64 { ri64 { val: self.0 as i64 } }
    open spec fn rinto_req(self) -> bool { i64::MIN <= self.0 <= i64::MAX }
    #[verifier::external_body]
    fn rinto(self) -> (r: ri64) { unimplemented!() }
}
impl RFrom<Constant> for ri64 {
    open spec fn rfrom_spec(t: Constant) -> ri64 { ri64 { val: t.0 as i64 } }
    open spec fn rfrom_req(t: Constant) -> bool { i64::MIN <= t.0 <= i64::MAX }
    #[verifier::external_body]
    fn rfrom(t: Constant) -> (r: ri64) { unimplemented!() }
}
impl RInto<i64> for ri64 {
    open spec fn rinto_spec(self) -> i64 { self.val }
    open spec fn rinto_req(self) -> bool { true }
    fn rinto(self) -> (r: i64) { self.val }
}

impl PartialEqSpecImpl<ri64> for ri64 {
    open spec fn obeys_eq_spec() -> bool { true }
    open spec fn eq_spec(&self, other: &ri64) -> bool { self.val == other.val }
}
impl PartialEq<ri64> for ri64 {
    #[verifier::external_body]
    fn eq(&self, other: &ri64) -> bool { unimplemented!() }
}
impl PartialOrdSpecImpl<ri64> for ri64 {
    open spec fn obeys_partial_cmp_spec() -> bool { true }
    open spec fn partial_cmp_spec(&self, other: &ri64) -> Option<Ordering> { Some(int_cmp(self.val as int, other.val as int)) }
}
impl PartialOrd<ri64> for ri64 {
    #[verifier::external_body]
    fn partial_cmp(&self, other: &ri64) -> Option<Ordering> { unimplemented!() }
}

impl PartialEqSpecImpl<Constant> for ri64 {
    open spec fn obeys_eq_spec() -> bool { true }
    open spec fn eq_spec(&self, other: &Constant) -> bool { self.val == other.0 }
}
impl PartialEq<Constant> for ri64 {
    #[verifier::external_body]
    fn eq(&self, other: &Constant) -> bool { unimplemented!() }
}
impl PartialOrdSpecImpl<Constant> for ri64 {
    open spec fn obeys_partial_cmp_spec() -> bool { true }
    open spec fn partial_cmp_spec(&self, other: &Constant) -> Option<Ordering> { Some(int_cmp(self.val as int, other.0 as int)) }
}
impl PartialOrd<Constant> for ri64 {
    #[verifier::external_body]
    fn partial_cmp(&self, other: &Constant) -> Option<Ordering> { unimplemented!() }
}

impl PartialEqSpecImpl<ri8> for ri64 {
    open spec fn obeys_eq_spec() -> bool { true }
    open spec fn eq_spec(&self, other: &ri8) -> bool { self.val == other.val }
}
impl PartialEq<ri8> for ri64 {
    #[verifier::external_body]
    fn eq(&self, other: &ri8) -> bool { unimplemented!() }
}
impl PartialOrdSpecImpl<ri8> for ri64 {
    open spec fn obeys_partial_cmp_spec() -> bool { true }
    open spec fn partial_cmp_spec(&self, other: &ri8) -> Option<Ordering> { Some(int_cmp(self.val as int, other.val as int)) }
}
impl PartialOrd<ri8> for ri64 {
    #[verifier::external_body]
    fn partial_cmp(&self, other: &ri8) -> Option<Ordering> { unimplemented!() }
}

impl PartialEqSpecImpl<ri16> for ri64 {
    open spec fn obeys_eq_spec() -> bool { true }
    open spec fn eq_spec(&self, other: &ri16) -> bool { self.val == other.val }
}
impl PartialEq<ri16> for ri64 {
    #[verifier::external_body]
    fn eq(&self, other: &ri16) -> bool { unimplemented!() }
}
impl PartialOrdSpecImpl<ri16> for ri64 {
    open spec fn obeys_partial_cmp_spec() -> bool { true }
    open spec fn partial_cmp_spec(&self, other: &ri16) -> Option<Ordering> { Some(int_cmp(self.val as int, other.val as int)) }
}
impl PartialOrd<ri16> for ri64 {
    #[verifier::external_body]
    fn partial_cmp(&self, other: &ri16) -> Option<Ordering> { unimplemented!() }
}

impl PartialEqSpecImpl<ri32> for ri64 {
    open spec fn obeys_eq_spec() -> bool { true }
    open spec fn eq_spec(&self, other: &ri32) -> bool { self.val == other.val }
}
impl PartialEq<ri32> for ri64 {
    #[verifier::external_body]
    fn eq(&self, other: &ri32) -> bool { unimplemented!() }
}
impl PartialOrdSpecImpl<ri32> for ri64 {
    open spec fn obeys_partial_cmp_spec() -> bool { true }
    open spec fn partial_cmp_spec(&self, other: &ri32) -> Option<Ordering> { Some(int_cmp(self.val as int, other.val as int)) }
}
impl PartialOrd<ri32> for ri64 {
    #[verifier::external_body]
    fn partial_cmp(&self, other: &ri32) -> Option<Ordering> { unimplemented!() }
}

impl PartialEqSpecImpl<ri128> for ri64 {
    open spec fn obeys_eq_spec() -> bool { true }
    open spec fn eq_spec(&self, other: &ri128) -> bool { self.val == other.val }
}
impl PartialEq<ri128> for ri64 {
    #[verifier::external_body]
    fn eq(&self, other: &ri128) -> bool { unimplemented!() }
}
impl PartialOrdSpecImpl<ri128> for ri64 {
    open spec fn obeys_partial_cmp_spec() -> bool { true }
    open spec fn partial_cmp_spec(&self, other: &ri128) -> Option<Ordering> { Some(int_cmp(self.val as int, other.val as int)) }
}
impl PartialOrd<ri128> for ri64 {
    #[verifier::external_body]
    fn partial_cmp(&self, other: &ri128) -> Option<Ordering> { unimplemented!() }
}

impl AddSpecImpl<ri64> for ri64 {
    open spec fn obeys_add_spec() -> bool { true }
    open spec fn add_req(self, rhs: ri64) -> bool { i64::MIN <= self.val + rhs.val <= i64::MAX }
    open spec fn add_spec(self, rhs: ri64) -> ri64 { ri64 { val: (self.val + rhs.val) as i64 } }
}
impl core::ops::Add<ri64> for ri64 {
    type Output = ri64;
    #[verifier::external_body]
    fn add(self, rhs: ri64) -> ri64 { unimplemented!() }
}
impl AddAssignSpecImpl<ri64> for ri64 {
    open spec fn obeys_add_assign_spec() -> bool { true }
    open spec fn add_assign_req(&self, rhs: ri64) -> bool { i64::MIN <= self.val + rhs.val <= i64::MAX }
    open spec fn add_assign_spec(&self, rhs: ri64) -> &ri64 { &ri64 { val: (self.val + rhs.val) as i64 } }
}
impl core::ops::AddAssign<ri64> for ri64 {
    #[verifier::external_body]
    fn add_assign(&mut self, rhs: ri64) { unimplemented!() }
}

impl SubSpecImpl<ri64> for ri64 {
    open spec fn obeys_sub_spec() -> bool { true }
    open spec fn sub_req(self, rhs: ri64) -> bool { i64::MIN <= self.val - rhs.val <= i64::MAX }
    open spec fn sub_spec(self, rhs: ri64) -> ri64 { ri64 { val: (self.val - rhs.val) as i64 } }
}
impl core::ops::Sub<ri64> for ri64 {
    type Output = ri64;
    #[verifier::external_body]
    fn sub(self, rhs: ri64) -> ri64 { unimplemented!() }
}
impl SubAssignSpecImpl<ri64> for ri64 {
    open spec fn obeys_sub_assign_spec() -> bool { true }
    open spec fn sub_assign_req(&self, rhs: ri64) -> bool { i64::MIN <= self.val - rhs.val <= i64::MAX }
    open spec fn sub_assign_spec(&self, rhs: ri64) -> &ri64 { &ri64 { val: (self.val - rhs.val) as i64 } }
}
impl core::ops::SubAssign<ri64> for ri64 {
    #[verifier::external_body]
    fn sub_assign(&mut self, rhs: ri64) { unimplemented!() }
}

impl MulSpecImpl<ri64> for ri64 {
    open spec fn obeys_mul_spec() -> bool { true }
    open spec fn mul_req(self, rhs: ri64) -> bool { i64::MIN <= self.val * rhs.val <= i64::MAX }
    open spec fn mul_spec(self, rhs: ri64) -> ri64 { ri64 { val: (self.val * rhs.val) as i64 } }
}
impl core::ops::Mul<ri64> for ri64 {
    type Output = ri64;
    #[verifier::external_body]
    fn mul(self, rhs: ri64) -> ri64 { unimplemented!() }
}
impl MulAssignSpecImpl<ri64> for ri64 {
    open spec fn obeys_mul_assign_spec() -> bool { true }
    open spec fn mul_assign_req(&self, rhs: ri64) -> bool { i64::MIN <= self.val * rhs.val <= i64::MAX }
    open spec fn mul_assign_spec(&self, rhs: ri64) -> &ri64 { &ri64 { val: (self.val * rhs.val) as i64 } }
}
impl core::ops::MulAssign<ri64> for ri64 {
    #[verifier::external_body]
    fn mul_assign(&mut self, rhs: ri64) { unimplemented!() }
}

impl DivSpecImpl<ri64> for ri64 {
    open spec fn obeys_div_spec() -> bool { true }
    open spec fn div_req(self, rhs: ri64) -> bool { rhs.val > 0 }
    open spec fn div_spec(self, rhs: ri64) -> ri64 { ri64 { val: (self.val as int / rhs.val as int) as i64 } }
}
impl core::ops::Div<ri64> for ri64 {
    type Output = ri64;
    #[verifier::external_body]
    fn div(self, rhs: ri64) -> ri64 { unimplemented!() }
}
impl RemSpecImpl<ri64> for ri64 {
    open spec fn obeys_rem_spec() -> bool { true }
    open spec fn rem_req(self, rhs: ri64) -> bool { rhs.val > 0 }
    open spec fn rem_spec(self, rhs: ri64) -> ri64 { ri64 { val: (self.val as int % rhs.val as int) as i64 } }
}
impl core::ops::Rem<ri64> for ri64 {
    type Output = ri64;
    #[verifier::external_body]
    fn rem(self, rhs: ri64) -> ri64 { unimplemented!() }
}

impl AddSpecImpl<Constant> for ri64 {
    open spec fn obeys_add_spec() -> bool { true }
    open spec fn add_req(self, rhs: Constant) -> bool { i64::MIN <= self.val + rhs.0 <= i64::MAX }
    open spec fn add_spec(self, rhs: Constant) -> ri64 { ri64 { val: (self.val + rhs.0) as i64 } }
}
impl core::ops::Add<Constant> for ri64 {
    type Output = ri64;
    #[verifier::external_body]
    fn add(self, rhs: Constant) -> ri64 { unimplemented!() }
}
impl AddAssignSpecImpl<Constant> for ri64 {
    open spec fn obeys_add_assign_spec() -> bool { true }
    open spec fn add_assign_req(&self, rhs: Constant) -> bool { i64::MIN <= self.val + rhs.0 <= i64::MAX }
    open spec fn add_assign_spec(&self, rhs: Constant) -> &ri64 { &ri64 { val: (self.val + rhs.0) as i64 } }
}
impl core::ops::AddAssign<Constant> for ri64 {
    #[verifier::external_body]
    fn add_assign(&mut self, rhs: Constant) { unimplemented!() }
}

impl SubSpecImpl<Constant> for ri64 {
    open spec fn obeys_sub_spec() -> bool { true }
    open spec fn sub_req(self, rhs: Constant) -> bool { i64::MIN <= self.val - rhs.0 <= i64::MAX }
    open spec fn sub_spec(self, rhs: Constant) -> ri64 { ri64 { val: (self.val - rhs.0) as i64 } }
}
impl core::ops::Sub<Constant> for ri64 {
    type Output = ri64;
    #[verifier::external_body]
    fn sub(self, rhs: Constant) -> ri64 { unimplemented!() }
}
impl SubAssignSpecImpl<Constant> for ri64 {
    open spec fn obeys_sub_assign_spec() -> bool { true }
    open spec fn sub_assign_req(&self, rhs: Constant) -> bool { i64::MIN <= self.val - rhs.0 <= i64::MAX }
    open spec fn sub_assign_spec(&self, rhs: Constant) -> &ri64 { &ri64 { val: (self.val - rhs.0) as i64 } }
}
impl core::ops::SubAssign<Constant> for ri64 {
    #[verifier::external_body]
    fn sub_assign(&mut self, rhs: Constant) { unimplemented!() }
}

impl MulSpecImpl<Constant> for ri64 {
    open spec fn obeys_mul_spec() -> bool { true }
    open spec fn mul_req(self, rhs: Constant) -> bool { i64::MIN <= self.val * rhs.0 <= i64::MAX }
    open spec fn mul_spec(self, rhs: Constant) -> ri64 { ri64 { val: (self.val * rhs.0) as i64 } }
}
impl core::ops::Mul<Constant> for ri64 {
    type Output = ri64;
    #[verifier::external_body]
    fn mul(self, rhs: Constant) -> ri64 { unimplemented!() }
}
impl MulAssignSpecImpl<Constant> for ri64 {
    open spec fn obeys_mul_assign_spec() -> bool { true }
    open spec fn mul_assign_req(&self, rhs: Constant) -> bool { i64::MIN <= self.val * rhs.0 <= i64::MAX }
    open spec fn mul_assign_spec(&self, rhs: Constant) -> &ri64 { &ri64 { val: (self.val * rhs.0) as i64 } }
}
impl core::ops::MulAssign<Constant> for ri64 {
    #[verifier::external_body]
    fn mul_assign(&mut self, rhs: Constant) { unimplemented!() }
}

impl DivSpecImpl<Constant> for ri64 {
    open spec fn obeys_div_spec() -> bool { true }
    open spec fn div_req(self, rhs: Constant) -> bool { rhs.0 > 0 }
    open spec fn div_spec(self, rhs: Constant) -> ri64 { ri64 { val: (self.val as int / rhs.0 as int) as i64 } }
}
impl core::ops::Div<Constant> for ri64 {
    type Output = ri64;
    #[verifier::external_body]
    fn div(self, rhs: Constant) -> ri64 { unimplemented!() }
}
impl RemSpecImpl<Constant> for ri64 {
    open spec fn obeys_rem_spec() -> bool { true }
    open spec fn rem_req(self, rhs: Constant) -> bool { rhs.0 > 0 }
    open spec fn rem_spec(self, rhs: Constant) -> ri64 { ri64 { val: (self.val as int % rhs.0 as int) as i64 } }
}
impl core::ops::Rem<Constant> for ri64 {
    type Output = ri64;
    #[verifier::external_body]
    fn rem(self, rhs: Constant) -> ri64 { unimplemented!() }
}

impl AddSpecImpl<ri8> for ri64 {
    open spec fn obeys_add_spec() -> bool { true }
    open spec fn add_req(self, rhs: ri8) -> bool { i64::MIN <= self.val + rhs.val <= i64::MAX }
    open spec fn add_spec(self, rhs: ri8) -> ri64 { ri64 { val: (self.val + rhs.val) as i64 } }
}
impl core::ops::Add<ri8> for ri64 {
    type Output = ri64;
    #[verifier::external_body]
    fn add(self, rhs: ri8) -> ri64 { unimplemented!() }
}
impl AddAssignSpecImpl<ri8> for ri64 {
    open spec fn obeys_add_assign_spec() -> bool { true }
    open spec fn add_assign_req(&self, rhs: ri8) -> bool { i64::MIN <= self.val + rhs.val <= i64::MAX }
    open spec fn add_assign_spec(&self, rhs: ri8) -> &ri64 { &ri64 { val: (self.val + rhs.val) as i64 } }
}
impl core::ops::AddAssign<ri8> for ri64 {
    #[verifier::external_body]
    fn add_assign(&mut self, rhs: ri8) { unimplemented!() }
}

impl SubSpecImpl<ri8> for ri64 {
    open spec fn obeys_sub_spec() -> bool { true }
    open spec fn sub_req(self, rhs: ri8) -> bool { i64::MIN <= self.val - rhs.val <= i64::MAX }
    open spec fn sub_spec(self, rhs: ri8) -> ri64 { ri64 { val: (self.val - rhs.val) as i64 } }
}
impl core::ops::Sub<ri8> for ri64 {
    type Output = ri64;
    #[verifier::external_body]
    fn sub(self, rhs: ri8) -> ri64 { unimplemented!() }
}
impl SubAssignSpecImpl<ri8> for ri64 {
    open spec fn obeys_sub_assign_spec() -> bool { true }
    open spec fn sub_assign_req(&self, rhs: ri8) -> bool { i64::MIN <= self.val - rhs.val <= i64::MAX }
    open spec fn sub_assign_spec(&self, rhs: ri8) -> &ri64 { &ri64 { val: (self.val - rhs.val) as i64 } }
}
impl core::ops::SubAssign<ri8> for ri64 {
    #[verifier::external_body]
    fn sub_assign(&mut self, rhs: ri8) { unimplemented!() }
}

impl MulSpecImpl<ri8> for ri64 {
    open spec fn obeys_mul_spec() -> bool { true }
    open spec fn mul_req(self, rhs: ri8) -> bool { i64::MIN <= self.val * rhs.val <= i64::MAX }
    open spec fn mul_spec(self, rhs: ri8) -> ri64 { ri64 { val: (self.val * rhs.val) as i64 } }
}
impl core::ops::Mul<ri8> for ri64 {
    type Output = ri64;
    #[verifier::external_body]
    fn mul(self, rhs: ri8) -> ri64 { unimplemented!() }
}
impl MulAssignSpecImpl<ri8> for ri64 {
    open spec fn obeys_mul_assign_spec() -> bool { true }
    open spec fn mul_assign_req(&self, rhs: ri8) -> bool { i64::MIN <= self.val * rhs.val <= i64::MAX }
    open spec fn mul_assign_spec(&self, rhs: ri8) -> &ri64 { &ri64 { val: (self.val * rhs.val) as i64 } }
}
impl core::ops::MulAssign<ri8> for ri64 {
    #[verifier::external_body]
    fn mul_assign(&mut self, rhs: ri8) { unimplemented!() }
}

impl DivSpecImpl<ri8> for ri64 {
    open spec fn obeys_div_spec() -> bool { true }
    open spec fn div_req(self, rhs: ri8) -> bool { rhs.val > 0 }
    open spec fn div_spec(self, rhs: ri8) -> ri64 { ri64 { val: (self.val as int / rhs.val as int) as i64 } }
}
impl core::ops::Div<ri8> for ri64 {
    type Output = ri64;
    #[verifier::external_body]
    fn div(self, rhs: ri8) -> ri64 { unimplemented!() }
}
impl RemSpecImpl<ri8> for ri64 {
    open spec fn obeys_rem_spec() -> bool { true }
    open spec fn rem_req(self, rhs: ri8) -> bool { rhs.val > 0 }
    open spec fn rem_spec(self, rhs: ri8) -> ri64 { ri64 { val: (self.val as int % rhs.val as int) as i64 } }
}
impl core::ops::Rem<ri8> for ri64 {
    type Output = ri64;
    #[verifier::external_body]
    fn rem(self, rhs: ri8) -> ri64 { unimplemented!() }
}

impl AddSpecImpl<ri16> for ri64 {
    open spec fn obeys_add_spec() -> bool { true }
    open spec fn add_req(self, rhs: ri16) -> bool { i64::MIN <= self.val + rhs.val <= i64::MAX }
    open spec fn add_spec(self, rhs: ri16) -> ri64 { ri64 { val: (self.val + rhs.val) as i64 } }
}
impl core::ops::Add<ri16> for ri64 {
    type Output = ri64;
    #[verifier::external_body]
    fn add(self, rhs: ri16) -> ri64 { unimplemented!() }
}
impl AddAssignSpecImpl<ri16> for ri64 {
    open spec fn obeys_add_assign_spec() -> bool { true }
    open spec fn add_assign_req(&self, rhs: ri16) -> bool { i64::MIN <= self.val + rhs.val <= i64::MAX }
    open spec fn add_assign_spec(&self, rhs: ri16) -> &ri64 { &ri64 { val: (self.val + rhs.val) as i64 } }
}
impl core::ops::AddAssign<ri16> for ri64 {
    #[verifier::external_body]
    fn add_assign(&mut self, rhs: ri16) { unimplemented!() }
}

impl SubSpecImpl<ri16> for ri64 {
    open spec fn obeys_sub_spec() -> bool { true }
    open spec fn sub_req(self, rhs: ri16) -> bool { i64::MIN <= self.val - rhs.val <= i64::MAX }
    open spec fn sub_spec(self, rhs: ri16) -> ri64 { ri64 { val: (self.val - rhs.val) as i64 } }
}
impl core::ops::Sub<ri16> for ri64 {
    type Output = ri64;
    #[verifier::external_body]
    fn sub(self, rhs: ri16) -> ri64 { unimplemented!() }
}
impl SubAssignSpecImpl<ri16> for ri64 {
    open spec fn obeys_sub_assign_spec() -> bool { true }
    open spec fn sub_assign_req(&self, rhs: ri16) -> bool { i64::MIN <= self.val - rhs.val <= i64::MAX }
    open spec fn sub_assign_spec(&self, rhs: ri16) -> &ri64 { &ri64 { val: (self.val - rhs.val) as i64 } }
}
impl core::ops::SubAssign<ri16> for ri64 {
    #[verifier::external_body]
    fn sub_assign(&mut self, rhs: ri16) { unimplemented!() }
}

impl MulSpecImpl<ri16> for ri64 {
    open spec fn obeys_mul_spec() -> bool { true }
    open spec fn mul_req(self, rhs: ri16) -> bool { i64::MIN <= self.val * rhs.val <= i64::MAX }
    open spec fn mul_spec(self, rhs: ri16) -> ri64 { ri64 { val: (self.val * rhs.val) as i64 } }
}
impl core::ops::Mul<ri16> for ri64 {
    type Output = ri64;
    #[verifier::external_body]
    fn mul(self, rhs: ri16) -> ri64 { unimplemented!() }
}
impl MulAssignSpecImpl<ri16> for ri64 {
    open spec fn obeys_mul_assign_spec() -> bool { true }
    open spec fn mul_assign_req(&self, rhs: ri16) -> bool { i64::MIN <= self.val * rhs.val <= i64::MAX }
    open spec fn mul_assign_spec(&self, rhs: ri16) -> &ri64 { &ri64 { val: (self.val * rhs.val) as i64 } }
}
impl core::ops::MulAssign<ri16> for ri64 {
    #[verifier::external_body]
    fn mul_assign(&mut self, rhs: ri16) { unimplemented!() }
}

impl DivSpecImpl<ri16> for ri64 {
    open spec fn obeys_div_spec() -> bool { true }
    open spec fn div_req(self, rhs: ri16) -> bool { rhs.val > 0 }
    open spec fn div_spec(self, rhs: ri16) -> ri64 { ri64 { val: (self.val as int / rhs.val as int) as i64 } }
}
impl core::ops::Div<ri16> for ri64 {
    type Output = ri64;
    #[verifier::external_body]
    fn div(self, rhs: ri16) -> ri64 { unimplemented!() }
}
impl RemSpecImpl<ri16> for ri64 {
    open spec fn obeys_rem_spec() -> bool { true }
    open spec fn rem_req(self, rhs: ri16) -> bool { rhs.val > 0 }
    open spec fn rem_spec(self, rhs: ri16) -> ri64 { ri64 { val: (self.val as int % rhs.val as int) as i64 } }
}
impl core::ops::Rem<ri16> for ri64 {
    type Output = ri64;
    #[verifier::external_body]
    fn rem(self, rhs: ri16) -> ri64 { unimplemented!() }
}

impl AddSpecImpl<ri32> for ri64 {
    open spec fn obeys_add_spec() -> bool { true }
    open spec fn add_req(self, rhs: ri32) -> bool { i64::MIN <= self.val + rhs.val <= i64::MAX }
    open spec fn add_spec(self, rhs: ri32) -> ri64 { ri64 { val: (self.val + rhs.val) as i64 } }
}
impl core::ops::Add<ri32> for ri64 {
    type Output = ri64;
    #[verifier::external_body]
    fn add(self, rhs: ri32) -> ri64 { unimplemented!() }
}
impl AddAssignSpecImpl<ri32> for ri64 {
    open spec fn obeys_add_assign_spec() -> bool { true }
    open spec fn add_assign_req(&self, rhs: ri32) -> bool { i64::MIN <= self.val + rhs.val <= i64::MAX }
    open spec fn add_assign_spec(&self, rhs: ri32) -> &ri64 { &ri64 { val: (self.val + rhs.val) as i64 } }
}
impl core::ops::AddAssign<ri32> for ri64 {
    #[verifier::external_body]
    fn add_assign(&mut self, rhs: ri32) { unimplemented!() }
}

impl SubSpecImpl<ri32> for ri64 {
    open spec fn obeys_sub_spec() -> bool { true }
    open spec fn sub_req(self, rhs: ri32) -> bool { i64::MIN <= self.val - rhs.val <= i64::MAX }
    open spec fn sub_spec(self, rhs: ri32) -> ri64 { ri64 { val: (self.val - rhs.val) as i64 } }
}
impl core::ops::Sub<ri32> for ri64 {
    type Output = ri64;
    #[verifier::external_body]
    fn sub(self, rhs: ri32) -> ri64 { unimplemented!() }
}
impl SubAssignSpecImpl<ri32> for ri64 {
    open spec fn obeys_sub_assign_spec() -> bool { true }
    open spec fn sub_assign_req(&self, rhs: ri32) -> bool { i64::MIN <= self.val - rhs.val <= i64::MAX }
    open spec fn sub_assign_spec(&self, rhs: ri32) -> &ri64 { &ri64 { val: (self.val - rhs.val) as i64 } }
}
impl core::ops::SubAssign<ri32> for ri64 {
    #[verifier::external_body]
    fn sub_assign(&mut self, rhs: ri32) { unimplemented!() }
}

impl MulSpecImpl<ri32> for ri64 {
    open spec fn obeys_mul_spec() -> bool { true }
    open spec fn mul_req(self, rhs: ri32) -> bool { i64::MIN <= self.val * rhs.val <= i64::MAX }
    open spec fn mul_spec(self, rhs: ri32) -> ri64 { ri64 { val: (self.val * rhs.val) as i64 } }
}
impl core::ops::Mul<ri32> for ri64 {
    type Output = ri64;
    #[verifier::external_body]
    fn mul(self, rhs: ri32) -> ri64 { unimplemented!() }
}
impl MulAssignSpecImpl<ri32> for ri64 {
    open spec fn obeys_mul_assign_spec() -> bool { true }
    open spec fn mul_assign_req(&self, rhs: ri32) -> bool { i64::MIN <= self.val * rhs.val <= i64::MAX }
    open spec fn mul_assign_spec(&self, rhs: ri32) -> &ri64 { &ri64 { val: (self.val * rhs.val) as i64 } }
}
impl core::ops::MulAssign<ri32> for ri64 {
    #[verifier::external_body]
    fn mul_assign(&mut self, rhs: ri32) { unimplemented!() }
}

impl DivSpecImpl<ri32> for ri64 {
    open spec fn obeys_div_spec() -> bool { true }
    open spec fn div_req(self, rhs: ri32) -> bool { rhs.val > 0 }
    open spec fn div_spec(self, rhs: ri32) -> ri64 { ri64 { val: (self.val as int / rhs.val as int) as i64 } }
}
impl core::ops::Div<ri32> for ri64 {
    type Output = ri64;
    #[verifier::external_body]
    fn div(self, rhs: ri32) -> ri64 { unimplemented!() }
}
impl RemSpecImpl<ri32> for ri64 {
    open spec fn obeys_rem_spec() -> bool { true }
    open spec fn rem_req(self, rhs: ri32) -> bool { rhs.val > 0 }
    open spec fn rem_spec(self, rhs: ri32) -> ri64 { ri64 { val: (self.val as int % rhs.val as int) as i64 } }
}
impl core::ops::Rem<ri32> for ri64 {
    type Output = ri64;
    #[verifier::external_body]
    fn rem(self, rhs: ri32) -> ri64 { unimplemented!() }
}

impl AddSpecImpl<ri128> for ri64 {
    open spec fn obeys_add_spec() -> bool { true }
    open spec fn add_req(self, rhs: ri128) -> bool { i64::MIN <= self.val + rhs.val <= i64::MAX }
    open spec fn add_spec(self, rhs: ri128) -> ri64 { ri64 { val: (self.val + rhs.val) as i64 } }
}
impl core::ops::Add<ri128> for ri64 {
    type Output = ri64;
    #[verifier::external_body]
    fn add(self, rhs: ri128) -> ri64 { unimplemented!() }
}
impl AddAssignSpecImpl<ri128> for ri64 {
    open spec fn obeys_add_assign_spec() -> bool { true }
    open spec fn add_assign_req(&self, rhs: ri128) -> bool { i64::MIN <= self.val + rhs.val <= i64::MAX }
    open spec fn add_assign_spec(&self, rhs: ri128) -> &ri64 { &ri64 { val: (self.val + rhs.val) as i64 } }
}
impl core::ops::AddAssign<ri128> for ri64 {
    #[verifier::external_body]
    fn add_assign(&mut self, rhs: ri128) { unimplemented!() }
}

impl SubSpecImpl<ri128> for ri64 {
    open spec fn obeys_sub_spec() -> bool { true }
    open spec fn sub_req(self, rhs: ri128) -> bool { i64::MIN <= self.val - rhs.val <= i64::MAX }
    open spec fn sub_spec(self, rhs: ri128) -> ri64 { ri64 { val: (self.val - rhs.val) as i64 } }
}
impl core::ops::Sub<ri128> for ri64 {
    type Output = ri64;
    #[verifier::external_body]
    fn sub(self, rhs: ri128) -> ri64 { unimplemented!() }
}
impl SubAssignSpecImpl<ri128> for ri64 {
    open spec fn obeys_sub_assign_spec() -> bool { true }
    open spec fn sub_assign_req(&self, rhs: ri128) -> bool { i64::MIN <= self.val - rhs.val <= i64::MAX }
    open spec fn sub_assign_spec(&self, rhs: ri128) -> &ri64 { &ri64 { val: (self.val - rhs.val) as i64 } }
}
impl core::ops::SubAssign<ri128> for ri64 {
    #[verifier::external_body]
    fn sub_assign(&mut self, rhs: ri128) { unimplemented!() }
}

impl MulSpecImpl<ri128> for ri64 {
    open spec fn obeys_mul_spec() -> bool { true }
    open spec fn mul_req(self, rhs: ri128) -> bool { i64::MIN <= self.val * rhs.val <= i64::MAX }
    open spec fn mul_spec(self, rhs: ri128) -> ri64 { ri64 { val: (self.val * rhs.val) as i64 } }
}
impl core::ops::Mul<ri128> for ri64 {
    type Output = ri64;
    #[verifier::external_body]
    fn mul(self, rhs: ri128) -> ri64 { unimplemented!() }
}
impl MulAssignSpecImpl<ri128> for ri64 {
    open spec fn obeys_mul_assign_spec() -> bool { true }
    open spec fn mul_assign_req(&self, rhs: ri128) -> bool { i64::MIN <= self.val * rhs.val <= i64::MAX }
    open spec fn mul_assign_spec(&self, rhs: ri128) -> &ri64 { &ri64 { val: (self.val * rhs.val) as i64 } }
}
impl core::ops::MulAssign<ri128> for ri64 {
    #[verifier::external_body]
    fn mul_assign(&mut self, rhs: ri128) { unimplemented!() }
}

impl DivSpecImpl<ri128> for ri64 {
    open spec fn obeys_div_spec() -> bool { true }
    open spec fn div_req(self, rhs: ri128) -> bool { rhs.val > 0 }
    open spec fn div_spec(self, rhs: ri128) -> ri64 { ri64 { val: (self.val as int / rhs.val as int) as i64 } }
}
impl core::ops::Div<ri128> for ri64 {
    type Output = ri64;
    #[verifier::external_body]
    fn div(self, rhs: ri128) -> ri64 { unimplemented!() }
}
impl RemSpecImpl<ri128> for ri64 {
    open spec fn obeys_rem_spec() -> bool { true }
    open spec fn rem_req(self, rhs: ri128) -> bool { rhs.val > 0 }
    open spec fn rem_spec(self, rhs: ri128) -> ri64 { ri64 { val: (self.val as int % rhs.val as int) as i64 } }
}
impl core::ops::Rem<ri128> for ri64 {
    type Output = ri64;
    #[verifier::external_body]
    fn rem(self, rhs: ri128) -> ri64 { unimplemented!() }
}

impl NegSpecImpl for ri64 {
    open spec fn obeys_neg_spec() -> bool { true }
    open spec fn neg_req(self) -> bool { self.val > i64::MIN }
    open spec fn neg_spec(self) -> ri64 { ri64 { val: (-self.val) as i64 } }
}
impl core::ops::Neg for ri64 {
    type Output = ri64;
    #[verifier::external_body]
    fn neg(self) -> ri64 { unimplemented!() }
}


// ------------------------------------------------------------------ ri128
#[derive(Clone, Copy)]
pub struct ri128 { pub val: i128 }
impl ri128 {
    pub fn new_unchecked(val: i128) -> (r: Self) ensures r.val == val { ri128 { val } }
    pub fn get(self) -> (r: i128) ensures r == self.val { self.val }
    pub fn get_unchecked(self) -> (r: i128) ensures r == self.val { self.val }
    pub fn without_bounds(self) -> (r: Self) ensures r == self { self }
    // `T::N::<VAL>()` is rewritten to `T::verif_N(VAL)`: the constant VAL (release: `Self { val: VAL }`, no bound is consulted).
    // (Not modelled with a const generic: Verus 0.2026.09.13 derives `false` from a negative const generic argument.)
    pub const fn verif_N(v: i128) -> (r: Self) ensures r.val == v { ri128 { val: v } }
    #[verifier::external_body]
    pub fn abs(self) -> (r: Self)
        requires self.val > i128::MIN,
        ensures r.val == (if self.val < 0 { -self.val } else { self.val as int })
    { unimplemented!() }
    // real: returns `riN<-1, 1>` of the SAME width
    pub fn signum(self) -> (r: Self) ensures r.val == (if self.val < 0 { -1int } else if self.val > 0 { 1int } else { 0int })
    { if self.val < 0 { ri128 { val: -1 } } else if self.val > 0 { ri128 { val: 1 } } else { ri128 { val: 0 } } }
    pub fn min<R: RInto<Self>>(self, other: R) -> (r: Self)
        requires other.rinto_req(),
        ensures r.val == (if other.rinto_spec().val < self.val { other.rinto_spec().val } else { self.val })
    { let o = other.rinto(); if o.val < self.val { o } else { self } }
    pub fn max<R: RInto<Self>>(self, other: R) -> (r: Self)
        requires other.rinto_req(),
        ensures r.val == (if other.rinto_spec().val > self.val { other.rinto_spec().val } else { self.val })
    { let o = other.rinto(); if o.val > self.val { o } else { self } }
    // truncating
    #[verifier::external_body]
    pub fn div_ceil<R: RInto<Self>>(self, rhs: R) -> (r: Self)
        requires rhs.rinto_req(), rhs.rinto_spec().val != 0, !(self.val == i128::MIN && rhs.rinto_spec().val == -1),
        ensures r.val == tdiv(self.val as int, rhs.rinto_spec().val as int)
    { unimplemented!() }
    #[verifier::external_body]
    pub fn rem_ceil<R: RInto<Self>>(self, rhs: R) -> (r: Self)
        requires rhs.rinto_req(), rhs.rinto_spec().val != 0, !(self.val == i128::MIN && rhs.rinto_spec().val == -1),
        ensures r.val == trem(self.val as int, rhs.rinto_spec().val as int)
    { unimplemented!() }
    // Euclidean (divisor > 0 required here; every use in jiff divides by a positive quantity)
    #[verifier::external_body]
    pub fn div_floor<R: RInto<Self>>(self, rhs: R) -> (r: Self)
        requires rhs.rinto_req(), rhs.rinto_spec().val > 0,
        ensures r.val == (self.val as int) / (rhs.rinto_spec().val as int)
    { unimplemented!() }
    #[verifier::external_body]
    pub fn rem_floor<R: RInto<Self>>(self, rhs: R) -> (r: Self)
        requires rhs.rinto_req(), rhs.rinto_spec().val > 0,
        ensures r.val == (self.val as int) % (rhs.rinto_spec().val as int)
    { unimplemented!() }
    #[verifier::external_body]
    pub fn saturating_mul<R: RInto<Self>>(self, rhs: R) -> (r: Self)
        requires rhs.rinto_req(),
        ensures i128::MIN <= self.val * rhs.rinto_spec().val <= i128::MAX ==> r.val == self.val * rhs.rinto_spec().val,
                self.val * rhs.rinto_spec().val > i128::MAX ==> r.val == i128::MAX,
                self.val * rhs.rinto_spec().val < i128::MIN ==> r.val == i128::MIN,
    { unimplemented!() }
    #[verifier::external_body]
    pub fn saturating_add<R: RInto<Self>>(self, rhs: R) -> (r: Self)
        requires rhs.rinto_req(),
        ensures i128::MIN <= self.val + rhs.rinto_spec().val <= i128::MAX ==> r.val == self.val + rhs.rinto_spec().val,
                self.val + rhs.rinto_spec().val > i128::MAX ==> r.val == i128::MAX,
                self.val + rhs.rinto_spec().val < i128::MIN ==> r.val == i128::MIN,
    { unimplemented!() }
}
// `type Range = ri128<{ LO }, { HI }>; Range::try_new("what", v)`: the bounds of an anonymous range are passed explicitly
#[verifier::external_body]
pub fn verif_try_new_range_128(lo: i128, hi: i128, v: i64) -> (res: Result<ri128, Error>)
    requires i128::MIN <= lo, hi <= i128::MAX,
    ensures res.is_ok() <==> lo <= v <= hi, res.is_ok() ==> res.unwrap().val == v
{ unimplemented!() }
impl RInto<ri128> for ri128 {
    open spec fn rinto_spec(self) -> ri128 { self }
    open spec fn rinto_req(self) -> bool { true }
    fn rinto(self) -> (r: ri128) { self }
}
impl RFrom<ri128> for ri128 {
    open spec fn rfrom_spec(t: ri128) -> ri128 { t }
    open spec fn rfrom_req(t: ri128) -> bool { true }
    fn rfrom(t: ri128) -> (r: ri128) { t }
}
impl RInto<ri128> for Constant {
    open spec fn rinto_spec(self) -> ri128 { ri128 { val: self.0 as i128 } }
    open spec fn rinto_req(self) -> bool { i128::MIN <= self.0 <= i128::MAX }
    #[verifier::external_body]
    fn rinto(self) -> (r: ri128) { unimplemented!() }
}
impl RFrom<Constant> for ri128 {
    open spec fn rfrom_spec(t: Constant) -> ri128 { ri128 { val: t.0 as i128 } }
    open spec fn rfrom_req(t: Constant) -> bool { i128::MIN <= t.0 <= i128::MAX }
    #[verifier::external_body]
    fn rfrom(t: Constant) -> (r: ri128) { unimplemented!() }
}
impl RInto<i128> for ri128 {
    open spec fn rinto_spec(self) -> i128 { self.val }
    open spec fn rinto_req(self) -> bool { true }
    fn rinto(self) -> (r: i128) { self.val }
}

impl PartialEqSpecImpl<ri128> for ri128 {
    open spec fn obeys_eq_spec() -> bool { true }
    open spec fn eq_spec(&self, other: &ri128) -> bool { self.val == other.val }
}
impl PartialEq<ri128> for ri128 {
    #[verifier::external_body]
    fn eq(&self, other: &ri128) -> bool { unimplemented!() }
}
impl PartialOrdSpecImpl<ri128> for ri128 {
    open spec fn obeys_partial_cmp_spec() -> bool { true }
    open spec fn partial_cmp_spec(&self, other: &ri128) -> Option<Ordering> { Some(int_cmp(self.val as int, other.val as int)) }
}
impl PartialOrd<ri128> for ri128 {
    #[verifier::external_body]
    fn partial_cmp(&self, other: &ri128) -> Option<Ordering> { unimplemented!() }
}

impl PartialEqSpecImpl<Constant> for ri128 {
    open spec fn obeys_eq_spec() -> bool { true }
    open spec fn eq_spec(&self, other: &Constant) -> bool { self.val == other.0 }
}
impl PartialEq<Constant> for ri128 {
    #[verifier::external_body]
    fn eq(&self, other: &Constant) -> bool { unimplemented!() }
}
impl PartialOrdSpecImpl<Constant> for ri128 {
    open spec fn obeys_partial_cmp_spec() -> bool { true }
    open spec fn partial_cmp_spec(&self, other: &Constant) -> Option<Ordering> { Some(int_cmp(self.val as int, other.0 as int)) }
}
impl PartialOrd<Constant> for ri128 {
    #[verifier::external_body]
    fn partial_cmp(&self, other: &Constant) -> Option<Ordering> { unimplemented!() }
}

impl PartialEqSpecImpl<ri8> for ri128 {
    open spec fn obeys_eq_spec() -> bool { true }
    open spec fn eq_spec(&self, other: &ri8) -> bool { self.val == other.val }
}
impl PartialEq<ri8> for ri128 {
    #[verifier::external_body]
    fn eq(&self, other: &ri8) -> bool { unimplemented!() }
}
impl PartialOrdSpecImpl<ri8> for ri128 {
    open spec fn obeys_partial_cmp_spec() -> bool { true }
    open spec fn partial_cmp_spec(&self, other: &ri8) -> Option<Ordering> { Some(int_cmp(self.val as int, other.val as int)) }
}
impl PartialOrd<ri8> for ri128 {
    #[verifier::external_body]
    fn partial_cmp(&self, other: &ri8) -> Option<Ordering> { unimplemented!() }
}

impl PartialEqSpecImpl<ri16> for ri128 {
    open spec fn obeys_eq_spec() -> bool { true }
    open spec fn eq_spec(&self, other: &ri16) -> bool { self.val == other.val }
}
impl PartialEq<ri16> for ri128 {
    #[verifier::external_body]
    fn eq(&self, other: &ri16) -> bool { unimplemented!() }
}
impl PartialOrdSpecImpl<ri16> for ri128 {
    open spec fn obeys_partial_cmp_spec() -> bool { true }
    open spec fn partial_cmp_spec(&self, other: &ri16) -> Option<Ordering> { Some(int_cmp(self.val as int, other.val as int)) }
}
impl PartialOrd<ri16> for ri128 {
    #[verifier::external_body]
    fn partial_cmp(&self, other: &ri16) -> Option<Ordering> { unimplemented!() }
}

impl PartialEqSpecImpl<ri32> for ri128 {
    open spec fn obeys_eq_spec() -> bool { true }
    open spec fn eq_spec(&self, other: &ri32) -> bool { self.val == other.val }
}
impl PartialEq<ri32> for ri128 {
    #[verifier::external_body]
    fn eq(&self, other: &ri32) -> bool { unimplemented!() }
}
impl PartialOrdSpecImpl<ri32> for ri128 {
    open spec fn obeys_partial_cmp_spec() -> bool { true }
    open spec fn partial_cmp_spec(&self, other: &ri32) -> Option<Ordering> { Some(int_cmp(self.val as int, other.val as int)) }
}
impl PartialOrd<ri32> for ri128 {
    #[verifier::external_body]
    fn partial_cmp(&self, other: &ri32) -> Option<Ordering> { unimplemented!() }
}

impl PartialEqSpecImpl<ri64> for ri128 {
    open spec fn obeys_eq_spec() -> bool { true }
    open spec fn eq_spec(&self, other: &ri64) -> bool { self.val == other.val }
}
impl PartialEq<ri64> for ri128 {
    #[verifier::external_body]
    fn eq(&self, other: &ri64) -> bool { unimplemented!() }
}
impl PartialOrdSpecImpl<ri64> for ri128 {
    open spec fn obeys_partial_cmp_spec() -> bool { true }
    open spec fn partial_cmp_spec(&self, other: &ri64) -> Option<Ordering> { Some(int_cmp(self.val as int, other.val as int)) }
}
impl PartialOrd<ri64> for ri128 {
    #[verifier::external_body]
    fn partial_cmp(&self, other: &ri64) -> Option<Ordering> { unimplemented!() }
}

impl AddSpecImpl<ri128> for ri128 {
    open spec fn obeys_add_spec() -> bool { true }
    open spec fn add_req(self, rhs: ri128) -> bool { i128::MIN <= self.val + rhs.val <= i128::MAX }
    open spec fn add_spec(self, rhs: ri128) -> ri128 { ri128 { val: (self.val + rhs.val) as i128 } }
}
impl core::ops::Add<ri128> for ri128 {
    type Output = ri128;
    #[verifier::external_body]
    fn add(self, rhs: ri128) -> ri128 { unimplemented!() }
}
impl AddAssignSpecImpl<ri128> for ri128 {
    open spec fn obeys_add_assign_spec() -> bool { true }
    open spec fn add_assign_req(&self, rhs: ri128) -> bool { i128::MIN <= self.val + rhs.val <= i128::MAX }
    open spec fn add_assign_spec(&self, rhs: ri128) -> &ri128 { &ri128 { val: (self.val + rhs.val) as i128 } }
}
impl core::ops::AddAssign<ri128> for ri128 {
    #[verifier::external_body]
    fn add_assign(&mut self, rhs: ri128) { unimplemented!() }
}

impl SubSpecImpl<ri128> for ri128 {
    open spec fn obeys_sub_spec() -> bool { true }
    open spec fn sub_req(self, rhs: ri128) -> bool { i128::MIN <= self.val - rhs.val <= i128::MAX }
    open spec fn sub_spec(self, rhs: ri128) -> ri128 { ri128 { val: (self.val - rhs.val) as i128 } }
}
impl core::ops::Sub<ri128> for ri128 {
    type Output = ri128;
    #[verifier::external_body]
    fn sub(self, rhs: ri128) -> ri128 { unimplemented!() }
}
impl SubAssignSpecImpl<ri128> for ri128 {
    open spec fn obeys_sub_assign_spec() -> bool { true }
    open spec fn sub_assign_req(&self, rhs: ri128) -> bool { i128::MIN <= self.val - rhs.val <= i128::MAX }
    open spec fn sub_assign_spec(&self, rhs: ri128) -> &ri128 { &ri128 { val: (self.val - rhs.val) as i128 } }
}
impl core::ops::SubAssign<ri128> for ri128 {
    #[verifier::external_body]
    fn sub_assign(&mut self, rhs: ri128) { unimplemented!() }
}

impl MulSpecImpl<ri128> for ri128 {
    open spec fn obeys_mul_spec() -> bool { true }
    open spec fn mul_req(self, rhs: ri128) -> bool { i128::MIN <= self.val * rhs.val <= i128::MAX }
    open spec fn mul_spec(self, rhs: ri128) -> ri128 { ri128 { val: (self.val * rhs.val) as i128 } }
}
impl core::ops::Mul<ri128> for ri128 {
    type Output = ri128;
    #[verifier::external_body]
    fn mul(self, rhs: ri128) -> ri128 { unimplemented!() }
}
impl MulAssignSpecImpl<ri128> for ri128 {
    open spec fn obeys_mul_assign_spec() -> bool { true }
    open spec fn mul_assign_req(&self, rhs: ri128) -> bool { i128::MIN <= self.val * rhs.val <= i128::MAX }
    open spec fn mul_assign_spec(&self, rhs: ri128) -> &ri128 { &ri128 { val: (self.val * rhs.val) as i128 } }
}
impl core::ops::MulAssign<ri128> for ri128 {
    #[verifier::external_body]
    fn mul_assign(&mut self, rhs: ri128) { unimplemented!() }
}

impl DivSpecImpl<ri128> for ri128 {
    open spec fn obeys_div_spec() -> bool { true }
    open spec fn div_req(self, rhs: ri128) -> bool { rhs.val > 0 }
    open spec fn div_spec(self, rhs: ri128) -> ri128 { ri128 { val: (self.val as int / rhs.val as int) as i128 } }
}
impl core::ops::Div<ri128> for ri128 {
    type Output = ri128;
    #[verifier::external_body]
    fn div(self, rhs: ri128) -> ri128 { unimplemented!() }
}
impl RemSpecImpl<ri128> for ri128 {
    open spec fn obeys_rem_spec() -> bool { true }
    open spec fn rem_req(self, rhs: ri128) -> bool { rhs.val > 0 }
    open spec fn rem_spec(self, rhs: ri128) -> ri128 { ri128 { val: (self.val as int % rhs.val as int) as i128 } }
}
impl core::ops::Rem<ri128> for ri128 {
    type Output = ri128;
    #[verifier::external_body]
    fn rem(self, rhs: ri128) -> ri128 { unimplemented!() }
}

impl AddSpecImpl<Constant> for ri128 {
    open spec fn obeys_add_spec() -> bool { true }
    open spec fn add_req(self, rhs: Constant) -> bool { i128::MIN <= self.val + rhs.0 <= i128::MAX }
    open spec fn add_spec(self, rhs: Constant) -> ri128 { ri128 { val: (self.val + rhs.0) as i128 } }
}
impl core::ops::Add<Constant> for ri128 {
    type Output = ri128;
    #[verifier::external_body]
    fn add(self, rhs: Constant) -> ri128 { unimplemented!() }
}
impl AddAssignSpecImpl<Constant> for ri128 {
    open spec fn obeys_add_assign_spec() -> bool { true }
    open spec fn add_assign_req(&self, rhs: Constant) -> bool { i128::MIN <= self.val + rhs.0 <= i128::MAX }
    open spec fn add_assign_spec(&self, rhs: Constant) -> &ri128 { &ri128 { val: (self.val + rhs.0) as i128 } }
}
impl core::ops::AddAssign<Constant> for ri128 {
    #[verifier::external_body]
    fn add_assign(&mut self, rhs: Constant) { unimplemented!() }
}

impl SubSpecImpl<Constant> for ri128 {
    open spec fn obeys_sub_spec() -> bool { true }
    open spec fn sub_req(self, rhs: Constant) -> bool { i128::MIN <= self.val - rhs.0 <= i128::MAX }
    open spec fn sub_spec(self, rhs: Constant) -> ri128 { ri128 { val: (self.val - rhs.0) as i128 } }
}
impl core::ops::Sub<Constant> for ri128 {
    type Output = ri128;
    #[verifier::external_body]
    fn sub(self, rhs: Constant) -> ri128 { unimplemented!() }
}
impl SubAssignSpecImpl<Constant> for ri128 {
    open spec fn obeys_sub_assign_spec() -> bool { true }
    open spec fn sub_assign_req(&self, rhs: Constant) -> bool { i128::MIN <= self.val - rhs.0 <= i128::MAX }
    open spec fn sub_assign_spec(&self, rhs: Constant) -> &ri128 { &ri128 { val: (self.val - rhs.0) as i128 } }
}
impl core::ops::SubAssign<Constant> for ri128 {
    #[verifier::external_body]
    fn sub_assign(&mut self, rhs: Constant) { unimplemented!() }
}

impl MulSpecImpl<Constant> for ri128 {
    open spec fn obeys_mul_spec() -> bool { true }
    open spec fn mul_req(self, rhs: Constant) -> bool { i128::MIN <= self.val * rhs.0 <= i128::MAX }
    open spec fn mul_spec(self, rhs: Constant) -> ri128 { ri128 { val: (self.val * rhs.0) as i128 } }
}
impl core::ops::Mul<Constant> for ri128 {
    type Output = ri128;
    #[verifier::external_body]
    fn mul(self, rhs: Constant) -> ri128 { unimplemented!() }
}
impl MulAssignSpecImpl<Constant> for ri128 {
    open spec fn obeys_mul_assign_spec() -> bool { true }
    open spec fn mul_assign_req(&self, rhs: Constant) -> bool { i128::MIN <= self.val * rhs.0 <= i128::MAX }
    open spec fn mul_assign_spec(&self, rhs: Constant) -> &ri128 { &ri128 { val: (self.val * rhs.0) as i128 } }
}
impl core::ops::MulAssign<Constant> for ri128 {
    #[verifier::external_body]
    fn mul_assign(&mut self, rhs: Constant) { unimplemented!() }
}

impl DivSpecImpl<Constant> for ri128 {
    open spec fn obeys_div_spec() -> bool { true }
    open spec fn div_req(self, rhs: Constant) -> bool { rhs.0 > 0 }
    open spec fn div_spec(self, rhs: Constant) -> ri128 { ri128 { val: (self.val as int / rhs.0 as int) as i128 } }
}
impl core::ops::Div<Constant> for ri128 {
    type Output = ri128;
    #[verifier::external_body]
    fn div(self, rhs: Constant) -> ri128 { unimplemented!() }
}
impl RemSpecImpl<Constant> for ri128 {
    open spec fn obeys_rem_spec() -> bool { true }
    open spec fn rem_req(self, rhs: Constant) -> bool { rhs.0 > 0 }
    open spec fn rem_spec(self, rhs: Constant) -> ri128 { ri128 { val: (self.val as int % rhs.0 as int) as i128 } }
}
impl core::ops::Rem<Constant> for ri128 {
    type Output = ri128;
    #[verifier::external_body]
    fn rem(self, rhs: Constant) -> ri128 { unimplemented!() }
}

impl AddSpecImpl<ri8> for ri128 {
    open spec fn obeys_add_spec() -> bool { true }
    open spec fn add_req(self, rhs: ri8) -> bool { i128::MIN <= self.val + rhs.val <= i128::MAX }
    open spec fn add_spec(self, rhs: ri8) -> ri128 { ri128 { val: (self.val + rhs.val) as i128 } }
}
impl core::ops::Add<ri8> for ri128 {
    type Output = ri128;
    #[verifier::external_body]
    fn add(self, rhs: ri8) -> ri128 { unimplemented!() }
}
impl AddAssignSpecImpl<ri8> for ri128 {
    open spec fn obeys_add_assign_spec() -> bool { true }
    open spec fn add_assign_req(&self, rhs: ri8) -> bool { i128::MIN <= self.val + rhs.val <= i128::MAX }
    open spec fn add_assign_spec(&self, rhs: ri8) -> &ri128 { &ri128 { val: (self.val + rhs.val) as i128 } }
}
impl core::ops::AddAssign<ri8> for ri128 {
    #[verifier::external_body]
    fn add_assign(&mut self, rhs: ri8) { unimplemented!() }
}

impl SubSpecImpl<ri8> for ri128 {
    open spec fn obeys_sub_spec() -> bool { true }
    open spec fn sub_req(self, rhs: ri8) -> bool { i128::MIN <= self.val - rhs.val <= i128::MAX }
    open spec fn sub_spec(self, rhs: ri8) -> ri128 { ri128 { val: (self.val - rhs.val) as i128 } }
}
impl core::ops::Sub<ri8> for ri128 {
    type Output = ri128;
    #[verifier::external_body]
    fn sub(self, rhs: ri8) -> ri128 { unimplemented!() }
}
impl SubAssignSpecImpl<ri8> for ri128 {
    open spec fn obeys_sub_assign_spec() -> bool { true }
    open spec fn sub_assign_req(&self, rhs: ri8) -> bool { i128::MIN <= self.val - rhs.val <= i128::MAX }
    open spec fn sub_assign_spec(&self, rhs: ri8) -> &ri128 { &ri128 { val: (self.val - rhs.val) as i128 } }
}
impl core::ops::SubAssign<ri8> for ri128 {
    #[verifier::external_body]
    fn sub_assign(&mut self, rhs: ri8) { unimplemented!() }
}

impl MulSpecImpl<ri8> for ri128 {
    open spec fn obeys_mul_spec() -> bool { true }
    open spec fn mul_req(self, rhs: ri8) -> bool { i128::MIN <= self.val * rhs.val <= i128::MAX }
    open spec fn mul_spec(self, rhs: ri8) -> ri128 { ri128 { val: (self.val * rhs.val) as i128 } }
}
impl core::ops::Mul<ri8> for ri128 {
    type Output = ri128;
    #[verifier::external_body]
    fn mul(self, rhs: ri8) -> ri128 { unimplemented!() }
}
impl MulAssignSpecImpl<ri8> for ri128 {
    open spec fn obeys_mul_assign_spec() -> bool { true }
    open spec fn mul_assign_req(&self, rhs: ri8) -> bool { i128::MIN <= self.val * rhs.val <= i128::MAX }
    open spec fn mul_assign_spec(&self, rhs: ri8) -> &ri128 { &ri128 { val: (self.val * rhs.val) as i128 } }
}
impl core::ops::MulAssign<ri8> for ri128 {
    #[verifier::external_body]
    fn mul_assign(&mut self, rhs: ri8) { unimplemented!() }
}

impl DivSpecImpl<ri8> for ri128 {
    open spec fn obeys_div_spec() -> bool { true }
    open spec fn div_req(self, rhs: ri8) -> bool { rhs.val > 0 }
    open spec fn div_spec(self, rhs: ri8) -> ri128 { ri128 { val: (self.val as int / rhs.val as int) as i128 } }
}
impl core::ops::Div<ri8> for ri128 {
    type Output = ri128;
    #[verifier::external_body]
    fn div(self, rhs: ri8) -> ri128 { unimplemented!() }
}
impl RemSpecImpl<ri8> for ri128 {
    open spec fn obeys_rem_spec() -> bool { true }
    open spec fn rem_req(self, rhs: ri8) -> bool { rhs.val > 0 }
    open spec fn rem_spec(self, rhs: ri8) -> ri128 { ri128 { val: (self.val as int % rhs.val as int) as i128 } }
}
impl core::ops::Rem<ri8> for ri128 {
    type Output = ri128;
    #[verifier::external_body]
    fn rem(self, rhs: ri8) -> ri128 { unimplemented!() }
}

impl AddSpecImpl<ri16> for ri128 {
    open spec fn obeys_add_spec() -> bool { true }
    open spec fn add_req(self, rhs: ri16) -> bool { i128::MIN <= self.val + rhs.val <= i128::MAX }
    open spec fn add_spec(self, rhs: ri16) -> ri128 { ri128 { val: (self.val + rhs.val) as i128 } }
}
impl core::ops::Add<ri16> for ri128 {
    type Output = ri128;
    #[verifier::external_body]
    fn add(self, rhs: ri16) -> ri128 { unimplemented!() }
}
impl AddAssignSpecImpl<ri16> for ri128 {
    open spec fn obeys_add_assign_spec() -> bool { true }
    open spec fn add_assign_req(&self, rhs: ri16) -> bool { i128::MIN <= self.val + rhs.val <= i128::MAX }
    open spec fn add_assign_spec(&self, rhs: ri16) -> &ri128 { &ri128 { val: (self.val + rhs.val) as i128 } }
}
impl core::ops::AddAssign<ri16> for ri128 {
    #[verifier::external_body]
    fn add_assign(&mut self, rhs: ri16) { unimplemented!() }
}

impl SubSpecImpl<ri16> for ri128 {
    open spec fn obeys_sub_spec() -> bool { true }
    open spec fn sub_req(self, rhs: ri16) -> bool { i128::MIN <= self.val - rhs.val <= i128::MAX }
    open spec fn sub_spec(self, rhs: ri16) -> ri128 { ri128 { val: (self.val - rhs.val) as i128 } }
}
impl core::ops::Sub<ri16> for ri128 {
    type Output = ri128;
    #[verifier::external_body]
    fn sub(self, rhs: ri16) -> ri128 { unimplemented!() }
}
impl SubAssignSpecImpl<ri16> for ri128 {
    open spec fn obeys_sub_assign_spec() -> bool { true }
    open spec fn sub_assign_req(&self, rhs: ri16) -> bool { i128::MIN <= self.val - rhs.val <= i128::MAX }
    open spec fn sub_assign_spec(&self, rhs: ri16) -> &ri128 { &ri128 { val: (self.val - rhs.val) as i128 } }
}
impl core::ops::SubAssign<ri16> for ri128 {
    #[verifier::external_body]
    fn sub_assign(&mut self, rhs: ri16) { unimplemented!() }
}

impl MulSpecImpl<ri16> for ri128 {
    open spec fn obeys_mul_spec() -> bool { true }
    open spec fn mul_req(self, rhs: ri16) -> bool { i128::MIN <= self.val * rhs.val <= i128::MAX }
    open spec fn mul_spec(self, rhs: ri16) -> ri128 { ri128 { val: (self.val * rhs.val) as i128 } }
}
impl core::ops::Mul<ri16> for ri128 {
    type Output = ri128;
    #[verifier::external_body]
    fn mul(self, rhs: ri16) -> ri128 { unimplemented!() }
}
impl MulAssignSpecImpl<ri16> for ri128 {
    open spec fn obeys_mul_assign_spec() -> bool { true }
    open spec fn mul_assign_req(&self, rhs: ri16) -> bool { i128::MIN <= self.val * rhs.val <= i128::MAX }
    open spec fn mul_assign_spec(&self, rhs: ri16) -> &ri128 { &ri128 { val: (self.val * rhs.val) as i128 } }
}
impl core::ops::MulAssign<ri16> for ri128 {
    #[verifier::external_body]
    fn mul_assign(&mut self, rhs: ri16) { unimplemented!() }
}

impl DivSpecImpl<ri16> for ri128 {
    open spec fn obeys_div_spec() -> bool { true }
    open spec fn div_req(self, rhs: ri16) -> bool { rhs.val > 0 }
    open spec fn div_spec(self, rhs: ri16) -> ri128 { ri128 { val: (self.val as int / rhs.val as int) as i128 } }
}
impl core::ops::Div<ri16> for ri128 {
    type Output = ri128;
    #[verifier::external_body]
    fn div(self, rhs: ri16) -> ri128 { unimplemented!() }
}
impl RemSpecImpl<ri16> for ri128 {
    open spec fn obeys_rem_spec() -> bool { true }
    open spec fn rem_req(self, rhs: ri16) -> bool { rhs.val > 0 }
    open spec fn rem_spec(self, rhs: ri16) -> ri128 { ri128 { val: (self.val as int % rhs.val as int) as i128 } }
}
impl core::ops::Rem<ri16> for ri128 {
    type Output = ri128;
    #[verifier::external_body]
    fn rem(self, rhs: ri16) -> ri128 { unimplemented!() }
}

impl AddSpecImpl<ri32> for ri128 {
    open spec fn obeys_add_spec() -> bool { true }
    open spec fn add_req(self, rhs: ri32) -> bool { i128::MIN <= self.val + rhs.val <= i128::MAX }
    open spec fn add_spec(self, rhs: ri32) -> ri128 { ri128 { val: (self.val + rhs.val) as i128 } }
}
impl core::ops::Add<ri32> for ri128 {
    type Output = ri128;
    #[verifier::external_body]
    fn add(self, rhs: ri32) -> ri128 { unimplemented!() }
}
impl AddAssignSpecImpl<ri32> for ri128 {
    open spec fn obeys_add_assign_spec() -> bool { true }
    open spec fn add_assign_req(&self, rhs: ri32) -> bool { i128::MIN <= self.val + rhs.val <= i128::MAX }
    open spec fn add_assign_spec(&self, rhs: ri32) -> &ri128 { &ri128 { val: (self.val + rhs.val) as i128 } }
}
impl core::ops::AddAssign<ri32> for ri128 {
    #[verifier::external_body]
    fn add_assign(&mut self, rhs: ri32) { unimplemented!() }
}

impl SubSpecImpl<ri32> for ri128 {
    open spec fn obeys_sub_spec() -> bool { true }
    open spec fn sub_req(self, rhs: ri32) -> bool { i128::MIN <= self.val - rhs.val <= i128::MAX }
    open spec fn sub_spec(self, rhs: ri32) -> ri128 { ri128 { val: (self.val - rhs.val) as i128 } }
}
impl core::ops::Sub<ri32> for ri128 {
    type Output = ri128;
    #[verifier::external_body]
    fn sub(self, rhs: ri32) -> ri128 { unimplemented!() }
}
impl SubAssignSpecImpl<ri32> for ri128 {
    open spec fn obeys_sub_assign_spec() -> bool { true }
    open spec fn sub_assign_req(&self, rhs: ri32) -> bool { i128::MIN <= self.val - rhs.val <= i128::MAX }
    open spec fn sub_assign_spec(&self, rhs: ri32) -> &ri128 { &ri128 { val: (self.val - rhs.val) as i128 } }
}
impl core::ops::SubAssign<ri32> for ri128 {
    #[verifier::external_body]
    fn sub_assign(&mut self, rhs: ri32) { unimplemented!() }
}

impl MulSpecImpl<ri32> for ri128 {
    open spec fn obeys_mul_spec() -> bool { true }
    open spec fn mul_req(self, rhs: ri32) -> bool { i128::MIN <= self.val * rhs.val <= i128::MAX }
    open spec fn mul_spec(self, rhs: ri32) -> ri128 { ri128 { val: (self.val * rhs.val) as i128 } }
}
impl core::ops::Mul<ri32> for ri128 {
    type Output = ri128;
    #[verifier::external_body]
    fn mul(self, rhs: ri32) -> ri128 { unimplemented!() }
}
impl MulAssignSpecImpl<ri32> for ri128 {
    open spec fn obeys_mul_assign_spec() -> bool { true }
    open spec fn mul_assign_req(&self, rhs: ri32) -> bool { i128::MIN <= self.val * rhs.val <= i128::MAX }
    open spec fn mul_assign_spec(&self, rhs: ri32) -> &ri128 { &ri128 { val: (self.val * rhs.val) as i128 } }
}
impl core::ops::MulAssign<ri32> for ri128 {
    #[verifier::external_body]
    fn mul_assign(&mut self, rhs: ri32) { unimplemented!() }
}

impl DivSpecImpl<ri32> for ri128 {
    open spec fn obeys_div_spec() -> bool { true }
    open spec fn div_req(self, rhs: ri32) -> bool { rhs.val > 0 }
    open spec fn div_spec(self, rhs: ri32) -> ri128 { ri128 { val: (self.val as int / rhs.val as int) as i128 } }
}
impl core::ops::Div<ri32> for ri128 {
    type Output = ri128;
    #[verifier::external_body]
    fn div(self, rhs: ri32) -> ri128 { unimplemented!() }
}
impl RemSpecImpl<ri32> for ri128 {
    open spec fn obeys_rem_spec() -> bool { true }
    open spec fn rem_req(self, rhs: ri32) -> bool { rhs.val > 0 }
    open spec fn rem_spec(self, rhs: ri32) -> ri128 { ri128 { val: (self.val as int % rhs.val as int) as i128 } }
}
impl core::ops::Rem<ri32> for ri128 {
    type Output = ri128;
    #[verifier::external_body]
    fn rem(self, rhs: ri32) -> ri128 { unimplemented!() }
}

impl AddSpecImpl<ri64> for ri128 {
    open spec fn obeys_add_spec() -> bool { true }
    open spec fn add_req(self, rhs: ri64) -> bool { i128::MIN <= self.val + rhs.val <= i128::MAX }
    open spec fn add_spec(self, rhs: ri64) -> ri128 { ri128 { val: (self.val + rhs.val) as i128 } }
}
impl core::ops::Add<ri64> for ri128 {
    type Output = ri128;
    #[verifier::external_body]
    fn add(self, rhs: ri64) -> ri128 { unimplemented!() }
}
impl AddAssignSpecImpl<ri64> for ri128 {
    open spec fn obeys_add_assign_spec() -> bool { true }
    open spec fn add_assign_req(&self, rhs: ri64) -> bool { i128::MIN <= self.val + rhs.val <= i128::MAX }
    open spec fn add_assign_spec(&self, rhs: ri64) -> &ri128 { &ri128 { val: (self.val + rhs.val) as i128 } }
}
impl core::ops::AddAssign<ri64> for ri128 {
    #[verifier::external_body]
    fn add_assign(&mut self, rhs: ri64) { unimplemented!() }
}

impl SubSpecImpl<ri64> for ri128 {
    open spec fn obeys_sub_spec() -> bool { true }
    open spec fn sub_req(self, rhs: ri64) -> bool { i128::MIN <= self.val - rhs.val <= i128::MAX }
    open spec fn sub_spec(self, rhs: ri64) -> ri128 { ri128 { val: (self.val - rhs.val) as i128 } }
}
impl core::ops::Sub<ri64> for ri128 {
    type Output = ri128;
    #[verifier::external_body]
    fn sub(self, rhs: ri64) -> ri128 { unimplemented!() }
}
impl SubAssignSpecImpl<ri64> for ri128 {
    open spec fn obeys_sub_assign_spec() -> bool { true }
    open spec fn sub_assign_req(&self, rhs: ri64) -> bool { i128::MIN <= self.val - rhs.val <= i128::MAX }
    open spec fn sub_assign_spec(&self, rhs: ri64) -> &ri128 { &ri128 { val: (self.val - rhs.val) as i128 } }
}
impl core::ops::SubAssign<ri64> for ri128 {
    #[verifier::external_body]
    fn sub_assign(&mut self, rhs: ri64) { unimplemented!() }
}

impl MulSpecImpl<ri64> for ri128 {
    open spec fn obeys_mul_spec() -> bool { true }
    open spec fn mul_req(self, rhs: ri64) -> bool { i128::MIN <= self.val * rhs.val <= i128::MAX }
    open spec fn mul_spec(self, rhs: ri64) -> ri128 { ri128 { val: (self.val * rhs.val) as i128 } }
}
impl core::ops::Mul<ri64> for ri128 {
    type Output = ri128;
    #[verifier::external_body]
    fn mul(self, rhs: ri64) -> ri128 { unimplemented!() }
}
impl MulAssignSpecImpl<ri64> for ri128 {
    open spec fn obeys_mul_assign_spec() -> bool { true }
    open spec fn mul_assign_req(&self, rhs: ri64) -> bool { i128::MIN <= self.val * rhs.val <= i128::MAX }
    open spec fn mul_assign_spec(&self, rhs: ri64) -> &ri128 { &ri128 { val: (self.val * rhs.val) as i128 } }
}
impl core::ops::MulAssign<ri64> for ri128 {
    #[verifier::external_body]
    fn mul_assign(&mut self, rhs: ri64) { unimplemented!() }
}

impl DivSpecImpl<ri64> for ri128 {
    open spec fn obeys_div_spec() -> bool { true }
    open spec fn div_req(self, rhs: ri64) -> bool { rhs.val > 0 }
    open spec fn div_spec(self, rhs: ri64) -> ri128 { ri128 { val: (self.val as int / rhs.val as int) as i128 } }
}
impl core::ops::Div<ri64> for ri128 {
    type Output = ri128;
    #[verifier::external_body]
    fn div(self, rhs: ri64) -> ri128 { unimplemented!() }
}
impl RemSpecImpl<ri64> for ri128 {
    open spec fn obeys_rem_spec() -> bool { true }
    open spec fn rem_req(self, rhs: ri64) -> bool { rhs.val > 0 }
    open spec fn rem_spec(self, rhs: ri64) -> ri128 { ri128 { val: (self.val as int % rhs.val as int) as i128 } }
}
impl core::ops::Rem<ri64> for ri128 {
    type Output = ri128;
    #[verifier::external_body]
    fn rem(self, rhs: ri64) -> ri128 { unimplemented!() }
}

impl NegSpecImpl for ri128 {
    open spec fn obeys_neg_spec() -> bool { true }
    open spec fn neg_req(self) -> bool { self.val > i128::MIN }
    open spec fn neg_spec(self) -> ri128 { ri128 { val: (-self.val) as i128 } }
}
impl core::ops::Neg for ri128 {
    type Output = ri128;
    #[verifier::external_body]
    fn neg(self) -> ri128 { unimplemented!() }
}

impl RInto<ri16> for ri8 {
    open spec fn rinto_spec(self) -> ri16 { ri16 { val: self.val as i16 } }
    open spec fn rinto_req(self) -> bool { true }
    #[verifier::external_body]
    fn rinto(self) -> (r: ri16) { unimplemented!() }
}
impl RFrom<ri8> for ri16 {
    open spec fn rfrom_spec(t: ri8) -> ri16 { ri16 { val: t.val as i16 } }
    open spec fn rfrom_req(t: ri8) -> bool { true }
    #[verifier::external_body]
    fn rfrom(t: ri8) -> (r: ri16) { unimplemented!() }
}

impl RInto<ri32> for ri8 {
    open spec fn rinto_spec(self) -> ri32 { ri32 { val: self.val as i32 } }
    open spec fn rinto_req(self) -> bool { true }
    #[verifier::external_body]
    fn rinto(self) -> (r: ri32) { unimplemented!() }
}
impl RFrom<ri8> for ri32 {
    open spec fn rfrom_spec(t: ri8) -> ri32 { ri32 { val: t.val as i32 } }
    open spec fn rfrom_req(t: ri8) -> bool { true }
    #[verifier::external_body]
    fn rfrom(t: ri8) -> (r: ri32) { unimplemented!() }
}

impl RInto<ri64> for ri8 {
    open spec fn rinto_spec(self) -> ri64 { ri64 { val: self.val as i64 } }
    open spec fn rinto_req(self) -> bool { true }
    #[verifier::external_body]
    fn rinto(self) -> (r: ri64) { unimplemented!() }
}
impl RFrom<ri8> for ri64 {
    open spec fn rfrom_spec(t: ri8) -> ri64 { ri64 { val: t.val as i64 } }
    open spec fn rfrom_req(t: ri8) -> bool { true }
    #[verifier::external_body]
    fn rfrom(t: ri8) -> (r: ri64) { unimplemented!() }
}

impl RInto<ri128> for ri8 {
    open spec fn rinto_spec(self) -> ri128 { ri128 { val: self.val as i128 } }
    open spec fn rinto_req(self) -> bool { true }
    #[verifier::external_body]
    fn rinto(self) -> (r: ri128) { unimplemented!() }
}
impl RFrom<ri8> for ri128 {
    open spec fn rfrom_spec(t: ri8) -> ri128 { ri128 { val: t.val as i128 } }
    open spec fn rfrom_req(t: ri8) -> bool { true }
    #[verifier::external_body]
    fn rfrom(t: ri8) -> (r: ri128) { unimplemented!() }
}

impl RInto<ri8> for ri16 {
    open spec fn rinto_spec(self) -> ri8 { ri8 { val: self.val as i8 } }
    open spec fn rinto_req(self) -> bool { i8::MIN <= self.val <= i8::MAX }
    #[verifier::external_body]
    fn rinto(self) -> (r: ri8) { unimplemented!() }
}
impl RFrom<ri16> for ri8 {
    open spec fn rfrom_spec(t: ri16) -> ri8 { ri8 { val: t.val as i8 } }
    open spec fn rfrom_req(t: ri16) -> bool { i8::MIN <= t.val <= i8::MAX }
    #[verifier::external_body]
    fn rfrom(t: ri16) -> (r: ri8) { unimplemented!() }
}

impl RInto<ri32> for ri16 {
    open spec fn rinto_spec(self) -> ri32 { ri32 { val: self.val as i32 } }
    open spec fn rinto_req(self) -> bool { true }
    #[verifier::external_body]
    fn rinto(self) -> (r: ri32) { unimplemented!() }
}
impl RFrom<ri16> for ri32 {
    open spec fn rfrom_spec(t: ri16) -> ri32 { ri32 { val: t.val as i32 } }
    open spec fn rfrom_req(t: ri16) -> bool { true }
    #[verifier::external_body]
    fn rfrom(t: ri16) -> (r: ri32) { unimplemented!() }
}

impl RInto<ri64> for ri16 {
    open spec fn rinto_spec(self) -> ri64 { ri64 { val: self.val as i64 } }
    open spec fn rinto_req(self) -> bool { true }
    #[verifier::external_body]
    fn rinto(self) -> (r: ri64) { unimplemented!() }
}
impl RFrom<ri16> for ri64 {
    open spec fn rfrom_spec(t: ri16) -> ri64 { ri64 { val: t.val as i64 } }
    open spec fn rfrom_req(t: ri16) -> bool { true }
    #[verifier::external_body]
    fn rfrom(t: ri16) -> (r: ri64) { unimplemented!() }
}

impl RInto<ri128> for ri16 {
    open spec fn rinto_spec(self) -> ri128 { ri128 { val: self.val as i128 } }
    open spec fn rinto_req(self) -> bool { true }
    #[verifier::external_body]
    fn rinto(self) -> (r: ri128) { unimplemented!() }
}
impl RFrom<ri16> for ri128 {
    open spec fn rfrom_spec(t: ri16) -> ri128 { ri128 { val: t.val as i128 } }
    open spec fn rfrom_req(t: ri16) -> bool { true }
    #[verifier::external_body]
    fn rfrom(t: ri16) -> (r: ri128) { unimplemented!() }
}

impl RInto<ri8> for ri32 {
    open spec fn rinto_spec(self) -> ri8 { ri8 { val: self.val as i8 } }
    open spec fn rinto_req(self) -> bool { i8::MIN <= self.val <= i8::MAX }
    #[verifier::external_body]
    fn rinto(self) -> (r: ri8) { unimplemented!() }
}
impl RFrom<ri32> for ri8 {
    open spec fn rfrom_spec(t: ri32) -> ri8 { ri8 { val: t.val as i8 } }
    open spec fn rfrom_req(t: ri32) -> bool { i8::MIN <= t.val <= i8::MAX }
    #[verifier::external_body]
    fn rfrom(t: ri32) -> (r: ri8) { unimplemented!() }
}

impl RInto<ri16> for ri32 {
    open spec fn rinto_spec(self) -> ri16 { ri16 { val: self.val as i16 } }
    open spec fn rinto_req(self) -> bool { i16::MIN <= self.val <= i16::MAX }
    #[verifier::external_body]
    fn rinto(self) -> (r: ri16) { unimplemented!() }
}
impl RFrom<ri32> for ri16 {
    open spec fn rfrom_spec(t: ri32) -> ri16 { ri16 { val: t.val as i16 } }
    open spec fn rfrom_req(t: ri32) -> bool { i16::MIN <= t.val <= i16::MAX }
    #[verifier::external_body]
    fn rfrom(t: ri32) -> (r: ri16) { unimplemented!() }
}

impl RInto<ri64> for ri32 {
    open spec fn rinto_spec(self) -> ri64 { ri64 { val: self.val as i64 } }
    open spec fn rinto_req(self) -> bool { true }
    #[verifier::external_body]
    fn rinto(self) -> (r: ri64) { unimplemented!() }
}
impl RFrom<ri32> for ri64 {
    open spec fn rfrom_spec(t: ri32) -> ri64 { ri64 { val: t.val as i64 } }
    open spec fn rfrom_req(t: ri32) -> bool { true }
    #[verifier::external_body]
    fn rfrom(t: ri32) -> (r: ri64) { unimplemented!() }
}

impl RInto<ri128> for ri32 {
    open spec fn rinto_spec(self) -> ri128 { ri128 { val: self.val as i128 } }
    open spec fn rinto_req(self) -> bool { true }
    #[verifier::external_body]
    fn rinto(self) -> (r: ri128) { unimplemented!() }
}
impl RFrom<ri32> for ri128 {
    open spec fn rfrom_spec(t: ri32) -> ri128 { ri128 { val: t.val as i128 } }
    open spec fn rfrom_req(t: ri32) -> bool { true }
    #[verifier::external_body]
    fn rfrom(t: ri32) -> (r: ri128) { unimplemented!() }
}

impl RInto<ri8> for ri64 {
    open spec fn rinto_spec(self) -> ri8 { ri8 { val: self.val as i8 } }
    open spec fn rinto_req(self) -> bool { i8::MIN <= self.val <= i8::MAX }
    #[verifier::external_body]
    fn rinto(self) -> (r: ri8) { unimplemented!() }
}
impl RFrom<ri64> for ri8 {
    open spec fn rfrom_spec(t: ri64) -> ri8 { ri8 { val: t.val as i8 } }
    open spec fn rfrom_req(t: ri64) -> bool { i8::MIN <= t.val <= i8::MAX }
    #[verifier::external_body]
    fn rfrom(t: ri64) -> (r: ri8) { unimplemented!() }
}

impl RInto<ri16> for ri64 {
    open spec fn rinto_spec(self) -> ri16 { ri16 { val: self.val as i16 } }
    open spec fn rinto_req(self) -> bool { i16::MIN <= self.val <= i16::MAX }
    #[verifier::external_body]
    fn rinto(self) -> (r: ri16) { unimplemented!() }
}
impl RFrom<ri64> for ri16 {
    open spec fn rfrom_spec(t: ri64) -> ri16 { ri16 { val: t.val as i16 } }
    open spec fn rfrom_req(t: ri64) -> bool { i16::MIN <= t.val <= i16::MAX }
    #[verifier::external_body]
    fn rfrom(t: ri64) -> (r: ri16) { unimplemented!() }
}

impl RInto<ri32> for ri64 {
    open spec fn rinto_spec(self) -> ri32 { ri32 { val: self.val as i32 } }
    open spec fn rinto_req(self) -> bool { i32::MIN <= self.val <= i32::MAX }
    #[verifier::external_body]
    fn rinto(self) -> (r: ri32) { unimplemented!() }
}
impl RFrom<ri64> for ri32 {
    open spec fn rfrom_spec(t: ri64) -> ri32 { ri32 { val: t.val as i32 } }
    open spec fn rfrom_req(t: ri64) -> bool { i32::MIN <= t.val <= i32::MAX }
    #[verifier::external_body]
    fn rfrom(t: ri64) -> (r: ri32) { unimplemented!() }
}

impl RInto<ri128> for ri64 {
    open spec fn rinto_spec(self) -> ri128 { ri128 { val: self.val as i128 } }
    open spec fn rinto_req(self) -> bool { true }
    #[verifier::external_body]
    fn rinto(self) -> (r: ri128) { unimplemented!() }
}
impl RFrom<ri64> for ri128 {
    open spec fn rfrom_spec(t: ri64) -> ri128 { ri128 { val: t.val as i128 } }
    open spec fn rfrom_req(t: ri64) -> bool { true }
    #[verifier::external_body]
    fn rfrom(t: ri64) -> (r: ri128) { unimplemented!() }
}

impl RInto<ri8> for ri128 {
    open spec fn rinto_spec(self) -> ri8 { ri8 { val: self.val as i8 } }
    open spec fn rinto_req(self) -> bool { i8::MIN <= self.val <= i8::MAX }
    #[verifier::external_body]
    fn rinto(self) -> (r: ri8) { unimplemented!() }
}
impl RFrom<ri128> for ri8 {
    open spec fn rfrom_spec(t: ri128) -> ri8 { ri8 { val: t.val as i8 } }
    open spec fn rfrom_req(t: ri128) -> bool { i8::MIN <= t.val <= i8::MAX }
    #[verifier::external_body]
    fn rfrom(t: ri128) -> (r: ri8) { unimplemented!() }
}

impl RInto<ri16> for ri128 {
    open spec fn rinto_spec(self) -> ri16 { ri16 { val: self.val as i16 } }
    open spec fn rinto_req(self) -> bool { i16::MIN <= self.val <= i16::MAX }
    #[verifier::external_body]
    fn rinto(self) -> (r: ri16) { unimplemented!() }
}
impl RFrom<ri128> for ri16 {
    open spec fn rfrom_spec(t: ri128) -> ri16 { ri16 { val: t.val as i16 } }
    open spec fn rfrom_req(t: ri128) -> bool { i16::MIN <= t.val <= i16::MAX }
    #[verifier::external_body]
    fn rfrom(t: ri128) -> (r: ri16) { unimplemented!() }
}

impl RInto<ri32> for ri128 {
    open spec fn rinto_spec(self) -> ri32 { ri32 { val: self.val as i32 } }
    open spec fn rinto_req(self) -> bool { i32::MIN <= self.val <= i32::MAX }
    #[verifier::external_body]
    fn rinto(self) -> (r: ri32) { unimplemented!() }
}
impl RFrom<ri128> for ri32 {
    open spec fn rfrom_spec(t: ri128) -> ri32 { ri32 { val: t.val as i32 } }
    open spec fn rfrom_req(t: ri128) -> bool { i32::MIN <= t.val <= i32::MAX }
    #[verifier::external_body]
    fn rfrom(t: ri128) -> (r: ri32) { unimplemented!() }
}

impl RInto<ri64> for ri128 {
    open spec fn rinto_spec(self) -> ri64 { ri64 { val: self.val as i64 } }
    open spec fn rinto_req(self) -> bool { i64::MIN <= self.val <= i64::MAX }
    #[verifier::external_body]
    fn rinto(self) -> (r: ri64) { unimplemented!() }
}
impl RFrom<ri128> for ri64 {
    open spec fn rfrom_spec(t: ri128) -> ri64 { ri64 { val: t.val as i64 } }
    open spec fn rfrom_req(t: ri128) -> bool { i64::MIN <= t.val <= i64::MAX }
    #[verifier::external_body]
    fn rfrom(t: ri128) -> (r: ri64) { unimplemented!() }
}


// ------------------------------------------------------------------ aliases (bounds re-introduced here only)
#[verifier::external_body]
#[derive(Debug)]
pub struct Error { _p: () }
#[verifier::external_body]
pub fn verif_err() -> Error { unimplemented!() }
pub type NoUnits = ri64;
pub open spec fn NoUnits_MIN() -> int { -9223372036854775808 }
pub open spec fn NoUnits_MAX() -> int { 9223372036854775807 }
pub open spec fn in_NoUnits(v: int) -> bool { -9223372036854775808 <= v <= 9223372036854775807 }
#[verifier::external_body]
pub fn verif_try_rfrom_NoUnits_8(r: ri8) -> (res: Result<ri64, Error>)
    ensures res.is_ok() <==> in_NoUnits(r.val as int), res.is_ok() ==> res.unwrap().val == r.val
{ unimplemented!() }
#[verifier::external_body]
pub fn verif_try_rfrom_NoUnits_16(r: ri16) -> (res: Result<ri64, Error>)
    ensures res.is_ok() <==> in_NoUnits(r.val as int), res.is_ok() ==> res.unwrap().val == r.val
{ unimplemented!() }
#[verifier::external_body]
pub fn verif_try_rfrom_NoUnits_32(r: ri32) -> (res: Result<ri64, Error>)
    ensures res.is_ok() <==> in_NoUnits(r.val as int), res.is_ok() ==> res.unwrap().val == r.val
{ unimplemented!() }
#[verifier::external_body]
pub fn verif_try_rfrom_NoUnits_64(r: ri64) -> (res: Result<ri64, Error>)
    ensures res.is_ok() <==> in_NoUnits(r.val as int), res.is_ok() ==> res.unwrap().val == r.val
{ unimplemented!() }
#[verifier::external_body]
pub fn verif_try_rfrom_NoUnits_128(r: ri128) -> (res: Result<ri64, Error>)
    ensures res.is_ok() <==> in_NoUnits(r.val as int), res.is_ok() ==> res.unwrap().val == r.val
{ unimplemented!() }
#[verifier::external_body]
pub fn verif_try_new_NoUnits(v: i64) -> (res: Result<ri64, Error>)
    ensures res.is_ok() <==> in_NoUnits(v as int), res.is_ok() ==> res.unwrap().val == v
{ unimplemented!() }
#[verifier::external_body]
pub fn verif_try_new128_NoUnits(v: i128) -> (res: Result<ri64, Error>)
    ensures res.is_ok() <==> in_NoUnits(v as int), res.is_ok() ==> res.unwrap().val == v
{ unimplemented!() }
// `NoUnits::MIN` / `NoUnits::MAX` (associated consts of type i128)
pub fn verif_MIN_NoUnits() -> (r: i128) ensures r == NoUnits_MIN() { -9223372036854775808 }
pub fn verif_MAX_NoUnits() -> (r: i128) ensures r == NoUnits_MAX() { 9223372036854775807 }
// `x.try_checked_mul("what", rhs)` with x: NoUnits -- Ok iff the exact product lies within NoUnits::MIN..=MAX
#[verifier::external_body]
pub fn verif_try_checked_mul_NoUnits<R: RInto<ri64>>(x: ri64, rhs: R) -> (res: Result<ri64, Error>)
    requires rhs.rinto_req(),
    ensures res.is_ok() <==> in_NoUnits(x.val * rhs.rinto_spec().val), res.is_ok() ==> res.unwrap().val == x.val * rhs.rinto_spec().val
{ unimplemented!() }
// `x.try_checked_add/sub("what", rhs)` and `x.checked_add/sub/mul(rhs)` with x: NoUnits -- fail iff the exact result leaves NoUnits::MIN..=MAX
#[verifier::external_body]
pub fn verif_try_checked_add_NoUnits<R: RInto<ri64>>(x: ri64, rhs: R) -> (res: Result<ri64, Error>)
    requires rhs.rinto_req(),
    ensures res.is_ok() <==> in_NoUnits(x.val + rhs.rinto_spec().val), res.is_ok() ==> res.unwrap().val == x.val + rhs.rinto_spec().val
{ unimplemented!() }
#[verifier::external_body]
pub fn verif_try_checked_sub_NoUnits<R: RInto<ri64>>(x: ri64, rhs: R) -> (res: Result<ri64, Error>)
    requires rhs.rinto_req(),
    ensures res.is_ok() <==> in_NoUnits(x.val - rhs.rinto_spec().val), res.is_ok() ==> res.unwrap().val == x.val - rhs.rinto_spec().val
{ unimplemented!() }
#[verifier::external_body]
pub fn verif_checked_add_NoUnits<R: RInto<ri64>>(x: ri64, rhs: R) -> (res: Option<ri64>)
    requires rhs.rinto_req(),
    ensures res.is_some() <==> in_NoUnits(x.val + rhs.rinto_spec().val), res.is_some() ==> res.unwrap().val == x.val + rhs.rinto_spec().val
{ unimplemented!() }
#[verifier::external_body]
pub fn verif_checked_sub_NoUnits<R: RInto<ri64>>(x: ri64, rhs: R) -> (res: Option<ri64>)
    requires rhs.rinto_req(),
    ensures res.is_some() <==> in_NoUnits(x.val - rhs.rinto_spec().val), res.is_some() ==> res.unwrap().val == x.val - rhs.rinto_spec().val
{ unimplemented!() }
#[verifier::external_body]
pub fn verif_checked_mul_NoUnits<R: RInto<ri64>>(x: ri64, rhs: R) -> (res: Option<ri64>)
    requires rhs.rinto_req(),
    ensures res.is_some() <==> in_NoUnits(x.val * rhs.rinto_spec().val), res.is_some() ==> res.unwrap().val == x.val * rhs.rinto_spec().val
{ unimplemented!() }
pub type NoUnits128 = ri128;
pub open spec fn NoUnits128_MIN() -> int { -170141183460469231731687303715884105728 }
pub open spec fn NoUnits128_MAX() -> int { 170141183460469231731687303715884105727 }
pub open spec fn in_NoUnits128(v: int) -> bool { -170141183460469231731687303715884105728 <= v <= 170141183460469231731687303715884105727 }
#[verifier::external_body]
pub fn verif_try_rfrom_NoUnits128_8(r: ri8) -> (res: Result<ri128, Error>)
    ensures res.is_ok() <==> in_NoUnits128(r.val as int), res.is_ok() ==> res.unwrap().val == r.val
{ unimplemented!() }
#[verifier::external_body]
pub fn verif_try_rfrom_NoUnits128_16(r: ri16) -> (res: Result<ri128, Error>)
    ensures res.is_ok() <==> in_NoUnits128(r.val as int), res.is_ok() ==> res.unwrap().val == r.val
{ unimplemented!() }
#[verifier::external_body]
pub fn verif_try_rfrom_NoUnits128_32(r: ri32) -> (res: Result<ri128, Error>)
    ensures res.is_ok() <==> in_NoUnits128(r.val as int), res.is_ok() ==> res.unwrap().val == r.val
{ unimplemented!() }
#[verifier::external_body]
pub fn verif_try_rfrom_NoUnits128_64(r: ri64) -> (res: Result<ri128, Error>)
    ensures res.is_ok() <==> in_NoUnits128(r.val as int), res.is_ok() ==> res.unwrap().val == r.val
{ unimplemented!() }
#[verifier::external_body]
pub fn verif_try_rfrom_NoUnits128_128(r: ri128) -> (res: Result<ri128, Error>)
    ensures res.is_ok() <==> in_NoUnits128(r.val as int), res.is_ok() ==> res.unwrap().val == r.val
{ unimplemented!() }
#[verifier::external_body]
pub fn verif_try_new_NoUnits128(v: i64) -> (res: Result<ri128, Error>)
    ensures res.is_ok() <==> in_NoUnits128(v as int), res.is_ok() ==> res.unwrap().val == v
{ unimplemented!() }
#[verifier::external_body]
pub fn verif_try_new128_NoUnits128(v: i128) -> (res: Result<ri128, Error>)
    ensures res.is_ok() <==> in_NoUnits128(v as int), res.is_ok() ==> res.unwrap().val == v
{ unimplemented!() }
// `NoUnits128::MIN` / `NoUnits128::MAX` (associated consts of type i128)
pub fn verif_MIN_NoUnits128() -> (r: i128) ensures r == NoUnits128_MIN() { -170141183460469231731687303715884105728 }
pub fn verif_MAX_NoUnits128() -> (r: i128) ensures r == NoUnits128_MAX() { 170141183460469231731687303715884105727 }
// `x.try_checked_mul("what", rhs)` with x: NoUnits128 -- Ok iff the exact product lies within NoUnits128::MIN..=MAX
#[verifier::external_body]
pub fn verif_try_checked_mul_NoUnits128<R: RInto<ri128>>(x: ri128, rhs: R) -> (res: Result<ri128, Error>)
    requires rhs.rinto_req(),
    ensures res.is_ok() <==> in_NoUnits128(x.val * rhs.rinto_spec().val), res.is_ok() ==> res.unwrap().val == x.val * rhs.rinto_spec().val
{ unimplemented!() }
// `x.try_checked_add/sub("what", rhs)` and `x.checked_add/sub/mul(rhs)` with x: NoUnits128 -- fail iff the exact result leaves NoUnits128::MIN..=MAX
#[verifier::external_body]
pub fn verif_try_checked_add_NoUnits128<R: RInto<ri128>>(x: ri128, rhs: R) -> (res: Result<ri128, Error>)
    requires rhs.rinto_req(),
    ensures res.is_ok() <==> in_NoUnits128(x.val + rhs.rinto_spec().val), res.is_ok() ==> res.unwrap().val == x.val + rhs.rinto_spec().val
{ unimplemented!() }
#[verifier::external_body]
pub fn verif_try_checked_sub_NoUnits128<R: RInto<ri128>>(x: ri128, rhs: R) -> (res: Result<ri128, Error>)
    requires rhs.rinto_req(),
    ensures res.is_ok() <==> in_NoUnits128(x.val - rhs.rinto_spec().val), res.is_ok() ==> res.unwrap().val == x.val - rhs.rinto_spec().val
{ unimplemented!() }
#[verifier::external_body]
pub fn verif_checked_add_NoUnits128<R: RInto<ri128>>(x: ri128, rhs: R) -> (res: Option<ri128>)
    requires rhs.rinto_req(),
    ensures res.is_some() <==> in_NoUnits128(x.val + rhs.rinto_spec().val), res.is_some() ==> res.unwrap().val == x.val + rhs.rinto_spec().val
{ unimplemented!() }
#[verifier::external_body]
pub fn verif_checked_sub_NoUnits128<R: RInto<ri128>>(x: ri128, rhs: R) -> (res: Option<ri128>)
    requires rhs.rinto_req(),
    ensures res.is_some() <==> in_NoUnits128(x.val - rhs.rinto_spec().val), res.is_some() ==> res.unwrap().val == x.val - rhs.rinto_spec().val
{ unimplemented!() }
#[verifier::external_body]
pub fn verif_checked_mul_NoUnits128<R: RInto<ri128>>(x: ri128, rhs: R) -> (res: Option<ri128>)
    requires rhs.rinto_req(),
    ensures res.is_some() <==> in_NoUnits128(x.val * rhs.rinto_spec().val), res.is_some() ==> res.unwrap().val == x.val * rhs.rinto_spec().val
{ unimplemented!() }
pub type NoUnits96 = ri128;
pub open spec fn NoUnits96_MIN() -> int { -39614081257132168796771975168 }
pub open spec fn NoUnits96_MAX() -> int { 39614081257132168796771975167 }
pub open spec fn in_NoUnits96(v: int) -> bool { -39614081257132168796771975168 <= v <= 39614081257132168796771975167 }
#[verifier::external_body]
pub fn verif_try_rfrom_NoUnits96_8(r: ri8) -> (res: Result<ri128, Error>)
    ensures res.is_ok() <==> in_NoUnits96(r.val as int), res.is_ok() ==> res.unwrap().val == r.val
{ unimplemented!() }
#[verifier::external_body]
pub fn verif_try_rfrom_NoUnits96_16(r: ri16) -> (res: Result<ri128, Error>)
    ensures res.is_ok() <==> in_NoUnits96(r.val as int), res.is_ok() ==> res.unwrap().val == r.val
{ unimplemented!() }
#[verifier::external_body]
pub fn verif_try_rfrom_NoUnits96_32(r: ri32) -> (res: Result<ri128, Error>)
    ensures res.is_ok() <==> in_NoUnits96(r.val as int), res.is_ok() ==> res.unwrap().val == r.val
{ unimplemented!() }
#[verifier::external_body]
pub fn verif_try_rfrom_NoUnits96_64(r: ri64) -> (res: Result<ri128, Error>)
    ensures res.is_ok() <==> in_NoUnits96(r.val as int), res.is_ok() ==> res.unwrap().val == r.val
{ unimplemented!() }
#[verifier::external_body]
pub fn verif_try_rfrom_NoUnits96_128(r: ri128) -> (res: Result<ri128, Error>)
    ensures res.is_ok() <==> in_NoUnits96(r.val as int), res.is_ok() ==> res.unwrap().val == r.val
{ unimplemented!() }
#[verifier::external_body]
pub fn verif_try_new_NoUnits96(v: i64) -> (res: Result<ri128, Error>)
    ensures res.is_ok() <==> in_NoUnits96(v as int), res.is_ok() ==> res.unwrap().val == v
{ unimplemented!() }
#[verifier::external_body]
pub fn verif_try_new128_NoUnits96(v: i128) -> (res: Result<ri128, Error>)
    ensures res.is_ok() <==> in_NoUnits96(v as int), res.is_ok() ==> res.unwrap().val == v
{ unimplemented!() }
// `NoUnits96::MIN` / `NoUnits96::MAX` (associated consts of type i128)
pub fn verif_MIN_NoUnits96() -> (r: i128) ensures r == NoUnits96_MIN() { -39614081257132168796771975168 }
pub fn verif_MAX_NoUnits96() -> (r: i128) ensures r == NoUnits96_MAX() { 39614081257132168796771975167 }
// `x.try_checked_mul("what", rhs)` with x: NoUnits96 -- Ok iff the exact product lies within NoUnits96::MIN..=MAX
#[verifier::external_body]
pub fn verif_try_checked_mul_NoUnits96<R: RInto<ri128>>(x: ri128, rhs: R) -> (res: Result<ri128, Error>)
    requires rhs.rinto_req(),
    ensures res.is_ok() <==> in_NoUnits96(x.val * rhs.rinto_spec().val), res.is_ok() ==> res.unwrap().val == x.val * rhs.rinto_spec().val
{ unimplemented!() }
// `x.try_checked_add/sub("what", rhs)` and `x.checked_add/sub/mul(rhs)` with x: NoUnits96 -- fail iff the exact result leaves NoUnits96::MIN..=MAX
#[verifier::external_body]
pub fn verif_try_checked_add_NoUnits96<R: RInto<ri128>>(x: ri128, rhs: R) -> (res: Result<ri128, Error>)
    requires rhs.rinto_req(),
    ensures res.is_ok() <==> in_NoUnits96(x.val + rhs.rinto_spec().val), res.is_ok() ==> res.unwrap().val == x.val + rhs.rinto_spec().val
{ unimplemented!() }
#[verifier::external_body]
pub fn verif_try_checked_sub_NoUnits96<R: RInto<ri128>>(x: ri128, rhs: R) -> (res: Result<ri128, Error>)
    requires rhs.rinto_req(),
    ensures res.is_ok() <==> in_NoUnits96(x.val - rhs.rinto_spec().val), res.is_ok() ==> res.unwrap().val == x.val - rhs.rinto_spec().val
{ unimplemented!() }
#[verifier::external_body]
pub fn verif_checked_add_NoUnits96<R: RInto<ri128>>(x: ri128, rhs: R) -> (res: Option<ri128>)
    requires rhs.rinto_req(),
    ensures res.is_some() <==> in_NoUnits96(x.val + rhs.rinto_spec().val), res.is_some() ==> res.unwrap().val == x.val + rhs.rinto_spec().val
{ unimplemented!() }
#[verifier::external_body]
pub fn verif_checked_sub_NoUnits96<R: RInto<ri128>>(x: ri128, rhs: R) -> (res: Option<ri128>)
    requires rhs.rinto_req(),
    ensures res.is_some() <==> in_NoUnits96(x.val - rhs.rinto_spec().val), res.is_some() ==> res.unwrap().val == x.val - rhs.rinto_spec().val
{ unimplemented!() }
#[verifier::external_body]
pub fn verif_checked_mul_NoUnits96<R: RInto<ri128>>(x: ri128, rhs: R) -> (res: Option<ri128>)
    requires rhs.rinto_req(),
    ensures res.is_some() <==> in_NoUnits96(x.val * rhs.rinto_spec().val), res.is_some() ==> res.unwrap().val == x.val * rhs.rinto_spec().val
{ unimplemented!() }
pub type NoUnits32 = ri32;
pub open spec fn NoUnits32_MIN() -> int { -2147483648 }
pub open spec fn NoUnits32_MAX() -> int { 2147483647 }
pub open spec fn in_NoUnits32(v: int) -> bool { -2147483648 <= v <= 2147483647 }
#[verifier::external_body]
pub fn verif_try_rfrom_NoUnits32_8(r: ri8) -> (res: Result<ri32, Error>)
    ensures res.is_ok() <==> in_NoUnits32(r.val as int), res.is_ok() ==> res.unwrap().val == r.val
{ unimplemented!() }
#[verifier::external_body]
pub fn verif_try_rfrom_NoUnits32_16(r: ri16) -> (res: Result<ri32, Error>)
    ensures res.is_ok() <==> in_NoUnits32(r.val as int), res.is_ok() ==> res.unwrap().val == r.val
{ unimplemented!() }
#[verifier::external_body]
pub fn verif_try_rfrom_NoUnits32_32(r: ri32) -> (res: Result<ri32, Error>)
    ensures res.is_ok() <==> in_NoUnits32(r.val as int), res.is_ok() ==> res.unwrap().val == r.val
{ unimplemented!() }
#[verifier::external_body]
pub fn verif_try_rfrom_NoUnits32_64(r: ri64) -> (res: Result<ri32, Error>)
    ensures res.is_ok() <==> in_NoUnits32(r.val as int), res.is_ok() ==> res.unwrap().val == r.val
{ unimplemented!() }
#[verifier::external_body]
pub fn verif_try_rfrom_NoUnits32_128(r: ri128) -> (res: Result<ri32, Error>)
    ensures res.is_ok() <==> in_NoUnits32(r.val as int), res.is_ok() ==> res.unwrap().val == r.val
{ unimplemented!() }
#[verifier::external_body]
pub fn verif_try_new_NoUnits32(v: i64) -> (res: Result<ri32, Error>)
    ensures res.is_ok() <==> in_NoUnits32(v as int), res.is_ok() ==> res.unwrap().val == v
{ unimplemented!() }
#[verifier::external_body]
pub fn verif_try_new128_NoUnits32(v: i128) -> (res: Result<ri32, Error>)
    ensures res.is_ok() <==> in_NoUnits32(v as int), res.is_ok() ==> res.unwrap().val == v
{ unimplemented!() }
// `NoUnits32::MIN` / `NoUnits32::MAX` (associated consts of type i128)
pub fn verif_MIN_NoUnits32() -> (r: i128) ensures r == NoUnits32_MIN() { -2147483648 }
pub fn verif_MAX_NoUnits32() -> (r: i128) ensures r == NoUnits32_MAX() { 2147483647 }
// `x.try_checked_mul("what", rhs)` with x: NoUnits32 -- Ok iff the exact product lies within NoUnits32::MIN..=MAX
#[verifier::external_body]
pub fn verif_try_checked_mul_NoUnits32<R: RInto<ri32>>(x: ri32, rhs: R) -> (res: Result<ri32, Error>)
    requires rhs.rinto_req(),
    ensures res.is_ok() <==> in_NoUnits32(x.val * rhs.rinto_spec().val), res.is_ok() ==> res.unwrap().val == x.val * rhs.rinto_spec().val
{ unimplemented!() }
// `x.try_checked_add/sub("what", rhs)` and `x.checked_add/sub/mul(rhs)` with x: NoUnits32 -- fail iff the exact result leaves NoUnits32::MIN..=MAX
#[verifier::external_body]
pub fn verif_try_checked_add_NoUnits32<R: RInto<ri32>>(x: ri32, rhs: R) -> (res: Result<ri32, Error>)
    requires rhs.rinto_req(),
    ensures res.is_ok() <==> in_NoUnits32(x.val + rhs.rinto_spec().val), res.is_ok() ==> res.unwrap().val == x.val + rhs.rinto_spec().val
{ unimplemented!() }
#[verifier::external_body]
pub fn verif_try_checked_sub_NoUnits32<R: RInto<ri32>>(x: ri32, rhs: R) -> (res: Result<ri32, Error>)
    requires rhs.rinto_req(),
    ensures res.is_ok() <==> in_NoUnits32(x.val - rhs.rinto_spec().val), res.is_ok() ==> res.unwrap().val == x.val - rhs.rinto_spec().val
{ unimplemented!() }
#[verifier::external_body]
pub fn verif_checked_add_NoUnits32<R: RInto<ri32>>(x: ri32, rhs: R) -> (res: Option<ri32>)
    requires rhs.rinto_req(),
    ensures res.is_some() <==> in_NoUnits32(x.val + rhs.rinto_spec().val), res.is_some() ==> res.unwrap().val == x.val + rhs.rinto_spec().val
{ unimplemented!() }
#[verifier::external_body]
pub fn verif_checked_sub_NoUnits32<R: RInto<ri32>>(x: ri32, rhs: R) -> (res: Option<ri32>)
    requires rhs.rinto_req(),
    ensures res.is_some() <==> in_NoUnits32(x.val - rhs.rinto_spec().val), res.is_some() ==> res.unwrap().val == x.val - rhs.rinto_spec().val
{ unimplemented!() }
#[verifier::external_body]
pub fn verif_checked_mul_NoUnits32<R: RInto<ri32>>(x: ri32, rhs: R) -> (res: Option<ri32>)
    requires rhs.rinto_req(),
    ensures res.is_some() <==> in_NoUnits32(x.val * rhs.rinto_spec().val), res.is_some() ==> res.unwrap().val == x.val * rhs.rinto_spec().val
{ unimplemented!() }
pub type NoUnits16 = ri16;
pub open spec fn NoUnits16_MIN() -> int { -32768 }
pub open spec fn NoUnits16_MAX() -> int { 32767 }
pub open spec fn in_NoUnits16(v: int) -> bool { -32768 <= v <= 32767 }
#[verifier::external_body]
pub fn verif_try_rfrom_NoUnits16_8(r: ri8) -> (res: Result<ri16, Error>)
    ensures res.is_ok() <==> in_NoUnits16(r.val as int), res.is_ok() ==> res.unwrap().val == r.val
{ unimplemented!() }
#[verifier::external_body]
pub fn verif_try_rfrom_NoUnits16_16(r: ri16) -> (res: Result<ri16, Error>)
    ensures res.is_ok() <==> in_NoUnits16(r.val as int), res.is_ok() ==> res.unwrap().val == r.val
{ unimplemented!() }
#[verifier::external_body]
pub fn verif_try_rfrom_NoUnits16_32(r: ri32) -> (res: Result<ri16, Error>)
    ensures res.is_ok() <==> in_NoUnits16(r.val as int), res.is_ok() ==> res.unwrap().val == r.val
{ unimplemented!() }
#[verifier::external_body]
pub fn verif_try_rfrom_NoUnits16_64(r: ri64) -> (res: Result<ri16, Error>)
    ensures res.is_ok() <==> in_NoUnits16(r.val as int), res.is_ok() ==> res.unwrap().val == r.val
{ unimplemented!() }
#[verifier::external_body]
pub fn verif_try_rfrom_NoUnits16_128(r: ri128) -> (res: Result<ri16, Error>)
    ensures res.is_ok() <==> in_NoUnits16(r.val as int), res.is_ok() ==> res.unwrap().val == r.val
{ unimplemented!() }
#[verifier::external_body]
pub fn verif_try_new_NoUnits16(v: i64) -> (res: Result<ri16, Error>)
    ensures res.is_ok() <==> in_NoUnits16(v as int), res.is_ok() ==> res.unwrap().val == v
{ unimplemented!() }
#[verifier::external_body]
pub fn verif_try_new128_NoUnits16(v: i128) -> (res: Result<ri16, Error>)
    ensures res.is_ok() <==> in_NoUnits16(v as int), res.is_ok() ==> res.unwrap().val == v
{ unimplemented!() }
// `NoUnits16::MIN` / `NoUnits16::MAX` (associated consts of type i128)
pub fn verif_MIN_NoUnits16() -> (r: i128) ensures r == NoUnits16_MIN() { -32768 }
pub fn verif_MAX_NoUnits16() -> (r: i128) ensures r == NoUnits16_MAX() { 32767 }
// `x.try_checked_mul("what", rhs)` with x: NoUnits16 -- Ok iff the exact product lies within NoUnits16::MIN..=MAX
#[verifier::external_body]
pub fn verif_try_checked_mul_NoUnits16<R: RInto<ri16>>(x: ri16, rhs: R) -> (res: Result<ri16, Error>)
    requires rhs.rinto_req(),
    ensures res.is_ok() <==> in_NoUnits16(x.val * rhs.rinto_spec().val), res.is_ok() ==> res.unwrap().val == x.val * rhs.rinto_spec().val
{ unimplemented!() }
// `x.try_checked_add/sub("what", rhs)` and `x.checked_add/sub/mul(rhs)` with x: NoUnits16 -- fail iff the exact result leaves NoUnits16::MIN..=MAX
#[verifier::external_body]
pub fn verif_try_checked_add_NoUnits16<R: RInto<ri16>>(x: ri16, rhs: R) -> (res: Result<ri16, Error>)
    requires rhs.rinto_req(),
    ensures res.is_ok() <==> in_NoUnits16(x.val + rhs.rinto_spec().val), res.is_ok() ==> res.unwrap().val == x.val + rhs.rinto_spec().val
{ unimplemented!() }
#[verifier::external_body]
pub fn verif_try_checked_sub_NoUnits16<R: RInto<ri16>>(x: ri16, rhs: R) -> (res: Result<ri16, Error>)
    requires rhs.rinto_req(),
    ensures res.is_ok() <==> in_NoUnits16(x.val - rhs.rinto_spec().val), res.is_ok() ==> res.unwrap().val == x.val - rhs.rinto_spec().val
{ unimplemented!() }
#[verifier::external_body]
pub fn verif_checked_add_NoUnits16<R: RInto<ri16>>(x: ri16, rhs: R) -> (res: Option<ri16>)
    requires rhs.rinto_req(),
    ensures res.is_some() <==> in_NoUnits16(x.val + rhs.rinto_spec().val), res.is_some() ==> res.unwrap().val == x.val + rhs.rinto_spec().val
{ unimplemented!() }
#[verifier::external_body]
pub fn verif_checked_sub_NoUnits16<R: RInto<ri16>>(x: ri16, rhs: R) -> (res: Option<ri16>)
    requires rhs.rinto_req(),
    ensures res.is_some() <==> in_NoUnits16(x.val - rhs.rinto_spec().val), res.is_some() ==> res.unwrap().val == x.val - rhs.rinto_spec().val
{ unimplemented!() }
#[verifier::external_body]
pub fn verif_checked_mul_NoUnits16<R: RInto<ri16>>(x: ri16, rhs: R) -> (res: Option<ri16>)
    requires rhs.rinto_req(),
    ensures res.is_some() <==> in_NoUnits16(x.val * rhs.rinto_spec().val), res.is_some() ==> res.unwrap().val == x.val * rhs.rinto_spec().val
{ unimplemented!() }
pub type NoUnits8 = ri8;
pub open spec fn NoUnits8_MIN() -> int { -128 }
pub open spec fn NoUnits8_MAX() -> int { 127 }
pub open spec fn in_NoUnits8(v: int) -> bool { -128 <= v <= 127 }
#[verifier::external_body]
pub fn verif_try_rfrom_NoUnits8_8(r: ri8) -> (res: Result<ri8, Error>)
    ensures res.is_ok() <==> in_NoUnits8(r.val as int), res.is_ok() ==> res.unwrap().val == r.val
{ unimplemented!() }
#[verifier::external_body]
pub fn verif_try_rfrom_NoUnits8_16(r: ri16) -> (res: Result<ri8, Error>)
    ensures res.is_ok() <==> in_NoUnits8(r.val as int), res.is_ok() ==> res.unwrap().val == r.val
{ unimplemented!() }
#[verifier::external_body]
pub fn verif_try_rfrom_NoUnits8_32(r: ri32) -> (res: Result<ri8, Error>)
    ensures res.is_ok() <==> in_NoUnits8(r.val as int), res.is_ok() ==> res.unwrap().val == r.val
{ unimplemented!() }
#[verifier::external_body]
pub fn verif_try_rfrom_NoUnits8_64(r: ri64) -> (res: Result<ri8, Error>)
    ensures res.is_ok() <==> in_NoUnits8(r.val as int), res.is_ok() ==> res.unwrap().val == r.val
{ unimplemented!() }
#[verifier::external_body]
pub fn verif_try_rfrom_NoUnits8_128(r: ri128) -> (res: Result<ri8, Error>)
    ensures res.is_ok() <==> in_NoUnits8(r.val as int), res.is_ok() ==> res.unwrap().val == r.val
{ unimplemented!() }
#[verifier::external_body]
pub fn verif_try_new_NoUnits8(v: i64) -> (res: Result<ri8, Error>)
    ensures res.is_ok() <==> in_NoUnits8(v as int), res.is_ok() ==> res.unwrap().val == v
{ unimplemented!() }
#[verifier::external_body]
pub fn verif_try_new128_NoUnits8(v: i128) -> (res: Result<ri8, Error>)
    ensures res.is_ok() <==> in_NoUnits8(v as int), res.is_ok() ==> res.unwrap().val == v
{ unimplemented!() }
// `NoUnits8::MIN` / `NoUnits8::MAX` (associated consts of type i128)
pub fn verif_MIN_NoUnits8() -> (r: i128) ensures r == NoUnits8_MIN() { -128 }
pub fn verif_MAX_NoUnits8() -> (r: i128) ensures r == NoUnits8_MAX() { 127 }
// `x.try_checked_mul("what", rhs)` with x: NoUnits8 -- Ok iff the exact product lies within NoUnits8::MIN..=MAX
#[verifier::external_body]
pub fn verif_try_checked_mul_NoUnits8<R: RInto<ri8>>(x: ri8, rhs: R) -> (res: Result<ri8, Error>)
    requires rhs.rinto_req(),
    ensures res.is_ok() <==> in_NoUnits8(x.val * rhs.rinto_spec().val), res.is_ok() ==> res.unwrap().val == x.val * rhs.rinto_spec().val
{ unimplemented!() }
// `x.try_checked_add/sub("what", rhs)` and `x.checked_add/sub/mul(rhs)` with x: NoUnits8 -- fail iff the exact result leaves NoUnits8::MIN..=MAX
#[verifier::external_body]
pub fn verif_try_checked_add_NoUnits8<R: RInto<ri8>>(x: ri8, rhs: R) -> (res: Result<ri8, Error>)
    requires rhs.rinto_req(),
    ensures res.is_ok() <==> in_NoUnits8(x.val + rhs.rinto_spec().val), res.is_ok() ==> res.unwrap().val == x.val + rhs.rinto_spec().val
{ unimplemented!() }
#[verifier::external_body]
pub fn verif_try_checked_sub_NoUnits8<R: RInto<ri8>>(x: ri8, rhs: R) -> (res: Result<ri8, Error>)
    requires rhs.rinto_req(),
    ensures res.is_ok() <==> in_NoUnits8(x.val - rhs.rinto_spec().val), res.is_ok() ==> res.unwrap().val == x.val - rhs.rinto_spec().val
{ unimplemented!() }
#[verifier::external_body]
pub fn verif_checked_add_NoUnits8<R: RInto<ri8>>(x: ri8, rhs: R) -> (res: Option<ri8>)
    requires rhs.rinto_req(),
    ensures res.is_some() <==> in_NoUnits8(x.val + rhs.rinto_spec().val), res.is_some() ==> res.unwrap().val == x.val + rhs.rinto_spec().val
{ unimplemented!() }
#[verifier::external_body]
pub fn verif_checked_sub_NoUnits8<R: RInto<ri8>>(x: ri8, rhs: R) -> (res: Option<ri8>)
    requires rhs.rinto_req(),
    ensures res.is_some() <==> in_NoUnits8(x.val - rhs.rinto_spec().val), res.is_some() ==> res.unwrap().val == x.val - rhs.rinto_spec().val
{ unimplemented!() }
#[verifier::external_body]
pub fn verif_checked_mul_NoUnits8<R: RInto<ri8>>(x: ri8, rhs: R) -> (res: Option<ri8>)
    requires rhs.rinto_req(),
    ensures res.is_some() <==> in_NoUnits8(x.val * rhs.rinto_spec().val), res.is_some() ==> res.unwrap().val == x.val * rhs.rinto_spec().val
{ unimplemented!() }
pub type Sign = ri8;
pub open spec fn Sign_MIN() -> int { -1 }
pub open spec fn Sign_MAX() -> int { 1 }
pub open spec fn in_Sign(v: int) -> bool { -1 <= v <= 1 }
#[verifier::external_body]
pub fn verif_try_rfrom_Sign_8(r: ri8) -> (res: Result<ri8, Error>)
    ensures res.is_ok() <==> in_Sign(r.val as int), res.is_ok() ==> res.unwrap().val == r.val
{ unimplemented!() }
#[verifier::external_body]
pub fn verif_try_rfrom_Sign_16(r: ri16) -> (res: Result<ri8, Error>)
    ensures res.is_ok() <==> in_Sign(r.val as int), res.is_ok() ==> res.unwrap().val == r.val
{ unimplemented!() }
#[verifier::external_body]
pub fn verif_try_rfrom_Sign_32(r: ri32) -> (res: Result<ri8, Error>)
    ensures res.is_ok() <==> in_Sign(r.val as int), res.is_ok() ==> res.unwrap().val == r.val
{ unimplemented!() }
#[verifier::external_body]
pub fn verif_try_rfrom_Sign_64(r: ri64) -> (res: Result<ri8, Error>)
    ensures res.is_ok() <==> in_Sign(r.val as int), res.is_ok() ==> res.unwrap().val == r.val
{ unimplemented!() }
#[verifier::external_body]
pub fn verif_try_rfrom_Sign_128(r: ri128) -> (res: Result<ri8, Error>)
    ensures res.is_ok() <==> in_Sign(r.val as int), res.is_ok() ==> res.unwrap().val == r.val
{ unimplemented!() }
#[verifier::external_body]
pub fn verif_try_new_Sign(v: i64) -> (res: Result<ri8, Error>)
    ensures res.is_ok() <==> in_Sign(v as int), res.is_ok() ==> res.unwrap().val == v
{ unimplemented!() }
#[verifier::external_body]
pub fn verif_try_new128_Sign(v: i128) -> (res: Result<ri8, Error>)
    ensures res.is_ok() <==> in_Sign(v as int), res.is_ok() ==> res.unwrap().val == v
{ unimplemented!() }
// `Sign::MIN` / `Sign::MAX` (associated consts of type i128)
pub fn verif_MIN_Sign() -> (r: i128) ensures r == Sign_MIN() { -1 }
pub fn verif_MAX_Sign() -> (r: i128) ensures r == Sign_MAX() { 1 }
// `x.try_checked_mul("what", rhs)` with x: Sign -- Ok iff the exact product lies within Sign::MIN..=MAX
#[verifier::external_body]
pub fn verif_try_checked_mul_Sign<R: RInto<ri8>>(x: ri8, rhs: R) -> (res: Result<ri8, Error>)
    requires rhs.rinto_req(),
    ensures res.is_ok() <==> in_Sign(x.val * rhs.rinto_spec().val), res.is_ok() ==> res.unwrap().val == x.val * rhs.rinto_spec().val
{ unimplemented!() }
// `x.try_checked_add/sub("what", rhs)` and `x.checked_add/sub/mul(rhs)` with x: Sign -- fail iff the exact result leaves Sign::MIN..=MAX
#[verifier::external_body]
pub fn verif_try_checked_add_Sign<R: RInto<ri8>>(x: ri8, rhs: R) -> (res: Result<ri8, Error>)
    requires rhs.rinto_req(),
    ensures res.is_ok() <==> in_Sign(x.val + rhs.rinto_spec().val), res.is_ok() ==> res.unwrap().val == x.val + rhs.rinto_spec().val
{ unimplemented!() }
#[verifier::external_body]
pub fn verif_try_checked_sub_Sign<R: RInto<ri8>>(x: ri8, rhs: R) -> (res: Result<ri8, Error>)
    requires rhs.rinto_req(),
    ensures res.is_ok() <==> in_Sign(x.val - rhs.rinto_spec().val), res.is_ok() ==> res.unwrap().val == x.val - rhs.rinto_spec().val
{ unimplemented!() }
#[verifier::external_body]
pub fn verif_checked_add_Sign<R: RInto<ri8>>(x: ri8, rhs: R) -> (res: Option<ri8>)
    requires rhs.rinto_req(),
    ensures res.is_some() <==> in_Sign(x.val + rhs.rinto_spec().val), res.is_some() ==> res.unwrap().val == x.val + rhs.rinto_spec().val
{ unimplemented!() }
#[verifier::external_body]
pub fn verif_checked_sub_Sign<R: RInto<ri8>>(x: ri8, rhs: R) -> (res: Option<ri8>)
    requires rhs.rinto_req(),
    ensures res.is_some() <==> in_Sign(x.val - rhs.rinto_spec().val), res.is_some() ==> res.unwrap().val == x.val - rhs.rinto_spec().val
{ unimplemented!() }
#[verifier::external_body]
pub fn verif_checked_mul_Sign<R: RInto<ri8>>(x: ri8, rhs: R) -> (res: Option<ri8>)
    requires rhs.rinto_req(),
    ensures res.is_some() <==> in_Sign(x.val * rhs.rinto_spec().val), res.is_some() ==> res.unwrap().val == x.val * rhs.rinto_spec().val
{ unimplemented!() }
pub type Year = ri16;
pub open spec fn Year_MIN() -> int { -9999 }
pub open spec fn Year_MAX() -> int { 9999 }
pub open spec fn in_Year(v: int) -> bool { -9999 <= v <= 9999 }
#[verifier::external_body]
pub fn verif_try_rfrom_Year_8(r: ri8) -> (res: Result<ri16, Error>)
    ensures res.is_ok() <==> in_Year(r.val as int), res.is_ok() ==> res.unwrap().val == r.val
{ unimplemented!() }
#[verifier::external_body]
pub fn verif_try_rfrom_Year_16(r: ri16) -> (res: Result<ri16, Error>)
    ensures res.is_ok() <==> in_Year(r.val as int), res.is_ok() ==> res.unwrap().val == r.val
{ unimplemented!() }
#[verifier::external_body]
pub fn verif_try_rfrom_Year_32(r: ri32) -> (res: Result<ri16, Error>)
    ensures res.is_ok() <==> in_Year(r.val as int), res.is_ok() ==> res.unwrap().val == r.val
{ unimplemented!() }
#[verifier::external_body]
pub fn verif_try_rfrom_Year_64(r: ri64) -> (res: Result<ri16, Error>)
    ensures res.is_ok() <==> in_Year(r.val as int), res.is_ok() ==> res.unwrap().val == r.val
{ unimplemented!() }
#[verifier::external_body]
pub fn verif_try_rfrom_Year_128(r: ri128) -> (res: Result<ri16, Error>)
    ensures res.is_ok() <==> in_Year(r.val as int), res.is_ok() ==> res.unwrap().val == r.val
{ unimplemented!() }
#[verifier::external_body]
pub fn verif_try_new_Year(v: i64) -> (res: Result<ri16, Error>)
    ensures res.is_ok() <==> in_Year(v as int), res.is_ok() ==> res.unwrap().val == v
{ unimplemented!() }
#[verifier::external_body]
pub fn verif_try_new128_Year(v: i128) -> (res: Result<ri16, Error>)
    ensures res.is_ok() <==> in_Year(v as int), res.is_ok() ==> res.unwrap().val == v
{ unimplemented!() }
// `Year::MIN` / `Year::MAX` (associated consts of type i128)
pub fn verif_MIN_Year() -> (r: i128) ensures r == Year_MIN() { -9999 }
pub fn verif_MAX_Year() -> (r: i128) ensures r == Year_MAX() { 9999 }
// `x.try_checked_mul("what", rhs)` with x: Year -- Ok iff the exact product lies within Year::MIN..=MAX
#[verifier::external_body]
pub fn verif_try_checked_mul_Year<R: RInto<ri16>>(x: ri16, rhs: R) -> (res: Result<ri16, Error>)
    requires rhs.rinto_req(),
    ensures res.is_ok() <==> in_Year(x.val * rhs.rinto_spec().val), res.is_ok() ==> res.unwrap().val == x.val * rhs.rinto_spec().val
{ unimplemented!() }
// `x.try_checked_add/sub("what", rhs)` and `x.checked_add/sub/mul(rhs)` with x: Year -- fail iff the exact result leaves Year::MIN..=MAX
#[verifier::external_body]
pub fn verif_try_checked_add_Year<R: RInto<ri16>>(x: ri16, rhs: R) -> (res: Result<ri16, Error>)
    requires rhs.rinto_req(),
    ensures res.is_ok() <==> in_Year(x.val + rhs.rinto_spec().val), res.is_ok() ==> res.unwrap().val == x.val + rhs.rinto_spec().val
{ unimplemented!() }
#[verifier::external_body]
pub fn verif_try_checked_sub_Year<R: RInto<ri16>>(x: ri16, rhs: R) -> (res: Result<ri16, Error>)
    requires rhs.rinto_req(),
    ensures res.is_ok() <==> in_Year(x.val - rhs.rinto_spec().val), res.is_ok() ==> res.unwrap().val == x.val - rhs.rinto_spec().val
{ unimplemented!() }
#[verifier::external_body]
pub fn verif_checked_add_Year<R: RInto<ri16>>(x: ri16, rhs: R) -> (res: Option<ri16>)
    requires rhs.rinto_req(),
    ensures res.is_some() <==> in_Year(x.val + rhs.rinto_spec().val), res.is_some() ==> res.unwrap().val == x.val + rhs.rinto_spec().val
{ unimplemented!() }
#[verifier::external_body]
pub fn verif_checked_sub_Year<R: RInto<ri16>>(x: ri16, rhs: R) -> (res: Option<ri16>)
    requires rhs.rinto_req(),
    ensures res.is_some() <==> in_Year(x.val - rhs.rinto_spec().val), res.is_some() ==> res.unwrap().val == x.val - rhs.rinto_spec().val
{ unimplemented!() }
#[verifier::external_body]
pub fn verif_checked_mul_Year<R: RInto<ri16>>(x: ri16, rhs: R) -> (res: Option<ri16>)
    requires rhs.rinto_req(),
    ensures res.is_some() <==> in_Year(x.val * rhs.rinto_spec().val), res.is_some() ==> res.unwrap().val == x.val * rhs.rinto_spec().val
{ unimplemented!() }
pub type Month = ri8;
pub open spec fn Month_MIN() -> int { 1 }
pub open spec fn Month_MAX() -> int { 12 }
pub open spec fn in_Month(v: int) -> bool { 1 <= v <= 12 }
#[verifier::external_body]
pub fn verif_try_rfrom_Month_8(r: ri8) -> (res: Result<ri8, Error>)
    ensures res.is_ok() <==> in_Month(r.val as int), res.is_ok() ==> res.unwrap().val == r.val
{ unimplemented!() }
#[verifier::external_body]
pub fn verif_try_rfrom_Month_16(r: ri16) -> (res: Result<ri8, Error>)
    ensures res.is_ok() <==> in_Month(r.val as int), res.is_ok() ==> res.unwrap().val == r.val
{ unimplemented!() }
#[verifier::external_body]
pub fn verif_try_rfrom_Month_32(r: ri32) -> (res: Result<ri8, Error>)
    ensures res.is_ok() <==> in_Month(r.val as int), res.is_ok() ==> res.unwrap().val == r.val
{ unimplemented!() }
#[verifier::external_body]
pub fn verif_try_rfrom_Month_64(r: ri64) -> (res: Result<ri8, Error>)
    ensures res.is_ok() <==> in_Month(r.val as int), res.is_ok() ==> res.unwrap().val == r.val
{ unimplemented!() }
#[verifier::external_body]
pub fn verif_try_rfrom_Month_128(r: ri128) -> (res: Result<ri8, Error>)
    ensures res.is_ok() <==> in_Month(r.val as int), res.is_ok() ==> res.unwrap().val == r.val
{ unimplemented!() }
#[verifier::external_body]
pub fn verif_try_new_Month(v: i64) -> (res: Result<ri8, Error>)
    ensures res.is_ok() <==> in_Month(v as int), res.is_ok() ==> res.unwrap().val == v
{ unimplemented!() }
#[verifier::external_body]
pub fn verif_try_new128_Month(v: i128) -> (res: Result<ri8, Error>)
    ensures res.is_ok() <==> in_Month(v as int), res.is_ok() ==> res.unwrap().val == v
{ unimplemented!() }
// `Month::MIN` / `Month::MAX` (associated consts of type i128)
pub fn verif_MIN_Month() -> (r: i128) ensures r == Month_MIN() { 1 }
pub fn verif_MAX_Month() -> (r: i128) ensures r == Month_MAX() { 12 }
// `x.try_checked_mul("what", rhs)` with x: Month -- Ok iff the exact product lies within Month::MIN..=MAX
#[verifier::external_body]
pub fn verif_try_checked_mul_Month<R: RInto<ri8>>(x: ri8, rhs: R) -> (res: Result<ri8, Error>)
    requires rhs.rinto_req(),
    ensures res.is_ok() <==> in_Month(x.val * rhs.rinto_spec().val), res.is_ok() ==> res.unwrap().val == x.val * rhs.rinto_spec().val
{ unimplemented!() }
// `x.try_checked_add/sub("what", rhs)` and `x.checked_add/sub/mul(rhs)` with x: Month -- fail iff the exact result leaves Month::MIN..=MAX
#[verifier::external_body]
pub fn verif_try_checked_add_Month<R: RInto<ri8>>(x: ri8, rhs: R) -> (res: Result<ri8, Error>)
    requires rhs.rinto_req(),
    ensures res.is_ok() <==> in_Month(x.val + rhs.rinto_spec().val), res.is_ok() ==> res.unwrap().val == x.val + rhs.rinto_spec().val
{ unimplemented!() }
#[verifier::external_body]
pub fn verif_try_checked_sub_Month<R: RInto<ri8>>(x: ri8, rhs: R) -> (res: Result<ri8, Error>)
    requires rhs.rinto_req(),
    ensures res.is_ok() <==> in_Month(x.val - rhs.rinto_spec().val), res.is_ok() ==> res.unwrap().val == x.val - rhs.rinto_spec().val
{ unimplemented!() }
#[verifier::external_body]
pub fn verif_checked_add_Month<R: RInto<ri8>>(x: ri8, rhs: R) -> (res: Option<ri8>)
    requires rhs.rinto_req(),
    ensures res.is_some() <==> in_Month(x.val + rhs.rinto_spec().val), res.is_some() ==> res.unwrap().val == x.val + rhs.rinto_spec().val
{ unimplemented!() }
#[verifier::external_body]
pub fn verif_checked_sub_Month<R: RInto<ri8>>(x: ri8, rhs: R) -> (res: Option<ri8>)
    requires rhs.rinto_req(),
    ensures res.is_some() <==> in_Month(x.val - rhs.rinto_spec().val), res.is_some() ==> res.unwrap().val == x.val - rhs.rinto_spec().val
{ unimplemented!() }
#[verifier::external_body]
pub fn verif_checked_mul_Month<R: RInto<ri8>>(x: ri8, rhs: R) -> (res: Option<ri8>)
    requires rhs.rinto_req(),
    ensures res.is_some() <==> in_Month(x.val * rhs.rinto_spec().val), res.is_some() ==> res.unwrap().val == x.val * rhs.rinto_spec().val
{ unimplemented!() }
pub type Day = ri8;
pub open spec fn Day_MIN() -> int { 1 }
pub open spec fn Day_MAX() -> int { 31 }
pub open spec fn in_Day(v: int) -> bool { 1 <= v <= 31 }
#[verifier::external_body]
pub fn verif_try_rfrom_Day_8(r: ri8) -> (res: Result<ri8, Error>)
    ensures res.is_ok() <==> in_Day(r.val as int), res.is_ok() ==> res.unwrap().val == r.val
{ unimplemented!() }
#[verifier::external_body]
pub fn verif_try_rfrom_Day_16(r: ri16) -> (res: Result<ri8, Error>)
    ensures res.is_ok() <==> in_Day(r.val as int), res.is_ok() ==> res.unwrap().val == r.val
{ unimplemented!() }
#[verifier::external_body]
pub fn verif_try_rfrom_Day_32(r: ri32) -> (res: Result<ri8, Error>)
    ensures res.is_ok() <==> in_Day(r.val as int), res.is_ok() ==> res.unwrap().val == r.val
{ unimplemented!() }
#[verifier::external_body]
pub fn verif_try_rfrom_Day_64(r: ri64) -> (res: Result<ri8, Error>)
    ensures res.is_ok() <==> in_Day(r.val as int), res.is_ok() ==> res.unwrap().val == r.val
{ unimplemented!() }
#[verifier::external_body]
pub fn verif_try_rfrom_Day_128(r: ri128) -> (res: Result<ri8, Error>)
    ensures res.is_ok() <==> in_Day(r.val as int), res.is_ok() ==> res.unwrap().val == r.val
{ unimplemented!() }
#[verifier::external_body]
pub fn verif_try_new_Day(v: i64) -> (res: Result<ri8, Error>)
    ensures res.is_ok() <==> in_Day(v as int), res.is_ok() ==> res.unwrap().val == v
{ unimplemented!() }
#[verifier::external_body]
pub fn verif_try_new128_Day(v: i128) -> (res: Result<ri8, Error>)
    ensures res.is_ok() <==> in_Day(v as int), res.is_ok() ==> res.unwrap().val == v
{ unimplemented!() }
// `Day::MIN` / `Day::MAX` (associated consts of type i128)
pub fn verif_MIN_Day() -> (r: i128) ensures r == Day_MIN() { 1 }
pub fn verif_MAX_Day() -> (r: i128) ensures r == Day_MAX() { 31 }
// `x.try_checked_mul("what", rhs)` with x: Day -- Ok iff the exact product lies within Day::MIN..=MAX
#[verifier::external_body]
pub fn verif_try_checked_mul_Day<R: RInto<ri8>>(x: ri8, rhs: R) -> (res: Result<ri8, Error>)
    requires rhs.rinto_req(),
    ensures res.is_ok() <==> in_Day(x.val * rhs.rinto_spec().val), res.is_ok() ==> res.unwrap().val == x.val * rhs.rinto_spec().val
{ unimplemented!() }
// `x.try_checked_add/sub("what", rhs)` and `x.checked_add/sub/mul(rhs)` with x: Day -- fail iff the exact result leaves Day::MIN..=MAX
#[verifier::external_body]
pub fn verif_try_checked_add_Day<R: RInto<ri8>>(x: ri8, rhs: R) -> (res: Result<ri8, Error>)
    requires rhs.rinto_req(),
    ensures res.is_ok() <==> in_Day(x.val + rhs.rinto_spec().val), res.is_ok() ==> res.unwrap().val == x.val + rhs.rinto_spec().val
{ unimplemented!() }
#[verifier::external_body]
pub fn verif_try_checked_sub_Day<R: RInto<ri8>>(x: ri8, rhs: R) -> (res: Result<ri8, Error>)
    requires rhs.rinto_req(),
    ensures res.is_ok() <==> in_Day(x.val - rhs.rinto_spec().val), res.is_ok() ==> res.unwrap().val == x.val - rhs.rinto_spec().val
{ unimplemented!() }
#[verifier::external_body]
pub fn verif_checked_add_Day<R: RInto<ri8>>(x: ri8, rhs: R) -> (res: Option<ri8>)
    requires rhs.rinto_req(),
    ensures res.is_some() <==> in_Day(x.val + rhs.rinto_spec().val), res.is_some() ==> res.unwrap().val == x.val + rhs.rinto_spec().val
{ unimplemented!() }
#[verifier::external_body]
pub fn verif_checked_sub_Day<R: RInto<ri8>>(x: ri8, rhs: R) -> (res: Option<ri8>)
    requires rhs.rinto_req(),
    ensures res.is_some() <==> in_Day(x.val - rhs.rinto_spec().val), res.is_some() ==> res.unwrap().val == x.val - rhs.rinto_spec().val
{ unimplemented!() }
#[verifier::external_body]
pub fn verif_checked_mul_Day<R: RInto<ri8>>(x: ri8, rhs: R) -> (res: Option<ri8>)
    requires rhs.rinto_req(),
    ensures res.is_some() <==> in_Day(x.val * rhs.rinto_spec().val), res.is_some() ==> res.unwrap().val == x.val * rhs.rinto_spec().val
{ unimplemented!() }
pub type Hour = ri8;
pub open spec fn Hour_MIN() -> int { 0 }
pub open spec fn Hour_MAX() -> int { 23 }
pub open spec fn in_Hour(v: int) -> bool { 0 <= v <= 23 }
#[verifier::external_body]
pub fn verif_try_rfrom_Hour_8(r: ri8) -> (res: Result<ri8, Error>)
    ensures res.is_ok() <==> in_Hour(r.val as int), res.is_ok() ==> res.unwrap().val == r.val
{ unimplemented!() }
#[verifier::external_body]
pub fn verif_try_rfrom_Hour_16(r: ri16) -> (res: Result<ri8, Error>)
    ensures res.is_ok() <==> in_Hour(r.val as int), res.is_ok() ==> res.unwrap().val == r.val
{ unimplemented!() }
#[verifier::external_body]
pub fn verif_try_rfrom_Hour_32(r: ri32) -> (res: Result<ri8, Error>)
    ensures res.is_ok() <==> in_Hour(r.val as int), res.is_ok() ==> res.unwrap().val == r.val
{ unimplemented!() }
#[verifier::external_body]
pub fn verif_try_rfrom_Hour_64(r: ri64) -> (res: Result<ri8, Error>)
    ensures res.is_ok() <==> in_Hour(r.val as int), res.is_ok() ==> res.unwrap().val == r.val
{ unimplemented!() }
#[verifier::external_body]
pub fn verif_try_rfrom_Hour_128(r: ri128) -> (res: Result<ri8, Error>)
    ensures res.is_ok() <==> in_Hour(r.val as int), res.is_ok() ==> res.unwrap().val == r.val
{ unimplemented!() }
#[verifier::external_body]
pub fn verif_try_new_Hour(v: i64) -> (res: Result<ri8, Error>)
    ensures res.is_ok() <==> in_Hour(v as int), res.is_ok() ==> res.unwrap().val == v
{ unimplemented!() }
#[verifier::external_body]
pub fn verif_try_new128_Hour(v: i128) -> (res: Result<ri8, Error>)
    ensures res.is_ok() <==> in_Hour(v as int), res.is_ok() ==> res.unwrap().val == v
{ unimplemented!() }
// `Hour::MIN` / `Hour::MAX` (associated consts of type i128)
pub fn verif_MIN_Hour() -> (r: i128) ensures r == Hour_MIN() { 0 }
pub fn verif_MAX_Hour() -> (r: i128) ensures r == Hour_MAX() { 23 }
// `x.try_checked_mul("what", rhs)` with x: Hour -- Ok iff the exact product lies within Hour::MIN..=MAX
#[verifier::external_body]
pub fn verif_try_checked_mul_Hour<R: RInto<ri8>>(x: ri8, rhs: R) -> (res: Result<ri8, Error>)
    requires rhs.rinto_req(),
    ensures res.is_ok() <==> in_Hour(x.val * rhs.rinto_spec().val), res.is_ok() ==> res.unwrap().val == x.val * rhs.rinto_spec().val
{ unimplemented!() }
// `x.try_checked_add/sub("what", rhs)` and `x.checked_add/sub/mul(rhs)` with x: Hour -- fail iff the exact result leaves Hour::MIN..=MAX
#[verifier::external_body]
pub fn verif_try_checked_add_Hour<R: RInto<ri8>>(x: ri8, rhs: R) -> (res: Result<ri8, Error>)
    requires rhs.rinto_req(),
    ensures res.is_ok() <==> in_Hour(x.val + rhs.rinto_spec().val), res.is_ok() ==> res.unwrap().val == x.val + rhs.rinto_spec().val
{ unimplemented!() }
#[verifier::external_body]
pub fn verif_try_checked_sub_Hour<R: RInto<ri8>>(x: ri8, rhs: R) -> (res: Result<ri8, Error>)
    requires rhs.rinto_req(),
    ensures res.is_ok() <==> in_Hour(x.val - rhs.rinto_spec().val), res.is_ok() ==> res.unwrap().val == x.val - rhs.rinto_spec().val
{ unimplemented!() }
#[verifier::external_body]
pub fn verif_checked_add_Hour<R: RInto<ri8>>(x: ri8, rhs: R) -> (res: Option<ri8>)
    requires rhs.rinto_req(),
    ensures res.is_some() <==> in_Hour(x.val + rhs.rinto_spec().val), res.is_some() ==> res.unwrap().val == x.val + rhs.rinto_spec().val
{ unimplemented!() }
#[verifier::external_body]
pub fn verif_checked_sub_Hour<R: RInto<ri8>>(x: ri8, rhs: R) -> (res: Option<ri8>)
    requires rhs.rinto_req(),
    ensures res.is_some() <==> in_Hour(x.val - rhs.rinto_spec().val), res.is_some() ==> res.unwrap().val == x.val - rhs.rinto_spec().val
{ unimplemented!() }
#[verifier::external_body]
pub fn verif_checked_mul_Hour<R: RInto<ri8>>(x: ri8, rhs: R) -> (res: Option<ri8>)
    requires rhs.rinto_req(),
    ensures res.is_some() <==> in_Hour(x.val * rhs.rinto_spec().val), res.is_some() ==> res.unwrap().val == x.val * rhs.rinto_spec().val
{ unimplemented!() }
pub type Minute = ri8;
pub open spec fn Minute_MIN() -> int { 0 }
pub open spec fn Minute_MAX() -> int { 59 }
pub open spec fn in_Minute(v: int) -> bool { 0 <= v <= 59 }
#[verifier::external_body]
pub fn verif_try_rfrom_Minute_8(r: ri8) -> (res: Result<ri8, Error>)
    ensures res.is_ok() <==> in_Minute(r.val as int), res.is_ok() ==> res.unwrap().val == r.val
{ unimplemented!() }
#[verifier::external_body]
pub fn verif_try_rfrom_Minute_16(r: ri16) -> (res: Result<ri8, Error>)
    ensures res.is_ok() <==> in_Minute(r.val as int), res.is_ok() ==> res.unwrap().val == r.val
{ unimplemented!() }
#[verifier::external_body]
pub fn verif_try_rfrom_Minute_32(r: ri32) -> (res: Result<ri8, Error>)
    ensures res.is_ok() <==> in_Minute(r.val as int), res.is_ok() ==> res.unwrap().val == r.val
{ unimplemented!() }
#[verifier::external_body]
pub fn verif_try_rfrom_Minute_64(r: ri64) -> (res: Result<ri8, Error>)
    ensures res.is_ok() <==> in_Minute(r.val as int), res.is_ok() ==> res.unwrap().val == r.val
{ unimplemented!() }
#[verifier::external_body]
pub fn verif_try_rfrom_Minute_128(r: ri128) -> (res: Result<ri8, Error>)
    ensures res.is_ok() <==> in_Minute(r.val as int), res.is_ok() ==> res.unwrap().val == r.val
{ unimplemented!() }
#[verifier::external_body]
pub fn verif_try_new_Minute(v: i64) -> (res: Result<ri8, Error>)
    ensures res.is_ok() <==> in_Minute(v as int), res.is_ok() ==> res.unwrap().val == v
{ unimplemented!() }
#[verifier::external_body]
pub fn verif_try_new128_Minute(v: i128) -> (res: Result<ri8, Error>)
    ensures res.is_ok() <==> in_Minute(v as int), res.is_ok() ==> res.unwrap().val == v
{ unimplemented!() }
// `Minute::MIN` / `Minute::MAX` (associated consts of type i128)
pub fn verif_MIN_Minute() -> (r: i128) ensures r == Minute_MIN() { 0 }
pub fn verif_MAX_Minute() -> (r: i128) ensures r == Minute_MAX() { 59 }
// `x.try_checked_mul("what", rhs)` with x: Minute -- Ok iff the exact product lies within Minute::MIN..=MAX
#[verifier::external_body]
pub fn verif_try_checked_mul_Minute<R: RInto<ri8>>(x: ri8, rhs: R) -> (res: Result<ri8, Error>)
    requires rhs.rinto_req(),
    ensures res.is_ok() <==> in_Minute(x.val * rhs.rinto_spec().val), res.is_ok() ==> res.unwrap().val == x.val * rhs.rinto_spec().val
{ unimplemented!() }
// `x.try_checked_add/sub("what", rhs)` and `x.checked_add/sub/mul(rhs)` with x: Minute -- fail iff the exact result leaves Minute::MIN..=MAX
#[verifier::external_body]
pub fn verif_try_checked_add_Minute<R: RInto<ri8>>(x: ri8, rhs: R) -> (res: Result<ri8, Error>)
    requires rhs.rinto_req(),
    ensures res.is_ok() <==> in_Minute(x.val + rhs.rinto_spec().val), res.is_ok() ==> res.unwrap().val == x.val + rhs.rinto_spec().val
{ unimplemented!() }
#[verifier::external_body]
pub fn verif_try_checked_sub_Minute<R: RInto<ri8>>(x: ri8, rhs: R) -> (res: Result<ri8, Error>)
    requires rhs.rinto_req(),
    ensures res.is_ok() <==> in_Minute(x.val - rhs.rinto_spec().val), res.is_ok() ==> res.unwrap().val == x.val - rhs.rinto_spec().val
{ unimplemented!() }
#[verifier::external_body]
pub fn verif_checked_add_Minute<R: RInto<ri8>>(x: ri8, rhs: R) -> (res: Option<ri8>)
    requires rhs.rinto_req(),
    ensures res.is_some() <==> in_Minute(x.val + rhs.rinto_spec().val), res.is_some() ==> res.unwrap().val == x.val + rhs.rinto_spec().val
{ unimplemented!() }
#[verifier::external_body]
pub fn verif_checked_sub_Minute<R: RInto<ri8>>(x: ri8, rhs: R) -> (res: Option<ri8>)
    requires rhs.rinto_req(),
    ensures res.is_some() <==> in_Minute(x.val - rhs.rinto_spec().val), res.is_some() ==> res.unwrap().val == x.val - rhs.rinto_spec().val
{ unimplemented!() }
#[verifier::external_body]
pub fn verif_checked_mul_Minute<R: RInto<ri8>>(x: ri8, rhs: R) -> (res: Option<ri8>)
    requires rhs.rinto_req(),
    ensures res.is_some() <==> in_Minute(x.val * rhs.rinto_spec().val), res.is_some() ==> res.unwrap().val == x.val * rhs.rinto_spec().val
{ unimplemented!() }
pub type Second = ri8;
pub open spec fn Second_MIN() -> int { 0 }
pub open spec fn Second_MAX() -> int { 59 }
pub open spec fn in_Second(v: int) -> bool { 0 <= v <= 59 }
#[verifier::external_body]
pub fn verif_try_rfrom_Second_8(r: ri8) -> (res: Result<ri8, Error>)
    ensures res.is_ok() <==> in_Second(r.val as int), res.is_ok() ==> res.unwrap().val == r.val
{ unimplemented!() }
#[verifier::external_body]
pub fn verif_try_rfrom_Second_16(r: ri16) -> (res: Result<ri8, Error>)
    ensures res.is_ok() <==> in_Second(r.val as int), res.is_ok() ==> res.unwrap().val == r.val
{ unimplemented!() }
#[verifier::external_body]
pub fn verif_try_rfrom_Second_32(r: ri32) -> (res: Result<ri8, Error>)
    ensures res.is_ok() <==> in_Second(r.val as int), res.is_ok() ==> res.unwrap().val == r.val
{ unimplemented!() }
#[verifier::external_body]
pub fn verif_try_rfrom_Second_64(r: ri64) -> (res: Result<ri8, Error>)
    ensures res.is_ok() <==> in_Second(r.val as int), res.is_ok() ==> res.unwrap().val == r.val
{ unimplemented!() }
#[verifier::external_body]
pub fn verif_try_rfrom_Second_128(r: ri128) -> (res: Result<ri8, Error>)
    ensures res.is_ok() <==> in_Second(r.val as int), res.is_ok() ==> res.unwrap().val == r.val
{ unimplemented!() }
#[verifier::external_body]
pub fn verif_try_new_Second(v: i64) -> (res: Result<ri8, Error>)
    ensures res.is_ok() <==> in_Second(v as int), res.is_ok() ==> res.unwrap().val == v
{ unimplemented!() }
#[verifier::external_body]
pub fn verif_try_new128_Second(v: i128) -> (res: Result<ri8, Error>)
    ensures res.is_ok() <==> in_Second(v as int), res.is_ok() ==> res.unwrap().val == v
{ unimplemented!() }
// `Second::MIN` / `Second::MAX` (associated consts of type i128)
pub fn verif_MIN_Second() -> (r: i128) ensures r == Second_MIN() { 0 }
pub fn verif_MAX_Second() -> (r: i128) ensures r == Second_MAX() { 59 }
// `x.try_checked_mul("what", rhs)` with x: Second -- Ok iff the exact product lies within Second::MIN..=MAX
#[verifier::external_body]
pub fn verif_try_checked_mul_Second<R: RInto<ri8>>(x: ri8, rhs: R) -> (res: Result<ri8, Error>)
    requires rhs.rinto_req(),
    ensures res.is_ok() <==> in_Second(x.val * rhs.rinto_spec().val), res.is_ok() ==> res.unwrap().val == x.val * rhs.rinto_spec().val
{ unimplemented!() }
// `x.try_checked_add/sub("what", rhs)` and `x.checked_add/sub/mul(rhs)` with x: Second -- fail iff the exact result leaves Second::MIN..=MAX
#[verifier::external_body]
pub fn verif_try_checked_add_Second<R: RInto<ri8>>(x: ri8, rhs: R) -> (res: Result<ri8, Error>)
    requires rhs.rinto_req(),
    ensures res.is_ok() <==> in_Second(x.val + rhs.rinto_spec().val), res.is_ok() ==> res.unwrap().val == x.val + rhs.rinto_spec().val
{ unimplemented!() }
#[verifier::external_body]
pub fn verif_try_checked_sub_Second<R: RInto<ri8>>(x: ri8, rhs: R) -> (res: Result<ri8, Error>)
    requires rhs.rinto_req(),
    ensures res.is_ok() <==> in_Second(x.val - rhs.rinto_spec().val), res.is_ok() ==> res.unwrap().val == x.val - rhs.rinto_spec().val
{ unimplemented!() }
#[verifier::external_body]
pub fn verif_checked_add_Second<R: RInto<ri8>>(x: ri8, rhs: R) -> (res: Option<ri8>)
    requires rhs.rinto_req(),
    ensures res.is_some() <==> in_Second(x.val + rhs.rinto_spec().val), res.is_some() ==> res.unwrap().val == x.val + rhs.rinto_spec().val
{ unimplemented!() }
#[verifier::external_body]
pub fn verif_checked_sub_Second<R: RInto<ri8>>(x: ri8, rhs: R) -> (res: Option<ri8>)
    requires rhs.rinto_req(),
    ensures res.is_some() <==> in_Second(x.val - rhs.rinto_spec().val), res.is_some() ==> res.unwrap().val == x.val - rhs.rinto_spec().val
{ unimplemented!() }
#[verifier::external_body]
pub fn verif_checked_mul_Second<R: RInto<ri8>>(x: ri8, rhs: R) -> (res: Option<ri8>)
    requires rhs.rinto_req(),
    ensures res.is_some() <==> in_Second(x.val * rhs.rinto_spec().val), res.is_some() ==> res.unwrap().val == x.val * rhs.rinto_spec().val
{ unimplemented!() }
pub type SubsecNanosecond = ri32;
pub open spec fn SubsecNanosecond_MIN() -> int { 0 }
pub open spec fn SubsecNanosecond_MAX() -> int { 999999999 }
pub open spec fn in_SubsecNanosecond(v: int) -> bool { 0 <= v <= 999999999 }
#[verifier::external_body]
pub fn verif_try_rfrom_SubsecNanosecond_8(r: ri8) -> (res: Result<ri32, Error>)
    ensures res.is_ok() <==> in_SubsecNanosecond(r.val as int), res.is_ok() ==> res.unwrap().val == r.val
{ unimplemented!() }
#[verifier::external_body]
pub fn verif_try_rfrom_SubsecNanosecond_16(r: ri16) -> (res: Result<ri32, Error>)
    ensures res.is_ok() <==> in_SubsecNanosecond(r.val as int), res.is_ok() ==> res.unwrap().val == r.val
{ unimplemented!() }
#[verifier::external_body]
pub fn verif_try_rfrom_SubsecNanosecond_32(r: ri32) -> (res: Result<ri32, Error>)
    ensures res.is_ok() <==> in_SubsecNanosecond(r.val as int), res.is_ok() ==> res.unwrap().val == r.val
{ unimplemented!() }
#[verifier::external_body]
pub fn verif_try_rfrom_SubsecNanosecond_64(r: ri64) -> (res: Result<ri32, Error>)
    ensures res.is_ok() <==> in_SubsecNanosecond(r.val as int), res.is_ok() ==> res.unwrap().val == r.val
{ unimplemented!() }
#[verifier::external_body]
pub fn verif_try_rfrom_SubsecNanosecond_128(r: ri128) -> (res: Result<ri32, Error>)
    ensures res.is_ok() <==> in_SubsecNanosecond(r.val as int), res.is_ok() ==> res.unwrap().val == r.val
{ unimplemented!() }
#[verifier::external_body]
pub fn verif_try_new_SubsecNanosecond(v: i64) -> (res: Result<ri32, Error>)
    ensures res.is_ok() <==> in_SubsecNanosecond(v as int), res.is_ok() ==> res.unwrap().val == v
{ unimplemented!() }
#[verifier::external_body]
pub fn verif_try_new128_SubsecNanosecond(v: i128) -> (res: Result<ri32, Error>)
    ensures res.is_ok() <==> in_SubsecNanosecond(v as int), res.is_ok() ==> res.unwrap().val == v
{ unimplemented!() }
// `SubsecNanosecond::MIN` / `SubsecNanosecond::MAX` (associated consts of type i128)
pub fn verif_MIN_SubsecNanosecond() -> (r: i128) ensures r == SubsecNanosecond_MIN() { 0 }
pub fn verif_MAX_SubsecNanosecond() -> (r: i128) ensures r == SubsecNanosecond_MAX() { 999999999 }
// `x.try_checked_mul("what", rhs)` with x: SubsecNanosecond -- Ok iff the exact product lies within SubsecNanosecond::MIN..=MAX
#[verifier::external_body]
pub fn verif_try_checked_mul_SubsecNanosecond<R: RInto<ri32>>(x: ri32, rhs: R) -> (res: Result<ri32, Error>)
    requires rhs.rinto_req(),
    ensures res.is_ok() <==> in_SubsecNanosecond(x.val * rhs.rinto_spec().val), res.is_ok() ==> res.unwrap().val == x.val * rhs.rinto_spec().val
{ unimplemented!() }
// `x.try_checked_add/sub("what", rhs)` and `x.checked_add/sub/mul(rhs)` with x: SubsecNanosecond -- fail iff the exact result leaves SubsecNanosecond::MIN..=MAX
#[verifier::external_body]
pub fn verif_try_checked_add_SubsecNanosecond<R: RInto<ri32>>(x: ri32, rhs: R) -> (res: Result<ri32, Error>)
    requires rhs.rinto_req(),
    ensures res.is_ok() <==> in_SubsecNanosecond(x.val + rhs.rinto_spec().val), res.is_ok() ==> res.unwrap().val == x.val + rhs.rinto_spec().val
{ unimplemented!() }
#[verifier::external_body]
pub fn verif_try_checked_sub_SubsecNanosecond<R: RInto<ri32>>(x: ri32, rhs: R) -> (res: Result<ri32, Error>)
    requires rhs.rinto_req(),
    ensures res.is_ok() <==> in_SubsecNanosecond(x.val - rhs.rinto_spec().val), res.is_ok() ==> res.unwrap().val == x.val - rhs.rinto_spec().val
{ unimplemented!() }
#[verifier::external_body]
pub fn verif_checked_add_SubsecNanosecond<R: RInto<ri32>>(x: ri32, rhs: R) -> (res: Option<ri32>)
    requires rhs.rinto_req(),
    ensures res.is_some() <==> in_SubsecNanosecond(x.val + rhs.rinto_spec().val), res.is_some() ==> res.unwrap().val == x.val + rhs.rinto_spec().val
{ unimplemented!() }
#[verifier::external_body]
pub fn verif_checked_sub_SubsecNanosecond<R: RInto<ri32>>(x: ri32, rhs: R) -> (res: Option<ri32>)
    requires rhs.rinto_req(),
    ensures res.is_some() <==> in_SubsecNanosecond(x.val - rhs.rinto_spec().val), res.is_some() ==> res.unwrap().val == x.val - rhs.rinto_spec().val
{ unimplemented!() }
#[verifier::external_body]
pub fn verif_checked_mul_SubsecNanosecond<R: RInto<ri32>>(x: ri32, rhs: R) -> (res: Option<ri32>)
    requires rhs.rinto_req(),
    ensures res.is_some() <==> in_SubsecNanosecond(x.val * rhs.rinto_spec().val), res.is_some() ==> res.unwrap().val == x.val * rhs.rinto_spec().val
{ unimplemented!() }
pub type CivilDayNanosecond = ri64;
pub open spec fn CivilDayNanosecond_MIN() -> int { 0 }
pub open spec fn CivilDayNanosecond_MAX() -> int { 86399999999999 }
pub open spec fn in_CivilDayNanosecond(v: int) -> bool { 0 <= v <= 86399999999999 }
#[verifier::external_body]
pub fn verif_try_rfrom_CivilDayNanosecond_8(r: ri8) -> (res: Result<ri64, Error>)
    ensures res.is_ok() <==> in_CivilDayNanosecond(r.val as int), res.is_ok() ==> res.unwrap().val == r.val
{ unimplemented!() }
#[verifier::external_body]
pub fn verif_try_rfrom_CivilDayNanosecond_16(r: ri16) -> (res: Result<ri64, Error>)
    ensures res.is_ok() <==> in_CivilDayNanosecond(r.val as int), res.is_ok() ==> res.unwrap().val == r.val
{ unimplemented!() }
#[verifier::external_body]
pub fn verif_try_rfrom_CivilDayNanosecond_32(r: ri32) -> (res: Result<ri64, Error>)
    ensures res.is_ok() <==> in_CivilDayNanosecond(r.val as int), res.is_ok() ==> res.unwrap().val == r.val
{ unimplemented!() }
#[verifier::external_body]
pub fn verif_try_rfrom_CivilDayNanosecond_64(r: ri64) -> (res: Result<ri64, Error>)
    ensures res.is_ok() <==> in_CivilDayNanosecond(r.val as int), res.is_ok() ==> res.unwrap().val == r.val
{ unimplemented!() }
#[verifier::external_body]
pub fn verif_try_rfrom_CivilDayNanosecond_128(r: ri128) -> (res: Result<ri64, Error>)
    ensures res.is_ok() <==> in_CivilDayNanosecond(r.val as int), res.is_ok() ==> res.unwrap().val == r.val
{ unimplemented!() }
#[verifier::external_body]
pub fn verif_try_new_CivilDayNanosecond(v: i64) -> (res: Result<ri64, Error>)
    ensures res.is_ok() <==> in_CivilDayNanosecond(v as int), res.is_ok() ==> res.unwrap().val == v
{ unimplemented!() }
#[verifier::external_body]
pub fn verif_try_new128_CivilDayNanosecond(v: i128) -> (res: Result<ri64, Error>)
    ensures res.is_ok() <==> in_CivilDayNanosecond(v as int), res.is_ok() ==> res.unwrap().val == v
{ unimplemented!() }
// `CivilDayNanosecond::MIN` / `CivilDayNanosecond::MAX` (associated consts of type i128)
pub fn verif_MIN_CivilDayNanosecond() -> (r: i128) ensures r == CivilDayNanosecond_MIN() { 0 }
pub fn verif_MAX_CivilDayNanosecond() -> (r: i128) ensures r == CivilDayNanosecond_MAX() { 86399999999999 }
// `x.try_checked_mul("what", rhs)` with x: CivilDayNanosecond -- Ok iff the exact product lies within CivilDayNanosecond::MIN..=MAX
#[verifier::external_body]
pub fn verif_try_checked_mul_CivilDayNanosecond<R: RInto<ri64>>(x: ri64, rhs: R) -> (res: Result<ri64, Error>)
    requires rhs.rinto_req(),
    ensures res.is_ok() <==> in_CivilDayNanosecond(x.val * rhs.rinto_spec().val), res.is_ok() ==> res.unwrap().val == x.val * rhs.rinto_spec().val
{ unimplemented!() }
// `x.try_checked_add/sub("what", rhs)` and `x.checked_add/sub/mul(rhs)` with x: CivilDayNanosecond -- fail iff the exact result leaves CivilDayNanosecond::MIN..=MAX
#[verifier::external_body]
pub fn verif_try_checked_add_CivilDayNanosecond<R: RInto<ri64>>(x: ri64, rhs: R) -> (res: Result<ri64, Error>)
    requires rhs.rinto_req(),
    ensures res.is_ok() <==> in_CivilDayNanosecond(x.val + rhs.rinto_spec().val), res.is_ok() ==> res.unwrap().val == x.val + rhs.rinto_spec().val
{ unimplemented!() }
#[verifier::external_body]
pub fn verif_try_checked_sub_CivilDayNanosecond<R: RInto<ri64>>(x: ri64, rhs: R) -> (res: Result<ri64, Error>)
    requires rhs.rinto_req(),
    ensures res.is_ok() <==> in_CivilDayNanosecond(x.val - rhs.rinto_spec().val), res.is_ok() ==> res.unwrap().val == x.val - rhs.rinto_spec().val
{ unimplemented!() }
#[verifier::external_body]
pub fn verif_checked_add_CivilDayNanosecond<R: RInto<ri64>>(x: ri64, rhs: R) -> (res: Option<ri64>)
    requires rhs.rinto_req(),
    ensures res.is_some() <==> in_CivilDayNanosecond(x.val + rhs.rinto_spec().val), res.is_some() ==> res.unwrap().val == x.val + rhs.rinto_spec().val
{ unimplemented!() }
#[verifier::external_body]
pub fn verif_checked_sub_CivilDayNanosecond<R: RInto<ri64>>(x: ri64, rhs: R) -> (res: Option<ri64>)
    requires rhs.rinto_req(),
    ensures res.is_some() <==> in_CivilDayNanosecond(x.val - rhs.rinto_spec().val), res.is_some() ==> res.unwrap().val == x.val - rhs.rinto_spec().val
{ unimplemented!() }
#[verifier::external_body]
pub fn verif_checked_mul_CivilDayNanosecond<R: RInto<ri64>>(x: ri64, rhs: R) -> (res: Option<ri64>)
    requires rhs.rinto_req(),
    ensures res.is_some() <==> in_CivilDayNanosecond(x.val * rhs.rinto_spec().val), res.is_some() ==> res.unwrap().val == x.val * rhs.rinto_spec().val
{ unimplemented!() }
pub type CivilDaySecond = ri32;
pub open spec fn CivilDaySecond_MIN() -> int { 0 }
pub open spec fn CivilDaySecond_MAX() -> int { 86399 }
pub open spec fn in_CivilDaySecond(v: int) -> bool { 0 <= v <= 86399 }
#[verifier::external_body]
pub fn verif_try_rfrom_CivilDaySecond_8(r: ri8) -> (res: Result<ri32, Error>)
    ensures res.is_ok() <==> in_CivilDaySecond(r.val as int), res.is_ok() ==> res.unwrap().val == r.val
{ unimplemented!() }
#[verifier::external_body]
pub fn verif_try_rfrom_CivilDaySecond_16(r: ri16) -> (res: Result<ri32, Error>)
    ensures res.is_ok() <==> in_CivilDaySecond(r.val as int), res.is_ok() ==> res.unwrap().val == r.val
{ unimplemented!() }
#[verifier::external_body]
pub fn verif_try_rfrom_CivilDaySecond_32(r: ri32) -> (res: Result<ri32, Error>)
    ensures res.is_ok() <==> in_CivilDaySecond(r.val as int), res.is_ok() ==> res.unwrap().val == r.val
{ unimplemented!() }
#[verifier::external_body]
pub fn verif_try_rfrom_CivilDaySecond_64(r: ri64) -> (res: Result<ri32, Error>)
    ensures res.is_ok() <==> in_CivilDaySecond(r.val as int), res.is_ok() ==> res.unwrap().val == r.val
{ unimplemented!() }
#[verifier::external_body]
pub fn verif_try_rfrom_CivilDaySecond_128(r: ri128) -> (res: Result<ri32, Error>)
    ensures res.is_ok() <==> in_CivilDaySecond(r.val as int), res.is_ok() ==> res.unwrap().val == r.val
{ unimplemented!() }
#[verifier::external_body]
pub fn verif_try_new_CivilDaySecond(v: i64) -> (res: Result<ri32, Error>)
    ensures res.is_ok() <==> in_CivilDaySecond(v as int), res.is_ok() ==> res.unwrap().val == v
{ unimplemented!() }
#[verifier::external_body]
pub fn verif_try_new128_CivilDaySecond(v: i128) -> (res: Result<ri32, Error>)
    ensures res.is_ok() <==> in_CivilDaySecond(v as int), res.is_ok() ==> res.unwrap().val == v
{ unimplemented!() }
// `CivilDaySecond::MIN` / `CivilDaySecond::MAX` (associated consts of type i128)
pub fn verif_MIN_CivilDaySecond() -> (r: i128) ensures r == CivilDaySecond_MIN() { 0 }
pub fn verif_MAX_CivilDaySecond() -> (r: i128) ensures r == CivilDaySecond_MAX() { 86399 }
// `x.try_checked_mul("what", rhs)` with x: CivilDaySecond -- Ok iff the exact product lies within CivilDaySecond::MIN..=MAX
#[verifier::external_body]
pub fn verif_try_checked_mul_CivilDaySecond<R: RInto<ri32>>(x: ri32, rhs: R) -> (res: Result<ri32, Error>)
    requires rhs.rinto_req(),
    ensures res.is_ok() <==> in_CivilDaySecond(x.val * rhs.rinto_spec().val), res.is_ok() ==> res.unwrap().val == x.val * rhs.rinto_spec().val
{ unimplemented!() }
// `x.try_checked_add/sub("what", rhs)` and `x.checked_add/sub/mul(rhs)` with x: CivilDaySecond -- fail iff the exact result leaves CivilDaySecond::MIN..=MAX
#[verifier::external_body]
pub fn verif_try_checked_add_CivilDaySecond<R: RInto<ri32>>(x: ri32, rhs: R) -> (res: Result<ri32, Error>)
    requires rhs.rinto_req(),
    ensures res.is_ok() <==> in_CivilDaySecond(x.val + rhs.rinto_spec().val), res.is_ok() ==> res.unwrap().val == x.val + rhs.rinto_spec().val
{ unimplemented!() }
#[verifier::external_body]
pub fn verif_try_checked_sub_CivilDaySecond<R: RInto<ri32>>(x: ri32, rhs: R) -> (res: Result<ri32, Error>)
    requires rhs.rinto_req(),
    ensures res.is_ok() <==> in_CivilDaySecond(x.val - rhs.rinto_spec().val), res.is_ok() ==> res.unwrap().val == x.val - rhs.rinto_spec().val
{ unimplemented!() }
#[verifier::external_body]
pub fn verif_checked_add_CivilDaySecond<R: RInto<ri32>>(x: ri32, rhs: R) -> (res: Option<ri32>)
    requires rhs.rinto_req(),
    ensures res.is_some() <==> in_CivilDaySecond(x.val + rhs.rinto_spec().val), res.is_some() ==> res.unwrap().val == x.val + rhs.rinto_spec().val
{ unimplemented!() }
#[verifier::external_body]
pub fn verif_checked_sub_CivilDaySecond<R: RInto<ri32>>(x: ri32, rhs: R) -> (res: Option<ri32>)
    requires rhs.rinto_req(),
    ensures res.is_some() <==> in_CivilDaySecond(x.val - rhs.rinto_spec().val), res.is_some() ==> res.unwrap().val == x.val - rhs.rinto_spec().val
{ unimplemented!() }
#[verifier::external_body]
pub fn verif_checked_mul_CivilDaySecond<R: RInto<ri32>>(x: ri32, rhs: R) -> (res: Option<ri32>)
    requires rhs.rinto_req(),
    ensures res.is_some() <==> in_CivilDaySecond(x.val * rhs.rinto_spec().val), res.is_some() ==> res.unwrap().val == x.val * rhs.rinto_spec().val
{ unimplemented!() }
pub type UnixEpochDay = ri32;
pub open spec fn UnixEpochDay_MIN() -> int { -4371587 }
pub open spec fn UnixEpochDay_MAX() -> int { 2932896 }
pub open spec fn in_UnixEpochDay(v: int) -> bool { -4371587 <= v <= 2932896 }
#[verifier::external_body]
pub fn verif_try_rfrom_UnixEpochDay_8(r: ri8) -> (res: Result<ri32, Error>)
    ensures res.is_ok() <==> in_UnixEpochDay(r.val as int), res.is_ok() ==> res.unwrap().val == r.val
{ unimplemented!() }
#[verifier::external_body]
pub fn verif_try_rfrom_UnixEpochDay_16(r: ri16) -> (res: Result<ri32, Error>)
    ensures res.is_ok() <==> in_UnixEpochDay(r.val as int), res.is_ok() ==> res.unwrap().val == r.val
{ unimplemented!() }
#[verifier::external_body]
pub fn verif_try_rfrom_UnixEpochDay_32(r: ri32) -> (res: Result<ri32, Error>)
    ensures res.is_ok() <==> in_UnixEpochDay(r.val as int), res.is_ok() ==> res.unwrap().val == r.val
{ unimplemented!() }
#[verifier::external_body]
pub fn verif_try_rfrom_UnixEpochDay_64(r: ri64) -> (res: Result<ri32, Error>)
    ensures res.is_ok() <==> in_UnixEpochDay(r.val as int), res.is_ok() ==> res.unwrap().val == r.val
{ unimplemented!() }
#[verifier::external_body]
pub fn verif_try_rfrom_UnixEpochDay_128(r: ri128) -> (res: Result<ri32, Error>)
    ensures res.is_ok() <==> in_UnixEpochDay(r.val as int), res.is_ok() ==> res.unwrap().val == r.val
{ unimplemented!() }
#[verifier::external_body]
pub fn verif_try_new_UnixEpochDay(v: i64) -> (res: Result<ri32, Error>)
    ensures res.is_ok() <==> in_UnixEpochDay(v as int), res.is_ok() ==> res.unwrap().val == v
{ unimplemented!() }
#[verifier::external_body]
pub fn verif_try_new128_UnixEpochDay(v: i128) -> (res: Result<ri32, Error>)
    ensures res.is_ok() <==> in_UnixEpochDay(v as int), res.is_ok() ==> res.unwrap().val == v
{ unimplemented!() }
// `UnixEpochDay::MIN` / `UnixEpochDay::MAX` (associated consts of type i128)
pub fn verif_MIN_UnixEpochDay() -> (r: i128) ensures r == UnixEpochDay_MIN() { -4371587 }
pub fn verif_MAX_UnixEpochDay() -> (r: i128) ensures r == UnixEpochDay_MAX() { 2932896 }
// `x.try_checked_mul("what", rhs)` with x: UnixEpochDay -- Ok iff the exact product lies within UnixEpochDay::MIN..=MAX
#[verifier::external_body]
pub fn verif_try_checked_mul_UnixEpochDay<R: RInto<ri32>>(x: ri32, rhs: R) -> (res: Result<ri32, Error>)
    requires rhs.rinto_req(),
    ensures res.is_ok() <==> in_UnixEpochDay(x.val * rhs.rinto_spec().val), res.is_ok() ==> res.unwrap().val == x.val * rhs.rinto_spec().val
{ unimplemented!() }
// `x.try_checked_add/sub("what", rhs)` and `x.checked_add/sub/mul(rhs)` with x: UnixEpochDay -- fail iff the exact result leaves UnixEpochDay::MIN..=MAX
#[verifier::external_body]
pub fn verif_try_checked_add_UnixEpochDay<R: RInto<ri32>>(x: ri32, rhs: R) -> (res: Result<ri32, Error>)
    requires rhs.rinto_req(),
    ensures res.is_ok() <==> in_UnixEpochDay(x.val + rhs.rinto_spec().val), res.is_ok() ==> res.unwrap().val == x.val + rhs.rinto_spec().val
{ unimplemented!() }
#[verifier::external_body]
pub fn verif_try_checked_sub_UnixEpochDay<R: RInto<ri32>>(x: ri32, rhs: R) -> (res: Result<ri32, Error>)
    requires rhs.rinto_req(),
    ensures res.is_ok() <==> in_UnixEpochDay(x.val - rhs.rinto_spec().val), res.is_ok() ==> res.unwrap().val == x.val - rhs.rinto_spec().val
{ unimplemented!() }
#[verifier::external_body]
pub fn verif_checked_add_UnixEpochDay<R: RInto<ri32>>(x: ri32, rhs: R) -> (res: Option<ri32>)
    requires rhs.rinto_req(),
    ensures res.is_some() <==> in_UnixEpochDay(x.val + rhs.rinto_spec().val), res.is_some() ==> res.unwrap().val == x.val + rhs.rinto_spec().val
{ unimplemented!() }
#[verifier::external_body]
pub fn verif_checked_sub_UnixEpochDay<R: RInto<ri32>>(x: ri32, rhs: R) -> (res: Option<ri32>)
    requires rhs.rinto_req(),
    ensures res.is_some() <==> in_UnixEpochDay(x.val - rhs.rinto_spec().val), res.is_some() ==> res.unwrap().val == x.val - rhs.rinto_spec().val
{ unimplemented!() }
#[verifier::external_body]
pub fn verif_checked_mul_UnixEpochDay<R: RInto<ri32>>(x: ri32, rhs: R) -> (res: Option<ri32>)
    requires rhs.rinto_req(),
    ensures res.is_some() <==> in_UnixEpochDay(x.val * rhs.rinto_spec().val), res.is_some() ==> res.unwrap().val == x.val * rhs.rinto_spec().val
{ unimplemented!() }
pub type UnixSeconds = ri64;
pub open spec fn UnixSeconds_MIN() -> int { -377705023201 }
pub open spec fn UnixSeconds_MAX() -> int { 253402207200 }
pub open spec fn in_UnixSeconds(v: int) -> bool { -377705023201 <= v <= 253402207200 }
#[verifier::external_body]
pub fn verif_try_rfrom_UnixSeconds_8(r: ri8) -> (res: Result<ri64, Error>)
    ensures res.is_ok() <==> in_UnixSeconds(r.val as int), res.is_ok() ==> res.unwrap().val == r.val
{ unimplemented!() }
#[verifier::external_body]
pub fn verif_try_rfrom_UnixSeconds_16(r: ri16) -> (res: Result<ri64, Error>)
    ensures res.is_ok() <==> in_UnixSeconds(r.val as int), res.is_ok() ==> res.unwrap().val == r.val
{ unimplemented!() }
#[verifier::external_body]
pub fn verif_try_rfrom_UnixSeconds_32(r: ri32) -> (res: Result<ri64, Error>)
    ensures res.is_ok() <==> in_UnixSeconds(r.val as int), res.is_ok() ==> res.unwrap().val == r.val
{ unimplemented!() }
#[verifier::external_body]
pub fn verif_try_rfrom_UnixSeconds_64(r: ri64) -> (res: Result<ri64, Error>)
    ensures res.is_ok() <==> in_UnixSeconds(r.val as int), res.is_ok() ==> res.unwrap().val == r.val
{ unimplemented!() }
#[verifier::external_body]
pub fn verif_try_rfrom_UnixSeconds_128(r: ri128) -> (res: Result<ri64, Error>)
    ensures res.is_ok() <==> in_UnixSeconds(r.val as int), res.is_ok() ==> res.unwrap().val == r.val
{ unimplemented!() }
#[verifier::external_body]
pub fn verif_try_new_UnixSeconds(v: i64) -> (res: Result<ri64, Error>)
    ensures res.is_ok() <==> in_UnixSeconds(v as int), res.is_ok() ==> res.unwrap().val == v
{ unimplemented!() }
#[verifier::external_body]
pub fn verif_try_new128_UnixSeconds(v: i128) -> (res: Result<ri64, Error>)
    ensures res.is_ok() <==> in_UnixSeconds(v as int), res.is_ok() ==> res.unwrap().val == v
{ unimplemented!() }
// `UnixSeconds::MIN` / `UnixSeconds::MAX` (associated consts of type i128)
pub fn verif_MIN_UnixSeconds() -> (r: i128) ensures r == UnixSeconds_MIN() { -377705023201 }
pub fn verif_MAX_UnixSeconds() -> (r: i128) ensures r == UnixSeconds_MAX() { 253402207200 }
// `x.try_checked_mul("what", rhs)` with x: UnixSeconds -- Ok iff the exact product lies within UnixSeconds::MIN..=MAX
#[verifier::external_body]
pub fn verif_try_checked_mul_UnixSeconds<R: RInto<ri64>>(x: ri64, rhs: R) -> (res: Result<ri64, Error>)
    requires rhs.rinto_req(),
    ensures res.is_ok() <==> in_UnixSeconds(x.val * rhs.rinto_spec().val), res.is_ok() ==> res.unwrap().val == x.val * rhs.rinto_spec().val
{ unimplemented!() }
// `x.try_checked_add/sub("what", rhs)` and `x.checked_add/sub/mul(rhs)` with x: UnixSeconds -- fail iff the exact result leaves UnixSeconds::MIN..=MAX
#[verifier::external_body]
pub fn verif_try_checked_add_UnixSeconds<R: RInto<ri64>>(x: ri64, rhs: R) -> (res: Result<ri64, Error>)
    requires rhs.rinto_req(),
    ensures res.is_ok() <==> in_UnixSeconds(x.val + rhs.rinto_spec().val), res.is_ok() ==> res.unwrap().val == x.val + rhs.rinto_spec().val
{ unimplemented!() }
#[verifier::external_body]
pub fn verif_try_checked_sub_UnixSeconds<R: RInto<ri64>>(x: ri64, rhs: R) -> (res: Result<ri64, Error>)
    requires rhs.rinto_req(),
    ensures res.is_ok() <==> in_UnixSeconds(x.val - rhs.rinto_spec().val), res.is_ok() ==> res.unwrap().val == x.val - rhs.rinto_spec().val
{ unimplemented!() }
#[verifier::external_body]
pub fn verif_checked_add_UnixSeconds<R: RInto<ri64>>(x: ri64, rhs: R) -> (res: Option<ri64>)
    requires rhs.rinto_req(),
    ensures res.is_some() <==> in_UnixSeconds(x.val + rhs.rinto_spec().val), res.is_some() ==> res.unwrap().val == x.val + rhs.rinto_spec().val
{ unimplemented!() }
#[verifier::external_body]
pub fn verif_checked_sub_UnixSeconds<R: RInto<ri64>>(x: ri64, rhs: R) -> (res: Option<ri64>)
    requires rhs.rinto_req(),
    ensures res.is_some() <==> in_UnixSeconds(x.val - rhs.rinto_spec().val), res.is_some() ==> res.unwrap().val == x.val - rhs.rinto_spec().val
{ unimplemented!() }
#[verifier::external_body]
pub fn verif_checked_mul_UnixSeconds<R: RInto<ri64>>(x: ri64, rhs: R) -> (res: Option<ri64>)
    requires rhs.rinto_req(),
    ensures res.is_some() <==> in_UnixSeconds(x.val * rhs.rinto_spec().val), res.is_some() ==> res.unwrap().val == x.val * rhs.rinto_spec().val
{ unimplemented!() }
pub type UnixNanoseconds = ri128;
pub open spec fn UnixNanoseconds_MIN() -> int { -377705023201000000000 }
pub open spec fn UnixNanoseconds_MAX() -> int { 253402207200999999999 }
pub open spec fn in_UnixNanoseconds(v: int) -> bool { -377705023201000000000 <= v <= 253402207200999999999 }
#[verifier::external_body]
pub fn verif_try_rfrom_UnixNanoseconds_8(r: ri8) -> (res: Result<ri128, Error>)
    ensures res.is_ok() <==> in_UnixNanoseconds(r.val as int), res.is_ok() ==> res.unwrap().val == r.val
{ unimplemented!() }
#[verifier::external_body]
pub fn verif_try_rfrom_UnixNanoseconds_16(r: ri16) -> (res: Result<ri128, Error>)
    ensures res.is_ok() <==> in_UnixNanoseconds(r.val as int), res.is_ok() ==> res.unwrap().val == r.val
{ unimplemented!() }
#[verifier::external_body]
pub fn verif_try_rfrom_UnixNanoseconds_32(r: ri32) -> (res: Result<ri128, Error>)
    ensures res.is_ok() <==> in_UnixNanoseconds(r.val as int), res.is_ok() ==> res.unwrap().val == r.val
{ unimplemented!() }
#[verifier::external_body]
pub fn verif_try_rfrom_UnixNanoseconds_64(r: ri64) -> (res: Result<ri128, Error>)
    ensures res.is_ok() <==> in_UnixNanoseconds(r.val as int), res.is_ok() ==> res.unwrap().val == r.val
{ unimplemented!() }
#[verifier::external_body]
pub fn verif_try_rfrom_UnixNanoseconds_128(r: ri128) -> (res: Result<ri128, Error>)
    ensures res.is_ok() <==> in_UnixNanoseconds(r.val as int), res.is_ok() ==> res.unwrap().val == r.val
{ unimplemented!() }
#[verifier::external_body]
pub fn verif_try_new_UnixNanoseconds(v: i64) -> (res: Result<ri128, Error>)
    ensures res.is_ok() <==> in_UnixNanoseconds(v as int), res.is_ok() ==> res.unwrap().val == v
{ unimplemented!() }
#[verifier::external_body]
pub fn verif_try_new128_UnixNanoseconds(v: i128) -> (res: Result<ri128, Error>)
    ensures res.is_ok() <==> in_UnixNanoseconds(v as int), res.is_ok() ==> res.unwrap().val == v
{ unimplemented!() }
// `UnixNanoseconds::MIN` / `UnixNanoseconds::MAX` (associated consts of type i128)
pub fn verif_MIN_UnixNanoseconds() -> (r: i128) ensures r == UnixNanoseconds_MIN() { -377705023201000000000 }
pub fn verif_MAX_UnixNanoseconds() -> (r: i128) ensures r == UnixNanoseconds_MAX() { 253402207200999999999 }
// `x.try_checked_mul("what", rhs)` with x: UnixNanoseconds -- Ok iff the exact product lies within UnixNanoseconds::MIN..=MAX
#[verifier::external_body]
pub fn verif_try_checked_mul_UnixNanoseconds<R: RInto<ri128>>(x: ri128, rhs: R) -> (res: Result<ri128, Error>)
    requires rhs.rinto_req(),
    ensures res.is_ok() <==> in_UnixNanoseconds(x.val * rhs.rinto_spec().val), res.is_ok() ==> res.unwrap().val == x.val * rhs.rinto_spec().val
{ unimplemented!() }
// `x.try_checked_add/sub("what", rhs)` and `x.checked_add/sub/mul(rhs)` with x: UnixNanoseconds -- fail iff the exact result leaves UnixNanoseconds::MIN..=MAX
#[verifier::external_body]
pub fn verif_try_checked_add_UnixNanoseconds<R: RInto<ri128>>(x: ri128, rhs: R) -> (res: Result<ri128, Error>)
    requires rhs.rinto_req(),
    ensures res.is_ok() <==> in_UnixNanoseconds(x.val + rhs.rinto_spec().val), res.is_ok() ==> res.unwrap().val == x.val + rhs.rinto_spec().val
{ unimplemented!() }
#[verifier::external_body]
pub fn verif_try_checked_sub_UnixNanoseconds<R: RInto<ri128>>(x: ri128, rhs: R) -> (res: Result<ri128, Error>)
    requires rhs.rinto_req(),
    ensures res.is_ok() <==> in_UnixNanoseconds(x.val - rhs.rinto_spec().val), res.is_ok() ==> res.unwrap().val == x.val - rhs.rinto_spec().val
{ unimplemented!() }
#[verifier::external_body]
pub fn verif_checked_add_UnixNanoseconds<R: RInto<ri128>>(x: ri128, rhs: R) -> (res: Option<ri128>)
    requires rhs.rinto_req(),
    ensures res.is_some() <==> in_UnixNanoseconds(x.val + rhs.rinto_spec().val), res.is_some() ==> res.unwrap().val == x.val + rhs.rinto_spec().val
{ unimplemented!() }
#[verifier::external_body]
pub fn verif_checked_sub_UnixNanoseconds<R: RInto<ri128>>(x: ri128, rhs: R) -> (res: Option<ri128>)
    requires rhs.rinto_req(),
    ensures res.is_some() <==> in_UnixNanoseconds(x.val - rhs.rinto_spec().val), res.is_some() ==> res.unwrap().val == x.val - rhs.rinto_spec().val
{ unimplemented!() }
#[verifier::external_body]
pub fn verif_checked_mul_UnixNanoseconds<R: RInto<ri128>>(x: ri128, rhs: R) -> (res: Option<ri128>)
    requires rhs.rinto_req(),
    ensures res.is_some() <==> in_UnixNanoseconds(x.val * rhs.rinto_spec().val), res.is_some() ==> res.unwrap().val == x.val * rhs.rinto_spec().val
{ unimplemented!() }
pub type SpanYears = ri16;
pub open spec fn SpanYears_MIN() -> int { -19998 }
pub open spec fn SpanYears_MAX() -> int { 19998 }
pub open spec fn in_SpanYears(v: int) -> bool { -19998 <= v <= 19998 }
#[verifier::external_body]
pub fn verif_try_rfrom_SpanYears_8(r: ri8) -> (res: Result<ri16, Error>)
    ensures res.is_ok() <==> in_SpanYears(r.val as int), res.is_ok() ==> res.unwrap().val == r.val
{ unimplemented!() }
#[verifier::external_body]
pub fn verif_try_rfrom_SpanYears_16(r: ri16) -> (res: Result<ri16, Error>)
    ensures res.is_ok() <==> in_SpanYears(r.val as int), res.is_ok() ==> res.unwrap().val == r.val
{ unimplemented!() }
#[verifier::external_body]
pub fn verif_try_rfrom_SpanYears_32(r: ri32) -> (res: Result<ri16, Error>)
    ensures res.is_ok() <==> in_SpanYears(r.val as int), res.is_ok() ==> res.unwrap().val == r.val
{ unimplemented!() }
#[verifier::external_body]
pub fn verif_try_rfrom_SpanYears_64(r: ri64) -> (res: Result<ri16, Error>)
    ensures res.is_ok() <==> in_SpanYears(r.val as int), res.is_ok() ==> res.unwrap().val == r.val
{ unimplemented!() }
#[verifier::external_body]
pub fn verif_try_rfrom_SpanYears_128(r: ri128) -> (res: Result<ri16, Error>)
    ensures res.is_ok() <==> in_SpanYears(r.val as int), res.is_ok() ==> res.unwrap().val == r.val
{ unimplemented!() }
#[verifier::external_body]
pub fn verif_try_new_SpanYears(v: i64) -> (res: Result<ri16, Error>)
    ensures res.is_ok() <==> in_SpanYears(v as int), res.is_ok() ==> res.unwrap().val == v
{ unimplemented!() }
#[verifier::external_body]
pub fn verif_try_new128_SpanYears(v: i128) -> (res: Result<ri16, Error>)
    ensures res.is_ok() <==> in_SpanYears(v as int), res.is_ok() ==> res.unwrap().val == v
{ unimplemented!() }
// `SpanYears::MIN` / `SpanYears::MAX` (associated consts of type i128)
pub fn verif_MIN_SpanYears() -> (r: i128) ensures r == SpanYears_MIN() { -19998 }
pub fn verif_MAX_SpanYears() -> (r: i128) ensures r == SpanYears_MAX() { 19998 }
// `x.try_checked_mul("what", rhs)` with x: SpanYears -- Ok iff the exact product lies within SpanYears::MIN..=MAX
#[verifier::external_body]
pub fn verif_try_checked_mul_SpanYears<R: RInto<ri16>>(x: ri16, rhs: R) -> (res: Result<ri16, Error>)
    requires rhs.rinto_req(),
    ensures res.is_ok() <==> in_SpanYears(x.val * rhs.rinto_spec().val), res.is_ok() ==> res.unwrap().val == x.val * rhs.rinto_spec().val
{ unimplemented!() }
// `x.try_checked_add/sub("what", rhs)` and `x.checked_add/sub/mul(rhs)` with x: SpanYears -- fail iff the exact result leaves SpanYears::MIN..=MAX
#[verifier::external_body]
pub fn verif_try_checked_add_SpanYears<R: RInto<ri16>>(x: ri16, rhs: R) -> (res: Result<ri16, Error>)
    requires rhs.rinto_req(),
    ensures res.is_ok() <==> in_SpanYears(x.val + rhs.rinto_spec().val), res.is_ok() ==> res.unwrap().val == x.val + rhs.rinto_spec().val
{ unimplemented!() }
#[verifier::external_body]
pub fn verif_try_checked_sub_SpanYears<R: RInto<ri16>>(x: ri16, rhs: R) -> (res: Result<ri16, Error>)
    requires rhs.rinto_req(),
    ensures res.is_ok() <==> in_SpanYears(x.val - rhs.rinto_spec().val), res.is_ok() ==> res.unwrap().val == x.val - rhs.rinto_spec().val
{ unimplemented!() }
#[verifier::external_body]
pub fn verif_checked_add_SpanYears<R: RInto<ri16>>(x: ri16, rhs: R) -> (res: Option<ri16>)
    requires rhs.rinto_req(),
    ensures res.is_some() <==> in_SpanYears(x.val + rhs.rinto_spec().val), res.is_some() ==> res.unwrap().val == x.val + rhs.rinto_spec().val
{ unimplemented!() }
#[verifier::external_body]
pub fn verif_checked_sub_SpanYears<R: RInto<ri16>>(x: ri16, rhs: R) -> (res: Option<ri16>)
    requires rhs.rinto_req(),
    ensures res.is_some() <==> in_SpanYears(x.val - rhs.rinto_spec().val), res.is_some() ==> res.unwrap().val == x.val - rhs.rinto_spec().val
{ unimplemented!() }
#[verifier::external_body]
pub fn verif_checked_mul_SpanYears<R: RInto<ri16>>(x: ri16, rhs: R) -> (res: Option<ri16>)
    requires rhs.rinto_req(),
    ensures res.is_some() <==> in_SpanYears(x.val * rhs.rinto_spec().val), res.is_some() ==> res.unwrap().val == x.val * rhs.rinto_spec().val
{ unimplemented!() }
pub type SpanMonths = ri32;
pub open spec fn SpanMonths_MIN() -> int { -239976 }
pub open spec fn SpanMonths_MAX() -> int { 239976 }
pub open spec fn in_SpanMonths(v: int) -> bool { -239976 <= v <= 239976 }
#[verifier::external_body]
pub fn verif_try_rfrom_SpanMonths_8(r: ri8) -> (res: Result<ri32, Error>)
    ensures res.is_ok() <==> in_SpanMonths(r.val as int), res.is_ok() ==> res.unwrap().val == r.val
{ unimplemented!() }
#[verifier::external_body]
pub fn verif_try_rfrom_SpanMonths_16(r: ri16) -> (res: Result<ri32, Error>)
    ensures res.is_ok() <==> in_SpanMonths(r.val as int), res.is_ok() ==> res.unwrap().val == r.val
{ unimplemented!() }
#[verifier::external_body]
pub fn verif_try_rfrom_SpanMonths_32(r: ri32) -> (res: Result<ri32, Error>)
    ensures res.is_ok() <==> in_SpanMonths(r.val as int), res.is_ok() ==> res.unwrap().val == r.val
{ unimplemented!() }
#[verifier::external_body]
pub fn verif_try_rfrom_SpanMonths_64(r: ri64) -> (res: Result<ri32, Error>)
    ensures res.is_ok() <==> in_SpanMonths(r.val as int), res.is_ok() ==> res.unwrap().val == r.val
{ unimplemented!() }
#[verifier::external_body]
pub fn verif_try_rfrom_SpanMonths_128(r: ri128) -> (res: Result<ri32, Error>)
    ensures res.is_ok() <==> in_SpanMonths(r.val as int), res.is_ok() ==> res.unwrap().val == r.val
{ unimplemented!() }
#[verifier::external_body]
pub fn verif_try_new_SpanMonths(v: i64) -> (res: Result<ri32, Error>)
    ensures res.is_ok() <==> in_SpanMonths(v as int), res.is_ok() ==> res.unwrap().val == v
{ unimplemented!() }
#[verifier::external_body]
pub fn verif_try_new128_SpanMonths(v: i128) -> (res: Result<ri32, Error>)
    ensures res.is_ok() <==> in_SpanMonths(v as int), res.is_ok() ==> res.unwrap().val == v
{ unimplemented!() }
// `SpanMonths::MIN` / `SpanMonths::MAX` (associated consts of type i128)
pub fn verif_MIN_SpanMonths() -> (r: i128) ensures r == SpanMonths_MIN() { -239976 }
pub fn verif_MAX_SpanMonths() -> (r: i128) ensures r == SpanMonths_MAX() { 239976 }
// `x.try_checked_mul("what", rhs)` with x: SpanMonths -- Ok iff the exact product lies within SpanMonths::MIN..=MAX
#[verifier::external_body]
pub fn verif_try_checked_mul_SpanMonths<R: RInto<ri32>>(x: ri32, rhs: R) -> (res: Result<ri32, Error>)
    requires rhs.rinto_req(),
    ensures res.is_ok() <==> in_SpanMonths(x.val * rhs.rinto_spec().val), res.is_ok() ==> res.unwrap().val == x.val * rhs.rinto_spec().val
{ unimplemented!() }
// `x.try_checked_add/sub("what", rhs)` and `x.checked_add/sub/mul(rhs)` with x: SpanMonths -- fail iff the exact result leaves SpanMonths::MIN..=MAX
#[verifier::external_body]
pub fn verif_try_checked_add_SpanMonths<R: RInto<ri32>>(x: ri32, rhs: R) -> (res: Result<ri32, Error>)
    requires rhs.rinto_req(),
    ensures res.is_ok() <==> in_SpanMonths(x.val + rhs.rinto_spec().val), res.is_ok() ==> res.unwrap().val == x.val + rhs.rinto_spec().val
{ unimplemented!() }
#[verifier::external_body]
pub fn verif_try_checked_sub_SpanMonths<R: RInto<ri32>>(x: ri32, rhs: R) -> (res: Result<ri32, Error>)
    requires rhs.rinto_req(),
    ensures res.is_ok() <==> in_SpanMonths(x.val - rhs.rinto_spec().val), res.is_ok() ==> res.unwrap().val == x.val - rhs.rinto_spec().val
{ unimplemented!() }
#[verifier::external_body]
pub fn verif_checked_add_SpanMonths<R: RInto<ri32>>(x: ri32, rhs: R) -> (res: Option<ri32>)
    requires rhs.rinto_req(),
    ensures res.is_some() <==> in_SpanMonths(x.val + rhs.rinto_spec().val), res.is_some() ==> res.unwrap().val == x.val + rhs.rinto_spec().val
{ unimplemented!() }
#[verifier::external_body]
pub fn verif_checked_sub_SpanMonths<R: RInto<ri32>>(x: ri32, rhs: R) -> (res: Option<ri32>)
    requires rhs.rinto_req(),
    ensures res.is_some() <==> in_SpanMonths(x.val - rhs.rinto_spec().val), res.is_some() ==> res.unwrap().val == x.val - rhs.rinto_spec().val
{ unimplemented!() }
#[verifier::external_body]
pub fn verif_checked_mul_SpanMonths<R: RInto<ri32>>(x: ri32, rhs: R) -> (res: Option<ri32>)
    requires rhs.rinto_req(),
    ensures res.is_some() <==> in_SpanMonths(x.val * rhs.rinto_spec().val), res.is_some() ==> res.unwrap().val == x.val * rhs.rinto_spec().val
{ unimplemented!() }
pub type SpanWeeks = ri32;
pub open spec fn SpanWeeks_MIN() -> int { -1043497 }
pub open spec fn SpanWeeks_MAX() -> int { 1043497 }
pub open spec fn in_SpanWeeks(v: int) -> bool { -1043497 <= v <= 1043497 }
#[verifier::external_body]
pub fn verif_try_rfrom_SpanWeeks_8(r: ri8) -> (res: Result<ri32, Error>)
    ensures res.is_ok() <==> in_SpanWeeks(r.val as int), res.is_ok() ==> res.unwrap().val == r.val
{ unimplemented!() }
#[verifier::external_body]
pub fn verif_try_rfrom_SpanWeeks_16(r: ri16) -> (res: Result<ri32, Error>)
    ensures res.is_ok() <==> in_SpanWeeks(r.val as int), res.is_ok() ==> res.unwrap().val == r.val
{ unimplemented!() }
#[verifier::external_body]
pub fn verif_try_rfrom_SpanWeeks_32(r: ri32) -> (res: Result<ri32, Error>)
    ensures res.is_ok() <==> in_SpanWeeks(r.val as int), res.is_ok() ==> res.unwrap().val == r.val
{ unimplemented!() }
#[verifier::external_body]
pub fn verif_try_rfrom_SpanWeeks_64(r: ri64) -> (res: Result<ri32, Error>)
    ensures res.is_ok() <==> in_SpanWeeks(r.val as int), res.is_ok() ==> res.unwrap().val == r.val
{ unimplemented!() }
#[verifier::external_body]
pub fn verif_try_rfrom_SpanWeeks_128(r: ri128) -> (res: Result<ri32, Error>)
    ensures res.is_ok() <==> in_SpanWeeks(r.val as int), res.is_ok() ==> res.unwrap().val == r.val
{ unimplemented!() }
#[verifier::external_body]
pub fn verif_try_new_SpanWeeks(v: i64) -> (res: Result<ri32, Error>)
    ensures res.is_ok() <==> in_SpanWeeks(v as int), res.is_ok() ==> res.unwrap().val == v
{ unimplemented!() }
#[verifier::external_body]
pub fn verif_try_new128_SpanWeeks(v: i128) -> (res: Result<ri32, Error>)
    ensures res.is_ok() <==> in_SpanWeeks(v as int), res.is_ok() ==> res.unwrap().val == v
{ unimplemented!() }
// `SpanWeeks::MIN` / `SpanWeeks::MAX` (associated consts of type i128)
pub fn verif_MIN_SpanWeeks() -> (r: i128) ensures r == SpanWeeks_MIN() { -1043497 }
pub fn verif_MAX_SpanWeeks() -> (r: i128) ensures r == SpanWeeks_MAX() { 1043497 }
// `x.try_checked_mul("what", rhs)` with x: SpanWeeks -- Ok iff the exact product lies within SpanWeeks::MIN..=MAX
#[verifier::external_body]
pub fn verif_try_checked_mul_SpanWeeks<R: RInto<ri32>>(x: ri32, rhs: R) -> (res: Result<ri32, Error>)
    requires rhs.rinto_req(),
    ensures res.is_ok() <==> in_SpanWeeks(x.val * rhs.rinto_spec().val), res.is_ok() ==> res.unwrap().val == x.val * rhs.rinto_spec().val
{ unimplemented!() }
// `x.try_checked_add/sub("what", rhs)` and `x.checked_add/sub/mul(rhs)` with x: SpanWeeks -- fail iff the exact result leaves SpanWeeks::MIN..=MAX
#[verifier::external_body]
pub fn verif_try_checked_add_SpanWeeks<R: RInto<ri32>>(x: ri32, rhs: R) -> (res: Result<ri32, Error>)
    requires rhs.rinto_req(),
    ensures res.is_ok() <==> in_SpanWeeks(x.val + rhs.rinto_spec().val), res.is_ok() ==> res.unwrap().val == x.val + rhs.rinto_spec().val
{ unimplemented!() }
#[verifier::external_body]
pub fn verif_try_checked_sub_SpanWeeks<R: RInto<ri32>>(x: ri32, rhs: R) -> (res: Result<ri32, Error>)
    requires rhs.rinto_req(),
    ensures res.is_ok() <==> in_SpanWeeks(x.val - rhs.rinto_spec().val), res.is_ok() ==> res.unwrap().val == x.val - rhs.rinto_spec().val
{ unimplemented!() }
#[verifier::external_body]
pub fn verif_checked_add_SpanWeeks<R: RInto<ri32>>(x: ri32, rhs: R) -> (res: Option<ri32>)
    requires rhs.rinto_req(),
    ensures res.is_some() <==> in_SpanWeeks(x.val + rhs.rinto_spec().val), res.is_some() ==> res.unwrap().val == x.val + rhs.rinto_spec().val
{ unimplemented!() }
#[verifier::external_body]
pub fn verif_checked_sub_SpanWeeks<R: RInto<ri32>>(x: ri32, rhs: R) -> (res: Option<ri32>)
    requires rhs.rinto_req(),
    ensures res.is_some() <==> in_SpanWeeks(x.val - rhs.rinto_spec().val), res.is_some() ==> res.unwrap().val == x.val - rhs.rinto_spec().val
{ unimplemented!() }
#[verifier::external_body]
pub fn verif_checked_mul_SpanWeeks<R: RInto<ri32>>(x: ri32, rhs: R) -> (res: Option<ri32>)
    requires rhs.rinto_req(),
    ensures res.is_some() <==> in_SpanWeeks(x.val * rhs.rinto_spec().val), res.is_some() ==> res.unwrap().val == x.val * rhs.rinto_spec().val
{ unimplemented!() }
pub type SpanDays = ri32;
pub open spec fn SpanDays_MIN() -> int { -7304484 }
pub open spec fn SpanDays_MAX() -> int { 7304484 }
pub open spec fn in_SpanDays(v: int) -> bool { -7304484 <= v <= 7304484 }
#[verifier::external_body]
pub fn verif_try_rfrom_SpanDays_8(r: ri8) -> (res: Result<ri32, Error>)
    ensures res.is_ok() <==> in_SpanDays(r.val as int), res.is_ok() ==> res.unwrap().val == r.val
{ unimplemented!() }
#[verifier::external_body]
pub fn verif_try_rfrom_SpanDays_16(r: ri16) -> (res: Result<ri32, Error>)
    ensures res.is_ok() <==> in_SpanDays(r.val as int), res.is_ok() ==> res.unwrap().val == r.val
{ unimplemented!() }
#[verifier::external_body]
pub fn verif_try_rfrom_SpanDays_32(r: ri32) -> (res: Result<ri32, Error>)
    ensures res.is_ok() <==> in_SpanDays(r.val as int), res.is_ok() ==> res.unwrap().val == r.val
{ unimplemented!() }
#[verifier::external_body]
pub fn verif_try_rfrom_SpanDays_64(r: ri64) -> (res: Result<ri32, Error>)
    ensures res.is_ok() <==> in_SpanDays(r.val as int), res.is_ok() ==> res.unwrap().val == r.val
{ unimplemented!() }
#[verifier::external_body]
pub fn verif_try_rfrom_SpanDays_128(r: ri128) -> (res: Result<ri32, Error>)
    ensures res.is_ok() <==> in_SpanDays(r.val as int), res.is_ok() ==> res.unwrap().val == r.val
{ unimplemented!() }
#[verifier::external_body]
pub fn verif_try_new_SpanDays(v: i64) -> (res: Result<ri32, Error>)
    ensures res.is_ok() <==> in_SpanDays(v as int), res.is_ok() ==> res.unwrap().val == v
{ unimplemented!() }
#[verifier::external_body]
pub fn verif_try_new128_SpanDays(v: i128) -> (res: Result<ri32, Error>)
    ensures res.is_ok() <==> in_SpanDays(v as int), res.is_ok() ==> res.unwrap().val == v
{ unimplemented!() }
// `SpanDays::MIN` / `SpanDays::MAX` (associated consts of type i128)
pub fn verif_MIN_SpanDays() -> (r: i128) ensures r == SpanDays_MIN() { -7304484 }
pub fn verif_MAX_SpanDays() -> (r: i128) ensures r == SpanDays_MAX() { 7304484 }
// `x.try_checked_mul("what", rhs)` with x: SpanDays -- Ok iff the exact product lies within SpanDays::MIN..=MAX
#[verifier::external_body]
pub fn verif_try_checked_mul_SpanDays<R: RInto<ri32>>(x: ri32, rhs: R) -> (res: Result<ri32, Error>)
    requires rhs.rinto_req(),
    ensures res.is_ok() <==> in_SpanDays(x.val * rhs.rinto_spec().val), res.is_ok() ==> res.unwrap().val == x.val * rhs.rinto_spec().val
{ unimplemented!() }
// `x.try_checked_add/sub("what", rhs)` and `x.checked_add/sub/mul(rhs)` with x: SpanDays -- fail iff the exact result leaves SpanDays::MIN..=MAX
#[verifier::external_body]
pub fn verif_try_checked_add_SpanDays<R: RInto<ri32>>(x: ri32, rhs: R) -> (res: Result<ri32, Error>)
    requires rhs.rinto_req(),
    ensures res.is_ok() <==> in_SpanDays(x.val + rhs.rinto_spec().val), res.is_ok() ==> res.unwrap().val == x.val + rhs.rinto_spec().val
{ unimplemented!() }
#[verifier::external_body]
pub fn verif_try_checked_sub_SpanDays<R: RInto<ri32>>(x: ri32, rhs: R) -> (res: Result<ri32, Error>)
    requires rhs.rinto_req(),
    ensures res.is_ok() <==> in_SpanDays(x.val - rhs.rinto_spec().val), res.is_ok() ==> res.unwrap().val == x.val - rhs.rinto_spec().val
{ unimplemented!() }
#[verifier::external_body]
pub fn verif_checked_add_SpanDays<R: RInto<ri32>>(x: ri32, rhs: R) -> (res: Option<ri32>)
    requires rhs.rinto_req(),
    ensures res.is_some() <==> in_SpanDays(x.val + rhs.rinto_spec().val), res.is_some() ==> res.unwrap().val == x.val + rhs.rinto_spec().val
{ unimplemented!() }
#[verifier::external_body]
pub fn verif_checked_sub_SpanDays<R: RInto<ri32>>(x: ri32, rhs: R) -> (res: Option<ri32>)
    requires rhs.rinto_req(),
    ensures res.is_some() <==> in_SpanDays(x.val - rhs.rinto_spec().val), res.is_some() ==> res.unwrap().val == x.val - rhs.rinto_spec().val
{ unimplemented!() }
#[verifier::external_body]
pub fn verif_checked_mul_SpanDays<R: RInto<ri32>>(x: ri32, rhs: R) -> (res: Option<ri32>)
    requires rhs.rinto_req(),
    ensures res.is_some() <==> in_SpanDays(x.val * rhs.rinto_spec().val), res.is_some() ==> res.unwrap().val == x.val * rhs.rinto_spec().val
{ unimplemented!() }
pub type SpanHours = ri32;
pub open spec fn SpanHours_MIN() -> int { -175307616 }
pub open spec fn SpanHours_MAX() -> int { 175307616 }
pub open spec fn in_SpanHours(v: int) -> bool { -175307616 <= v <= 175307616 }
#[verifier::external_body]
pub fn verif_try_rfrom_SpanHours_8(r: ri8) -> (res: Result<ri32, Error>)
    ensures res.is_ok() <==> in_SpanHours(r.val as int), res.is_ok() ==> res.unwrap().val == r.val
{ unimplemented!() }
#[verifier::external_body]
pub fn verif_try_rfrom_SpanHours_16(r: ri16) -> (res: Result<ri32, Error>)
    ensures res.is_ok() <==> in_SpanHours(r.val as int), res.is_ok() ==> res.unwrap().val == r.val
{ unimplemented!() }
#[verifier::external_body]
pub fn verif_try_rfrom_SpanHours_32(r: ri32) -> (res: Result<ri32, Error>)
    ensures res.is_ok() <==> in_SpanHours(r.val as int), res.is_ok() ==> res.unwrap().val == r.val
{ unimplemented!() }
#[verifier::external_body]
pub fn verif_try_rfrom_SpanHours_64(r: ri64) -> (res: Result<ri32, Error>)
    ensures res.is_ok() <==> in_SpanHours(r.val as int), res.is_ok() ==> res.unwrap().val == r.val
{ unimplemented!() }
#[verifier::external_body]
pub fn verif_try_rfrom_SpanHours_128(r: ri128) -> (res: Result<ri32, Error>)
    ensures res.is_ok() <==> in_SpanHours(r.val as int), res.is_ok() ==> res.unwrap().val == r.val
{ unimplemented!() }
#[verifier::external_body]
pub fn verif_try_new_SpanHours(v: i64) -> (res: Result<ri32, Error>)
    ensures res.is_ok() <==> in_SpanHours(v as int), res.is_ok() ==> res.unwrap().val == v
{ unimplemented!() }
#[verifier::external_body]
pub fn verif_try_new128_SpanHours(v: i128) -> (res: Result<ri32, Error>)
    ensures res.is_ok() <==> in_SpanHours(v as int), res.is_ok() ==> res.unwrap().val == v
{ unimplemented!() }
// `SpanHours::MIN` / `SpanHours::MAX` (associated consts of type i128)
pub fn verif_MIN_SpanHours() -> (r: i128) ensures r == SpanHours_MIN() { -175307616 }
pub fn verif_MAX_SpanHours() -> (r: i128) ensures r == SpanHours_MAX() { 175307616 }
// `x.try_checked_mul("what", rhs)` with x: SpanHours -- Ok iff the exact product lies within SpanHours::MIN..=MAX
#[verifier::external_body]
pub fn verif_try_checked_mul_SpanHours<R: RInto<ri32>>(x: ri32, rhs: R) -> (res: Result<ri32, Error>)
    requires rhs.rinto_req(),
    ensures res.is_ok() <==> in_SpanHours(x.val * rhs.rinto_spec().val), res.is_ok() ==> res.unwrap().val == x.val * rhs.rinto_spec().val
{ unimplemented!() }
// `x.try_checked_add/sub("what", rhs)` and `x.checked_add/sub/mul(rhs)` with x: SpanHours -- fail iff the exact result leaves SpanHours::MIN..=MAX
#[verifier::external_body]
pub fn verif_try_checked_add_SpanHours<R: RInto<ri32>>(x: ri32, rhs: R) -> (res: Result<ri32, Error>)
    requires rhs.rinto_req(),
    ensures res.is_ok() <==> in_SpanHours(x.val + rhs.rinto_spec().val), res.is_ok() ==> res.unwrap().val == x.val + rhs.rinto_spec().val
{ unimplemented!() }
#[verifier::external_body]
pub fn verif_try_checked_sub_SpanHours<R: RInto<ri32>>(x: ri32, rhs: R) -> (res: Result<ri32, Error>)
    requires rhs.rinto_req(),
    ensures res.is_ok() <==> in_SpanHours(x.val - rhs.rinto_spec().val), res.is_ok() ==> res.unwrap().val == x.val - rhs.rinto_spec().val
{ unimplemented!() }
#[verifier::external_body]
pub fn verif_checked_add_SpanHours<R: RInto<ri32>>(x: ri32, rhs: R) -> (res: Option<ri32>)
    requires rhs.rinto_req(),
    ensures res.is_some() <==> in_SpanHours(x.val + rhs.rinto_spec().val), res.is_some() ==> res.unwrap().val == x.val + rhs.rinto_spec().val
{ unimplemented!() }
#[verifier::external_body]
pub fn verif_checked_sub_SpanHours<R: RInto<ri32>>(x: ri32, rhs: R) -> (res: Option<ri32>)
    requires rhs.rinto_req(),
    ensures res.is_some() <==> in_SpanHours(x.val - rhs.rinto_spec().val), res.is_some() ==> res.unwrap().val == x.val - rhs.rinto_spec().val
{ unimplemented!() }
#[verifier::external_body]
pub fn verif_checked_mul_SpanHours<R: RInto<ri32>>(x: ri32, rhs: R) -> (res: Option<ri32>)
    requires rhs.rinto_req(),
    ensures res.is_some() <==> in_SpanHours(x.val * rhs.rinto_spec().val), res.is_some() ==> res.unwrap().val == x.val * rhs.rinto_spec().val
{ unimplemented!() }
pub type SpanMinutes = ri64;
pub open spec fn SpanMinutes_MIN() -> int { -10518456960 }
pub open spec fn SpanMinutes_MAX() -> int { 10518456960 }
pub open spec fn in_SpanMinutes(v: int) -> bool { -10518456960 <= v <= 10518456960 }
#[verifier::external_body]
pub fn verif_try_rfrom_SpanMinutes_8(r: ri8) -> (res: Result<ri64, Error>)
    ensures res.is_ok() <==> in_SpanMinutes(r.val as int), res.is_ok() ==> res.unwrap().val == r.val
{ unimplemented!() }
#[verifier::external_body]
pub fn verif_try_rfrom_SpanMinutes_16(r: ri16) -> (res: Result<ri64, Error>)
    ensures res.is_ok() <==> in_SpanMinutes(r.val as int), res.is_ok() ==> res.unwrap().val == r.val
{ unimplemented!() }
#[verifier::external_body]
pub fn verif_try_rfrom_SpanMinutes_32(r: ri32) -> (res: Result<ri64, Error>)
    ensures res.is_ok() <==> in_SpanMinutes(r.val as int), res.is_ok() ==> res.unwrap().val == r.val
{ unimplemented!() }
#[verifier::external_body]
pub fn verif_try_rfrom_SpanMinutes_64(r: ri64) -> (res: Result<ri64, Error>)
    ensures res.is_ok() <==> in_SpanMinutes(r.val as int), res.is_ok() ==> res.unwrap().val == r.val
{ unimplemented!() }
#[verifier::external_body]
pub fn verif_try_rfrom_SpanMinutes_128(r: ri128) -> (res: Result<ri64, Error>)
    ensures res.is_ok() <==> in_SpanMinutes(r.val as int), res.is_ok() ==> res.unwrap().val == r.val
{ unimplemented!() }
#[verifier::external_body]
pub fn verif_try_new_SpanMinutes(v: i64) -> (res: Result<ri64, Error>)
    ensures res.is_ok() <==> in_SpanMinutes(v as int), res.is_ok() ==> res.unwrap().val == v
{ unimplemented!() }
#[verifier::external_body]
pub fn verif_try_new128_SpanMinutes(v: i128) -> (res: Result<ri64, Error>)
    ensures res.is_ok() <==> in_SpanMinutes(v as int), res.is_ok() ==> res.unwrap().val == v
{ unimplemented!() }
// `SpanMinutes::MIN` / `SpanMinutes::MAX` (associated consts of type i128)
pub fn verif_MIN_SpanMinutes() -> (r: i128) ensures r == SpanMinutes_MIN() { -10518456960 }
pub fn verif_MAX_SpanMinutes() -> (r: i128) ensures r == SpanMinutes_MAX() { 10518456960 }
// `x.try_checked_mul("what", rhs)` with x: SpanMinutes -- Ok iff the exact product lies within SpanMinutes::MIN..=MAX
#[verifier::external_body]
pub fn verif_try_checked_mul_SpanMinutes<R: RInto<ri64>>(x: ri64, rhs: R) -> (res: Result<ri64, Error>)
    requires rhs.rinto_req(),
    ensures res.is_ok() <==> in_SpanMinutes(x.val * rhs.rinto_spec().val), res.is_ok() ==> res.unwrap().val == x.val * rhs.rinto_spec().val
{ unimplemented!() }
// `x.try_checked_add/sub("what", rhs)` and `x.checked_add/sub/mul(rhs)` with x: SpanMinutes -- fail iff the exact result leaves SpanMinutes::MIN..=MAX
#[verifier::external_body]
pub fn verif_try_checked_add_SpanMinutes<R: RInto<ri64>>(x: ri64, rhs: R) -> (res: Result<ri64, Error>)
    requires rhs.rinto_req(),
    ensures res.is_ok() <==> in_SpanMinutes(x.val + rhs.rinto_spec().val), res.is_ok() ==> res.unwrap().val == x.val + rhs.rinto_spec().val
{ unimplemented!() }
#[verifier::external_body]
pub fn verif_try_checked_sub_SpanMinutes<R: RInto<ri64>>(x: ri64, rhs: R) -> (res: Result<ri64, Error>)
    requires rhs.rinto_req(),
    ensures res.is_ok() <==> in_SpanMinutes(x.val - rhs.rinto_spec().val), res.is_ok() ==> res.unwrap().val == x.val - rhs.rinto_spec().val
{ unimplemented!() }
#[verifier::external_body]
pub fn verif_checked_add_SpanMinutes<R: RInto<ri64>>(x: ri64, rhs: R) -> (res: Option<ri64>)
    requires rhs.rinto_req(),
    ensures res.is_some() <==> in_SpanMinutes(x.val + rhs.rinto_spec().val), res.is_some() ==> res.unwrap().val == x.val + rhs.rinto_spec().val
{ unimplemented!() }
#[verifier::external_body]
pub fn verif_checked_sub_SpanMinutes<R: RInto<ri64>>(x: ri64, rhs: R) -> (res: Option<ri64>)
    requires rhs.rinto_req(),
    ensures res.is_some() <==> in_SpanMinutes(x.val - rhs.rinto_spec().val), res.is_some() ==> res.unwrap().val == x.val - rhs.rinto_spec().val
{ unimplemented!() }
#[verifier::external_body]
pub fn verif_checked_mul_SpanMinutes<R: RInto<ri64>>(x: ri64, rhs: R) -> (res: Option<ri64>)
    requires rhs.rinto_req(),
    ensures res.is_some() <==> in_SpanMinutes(x.val * rhs.rinto_spec().val), res.is_some() ==> res.unwrap().val == x.val * rhs.rinto_spec().val
{ unimplemented!() }
pub type SpanSeconds = ri64;
pub open spec fn SpanSeconds_MIN() -> int { -631107417600 }
pub open spec fn SpanSeconds_MAX() -> int { 631107417600 }
pub open spec fn in_SpanSeconds(v: int) -> bool { -631107417600 <= v <= 631107417600 }
#[verifier::external_body]
pub fn verif_try_rfrom_SpanSeconds_8(r: ri8) -> (res: Result<ri64, Error>)
    ensures res.is_ok() <==> in_SpanSeconds(r.val as int), res.is_ok() ==> res.unwrap().val == r.val
{ unimplemented!() }
#[verifier::external_body]
pub fn verif_try_rfrom_SpanSeconds_16(r: ri16) -> (res: Result<ri64, Error>)
    ensures res.is_ok() <==> in_SpanSeconds(r.val as int), res.is_ok() ==> res.unwrap().val == r.val
{ unimplemented!() }
#[verifier::external_body]
pub fn verif_try_rfrom_SpanSeconds_32(r: ri32) -> (res: Result<ri64, Error>)
    ensures res.is_ok() <==> in_SpanSeconds(r.val as int), res.is_ok() ==> res.unwrap().val == r.val
{ unimplemented!() }
#[verifier::external_body]
pub fn verif_try_rfrom_SpanSeconds_64(r: ri64) -> (res: Result<ri64, Error>)
    ensures res.is_ok() <==> in_SpanSeconds(r.val as int), res.is_ok() ==> res.unwrap().val == r.val
{ unimplemented!() }
#[verifier::external_body]
pub fn verif_try_rfrom_SpanSeconds_128(r: ri128) -> (res: Result<ri64, Error>)
    ensures res.is_ok() <==> in_SpanSeconds(r.val as int), res.is_ok() ==> res.unwrap().val == r.val
{ unimplemented!() }
#[verifier::external_body]
pub fn verif_try_new_SpanSeconds(v: i64) -> (res: Result<ri64, Error>)
    ensures res.is_ok() <==> in_SpanSeconds(v as int), res.is_ok() ==> res.unwrap().val == v
{ unimplemented!() }
#[verifier::external_body]
pub fn verif_try_new128_SpanSeconds(v: i128) -> (res: Result<ri64, Error>)
    ensures res.is_ok() <==> in_SpanSeconds(v as int), res.is_ok() ==> res.unwrap().val == v
{ unimplemented!() }
// `SpanSeconds::MIN` / `SpanSeconds::MAX` (associated consts of type i128)
pub fn verif_MIN_SpanSeconds() -> (r: i128) ensures r == SpanSeconds_MIN() { -631107417600 }
pub fn verif_MAX_SpanSeconds() -> (r: i128) ensures r == SpanSeconds_MAX() { 631107417600 }
// `x.try_checked_mul("what", rhs)` with x: SpanSeconds -- Ok iff the exact product lies within SpanSeconds::MIN..=MAX
#[verifier::external_body]
pub fn verif_try_checked_mul_SpanSeconds<R: RInto<ri64>>(x: ri64, rhs: R) -> (res: Result<ri64, Error>)
    requires rhs.rinto_req(),
    ensures res.is_ok() <==> in_SpanSeconds(x.val * rhs.rinto_spec().val), res.is_ok() ==> res.unwrap().val == x.val * rhs.rinto_spec().val
{ unimplemented!() }
// `x.try_checked_add/sub("what", rhs)` and `x.checked_add/sub/mul(rhs)` with x: SpanSeconds -- fail iff the exact result leaves SpanSeconds::MIN..=MAX
#[verifier::external_body]
pub fn verif_try_checked_add_SpanSeconds<R: RInto<ri64>>(x: ri64, rhs: R) -> (res: Result<ri64, Error>)
    requires rhs.rinto_req(),
    ensures res.is_ok() <==> in_SpanSeconds(x.val + rhs.rinto_spec().val), res.is_ok() ==> res.unwrap().val == x.val + rhs.rinto_spec().val
{ unimplemented!() }
#[verifier::external_body]
pub fn verif_try_checked_sub_SpanSeconds<R: RInto<ri64>>(x: ri64, rhs: R) -> (res: Result<ri64, Error>)
    requires rhs.rinto_req(),
    ensures res.is_ok() <==> in_SpanSeconds(x.val - rhs.rinto_spec().val), res.is_ok() ==> res.unwrap().val == x.val - rhs.rinto_spec().val
{ unimplemented!() }
#[verifier::external_body]
pub fn verif_checked_add_SpanSeconds<R: RInto<ri64>>(x: ri64, rhs: R) -> (res: Option<ri64>)
    requires rhs.rinto_req(),
    ensures res.is_some() <==> in_SpanSeconds(x.val + rhs.rinto_spec().val), res.is_some() ==> res.unwrap().val == x.val + rhs.rinto_spec().val
{ unimplemented!() }
#[verifier::external_body]
pub fn verif_checked_sub_SpanSeconds<R: RInto<ri64>>(x: ri64, rhs: R) -> (res: Option<ri64>)
    requires rhs.rinto_req(),
    ensures res.is_some() <==> in_SpanSeconds(x.val - rhs.rinto_spec().val), res.is_some() ==> res.unwrap().val == x.val - rhs.rinto_spec().val
{ unimplemented!() }
#[verifier::external_body]
pub fn verif_checked_mul_SpanSeconds<R: RInto<ri64>>(x: ri64, rhs: R) -> (res: Option<ri64>)
    requires rhs.rinto_req(),
    ensures res.is_some() <==> in_SpanSeconds(x.val * rhs.rinto_spec().val), res.is_some() ==> res.unwrap().val == x.val * rhs.rinto_spec().val
{ unimplemented!() }
pub type SpanMilliseconds = ri64;
pub open spec fn SpanMilliseconds_MIN() -> int { -631107417600000 }
pub open spec fn SpanMilliseconds_MAX() -> int { 631107417600000 }
pub open spec fn in_SpanMilliseconds(v: int) -> bool { -631107417600000 <= v <= 631107417600000 }
#[verifier::external_body]
pub fn verif_try_rfrom_SpanMilliseconds_8(r: ri8) -> (res: Result<ri64, Error>)
    ensures res.is_ok() <==> in_SpanMilliseconds(r.val as int), res.is_ok() ==> res.unwrap().val == r.val
{ unimplemented!() }
#[verifier::external_body]
pub fn verif_try_rfrom_SpanMilliseconds_16(r: ri16) -> (res: Result<ri64, Error>)
    ensures res.is_ok() <==> in_SpanMilliseconds(r.val as int), res.is_ok() ==> res.unwrap().val == r.val
{ unimplemented!() }
#[verifier::external_body]
pub fn verif_try_rfrom_SpanMilliseconds_32(r: ri32) -> (res: Result<ri64, Error>)
    ensures res.is_ok() <==> in_SpanMilliseconds(r.val as int), res.is_ok() ==> res.unwrap().val == r.val
{ unimplemented!() }
#[verifier::external_body]
pub fn verif_try_rfrom_SpanMilliseconds_64(r: ri64) -> (res: Result<ri64, Error>)
    ensures res.is_ok() <==> in_SpanMilliseconds(r.val as int), res.is_ok() ==> res.unwrap().val == r.val
{ unimplemented!() }
#[verifier::external_body]
pub fn verif_try_rfrom_SpanMilliseconds_128(r: ri128) -> (res: Result<ri64, Error>)
    ensures res.is_ok() <==> in_SpanMilliseconds(r.val as int), res.is_ok() ==> res.unwrap().val == r.val
{ unimplemented!() }
#[verifier::external_body]
pub fn verif_try_new_SpanMilliseconds(v: i64) -> (res: Result<ri64, Error>)
    ensures res.is_ok() <==> in_SpanMilliseconds(v as int), res.is_ok() ==> res.unwrap().val == v
{ unimplemented!() }
#[verifier::external_body]
pub fn verif_try_new128_SpanMilliseconds(v: i128) -> (res: Result<ri64, Error>)
    ensures res.is_ok() <==> in_SpanMilliseconds(v as int), res.is_ok() ==> res.unwrap().val == v
{ unimplemented!() }
// `SpanMilliseconds::MIN` / `SpanMilliseconds::MAX` (associated consts of type i128)
pub fn verif_MIN_SpanMilliseconds() -> (r: i128) ensures r == SpanMilliseconds_MIN() { -631107417600000 }
pub fn verif_MAX_SpanMilliseconds() -> (r: i128) ensures r == SpanMilliseconds_MAX() { 631107417600000 }
// `x.try_checked_mul("what", rhs)` with x: SpanMilliseconds -- Ok iff the exact product lies within SpanMilliseconds::MIN..=MAX
#[verifier::external_body]
pub fn verif_try_checked_mul_SpanMilliseconds<R: RInto<ri64>>(x: ri64, rhs: R) -> (res: Result<ri64, Error>)
    requires rhs.rinto_req(),
    ensures res.is_ok() <==> in_SpanMilliseconds(x.val * rhs.rinto_spec().val), res.is_ok() ==> res.unwrap().val == x.val * rhs.rinto_spec().val
{ unimplemented!() }
// `x.try_checked_add/sub("what", rhs)` and `x.checked_add/sub/mul(rhs)` with x: SpanMilliseconds -- fail iff the exact result leaves SpanMilliseconds::MIN..=MAX
#[verifier::external_body]
pub fn verif_try_checked_add_SpanMilliseconds<R: RInto<ri64>>(x: ri64, rhs: R) -> (res: Result<ri64, Error>)
    requires rhs.rinto_req(),
    ensures res.is_ok() <==> in_SpanMilliseconds(x.val + rhs.rinto_spec().val), res.is_ok() ==> res.unwrap().val == x.val + rhs.rinto_spec().val
{ unimplemented!() }
#[verifier::external_body]
pub fn verif_try_checked_sub_SpanMilliseconds<R: RInto<ri64>>(x: ri64, rhs: R) -> (res: Result<ri64, Error>)
    requires rhs.rinto_req(),
    ensures res.is_ok() <==> in_SpanMilliseconds(x.val - rhs.rinto_spec().val), res.is_ok() ==> res.unwrap().val == x.val - rhs.rinto_spec().val
{ unimplemented!() }
#[verifier::external_body]
pub fn verif_checked_add_SpanMilliseconds<R: RInto<ri64>>(x: ri64, rhs: R) -> (res: Option<ri64>)
    requires rhs.rinto_req(),
    ensures res.is_some() <==> in_SpanMilliseconds(x.val + rhs.rinto_spec().val), res.is_some() ==> res.unwrap().val == x.val + rhs.rinto_spec().val
{ unimplemented!() }
#[verifier::external_body]
pub fn verif_checked_sub_SpanMilliseconds<R: RInto<ri64>>(x: ri64, rhs: R) -> (res: Option<ri64>)
    requires rhs.rinto_req(),
    ensures res.is_some() <==> in_SpanMilliseconds(x.val - rhs.rinto_spec().val), res.is_some() ==> res.unwrap().val == x.val - rhs.rinto_spec().val
{ unimplemented!() }
#[verifier::external_body]
pub fn verif_checked_mul_SpanMilliseconds<R: RInto<ri64>>(x: ri64, rhs: R) -> (res: Option<ri64>)
    requires rhs.rinto_req(),
    ensures res.is_some() <==> in_SpanMilliseconds(x.val * rhs.rinto_spec().val), res.is_some() ==> res.unwrap().val == x.val * rhs.rinto_spec().val
{ unimplemented!() }
pub type SpanMicroseconds = ri64;
pub open spec fn SpanMicroseconds_MIN() -> int { -631107417600000000 }
pub open spec fn SpanMicroseconds_MAX() -> int { 631107417600000000 }
pub open spec fn in_SpanMicroseconds(v: int) -> bool { -631107417600000000 <= v <= 631107417600000000 }
#[verifier::external_body]
pub fn verif_try_rfrom_SpanMicroseconds_8(r: ri8) -> (res: Result<ri64, Error>)
    ensures res.is_ok() <==> in_SpanMicroseconds(r.val as int), res.is_ok() ==> res.unwrap().val == r.val
{ unimplemented!() }
#[verifier::external_body]
pub fn verif_try_rfrom_SpanMicroseconds_16(r: ri16) -> (res: Result<ri64, Error>)
    ensures res.is_ok() <==> in_SpanMicroseconds(r.val as int), res.is_ok() ==> res.unwrap().val == r.val
{ unimplemented!() }
#[verifier::external_body]
pub fn verif_try_rfrom_SpanMicroseconds_32(r: ri32) -> (res: Result<ri64, Error>)
    ensures res.is_ok() <==> in_SpanMicroseconds(r.val as int), res.is_ok() ==> res.unwrap().val == r.val
{ unimplemented!() }
#[verifier::external_body]
pub fn verif_try_rfrom_SpanMicroseconds_64(r: ri64) -> (res: Result<ri64, Error>)
    ensures res.is_ok() <==> in_SpanMicroseconds(r.val as int), res.is_ok() ==> res.unwrap().val == r.val
{ unimplemented!() }
#[verifier::external_body]
pub fn verif_try_rfrom_SpanMicroseconds_128(r: ri128) -> (res: Result<ri64, Error>)
    ensures res.is_ok() <==> in_SpanMicroseconds(r.val as int), res.is_ok() ==> res.unwrap().val == r.val
{ unimplemented!() }
#[verifier::external_body]
pub fn verif_try_new_SpanMicroseconds(v: i64) -> (res: Result<ri64, Error>)
    ensures res.is_ok() <==> in_SpanMicroseconds(v as int), res.is_ok() ==> res.unwrap().val == v
{ unimplemented!() }
#[verifier::external_body]
pub fn verif_try_new128_SpanMicroseconds(v: i128) -> (res: Result<ri64, Error>)
    ensures res.is_ok() <==> in_SpanMicroseconds(v as int), res.is_ok() ==> res.unwrap().val == v
{ unimplemented!() }
// `SpanMicroseconds::MIN` / `SpanMicroseconds::MAX` (associated consts of type i128)
pub fn verif_MIN_SpanMicroseconds() -> (r: i128) ensures r == SpanMicroseconds_MIN() { -631107417600000000 }
pub fn verif_MAX_SpanMicroseconds() -> (r: i128) ensures r == SpanMicroseconds_MAX() { 631107417600000000 }
// `x.try_checked_mul("what", rhs)` with x: SpanMicroseconds -- Ok iff the exact product lies within SpanMicroseconds::MIN..=MAX
#[verifier::external_body]
pub fn verif_try_checked_mul_SpanMicroseconds<R: RInto<ri64>>(x: ri64, rhs: R) -> (res: Result<ri64, Error>)
    requires rhs.rinto_req(),
    ensures res.is_ok() <==> in_SpanMicroseconds(x.val * rhs.rinto_spec().val), res.is_ok() ==> res.unwrap().val == x.val * rhs.rinto_spec().val
{ unimplemented!() }
// `x.try_checked_add/sub("what", rhs)` and `x.checked_add/sub/mul(rhs)` with x: SpanMicroseconds -- fail iff the exact result leaves SpanMicroseconds::MIN..=MAX
#[verifier::external_body]
pub fn verif_try_checked_add_SpanMicroseconds<R: RInto<ri64>>(x: ri64, rhs: R) -> (res: Result<ri64, Error>)
    requires rhs.rinto_req(),
    ensures res.is_ok() <==> in_SpanMicroseconds(x.val + rhs.rinto_spec().val), res.is_ok() ==> res.unwrap().val == x.val + rhs.rinto_spec().val
{ unimplemented!() }
#[verifier::external_body]
pub fn verif_try_checked_sub_SpanMicroseconds<R: RInto<ri64>>(x: ri64, rhs: R) -> (res: Result<ri64, Error>)
    requires rhs.rinto_req(),
    ensures res.is_ok() <==> in_SpanMicroseconds(x.val - rhs.rinto_spec().val), res.is_ok() ==> res.unwrap().val == x.val - rhs.rinto_spec().val
{ unimplemented!() }
#[verifier::external_body]
pub fn verif_checked_add_SpanMicroseconds<R: RInto<ri64>>(x: ri64, rhs: R) -> (res: Option<ri64>)
    requires rhs.rinto_req(),
    ensures res.is_some() <==> in_SpanMicroseconds(x.val + rhs.rinto_spec().val), res.is_some() ==> res.unwrap().val == x.val + rhs.rinto_spec().val
{ unimplemented!() }
#[verifier::external_body]
pub fn verif_checked_sub_SpanMicroseconds<R: RInto<ri64>>(x: ri64, rhs: R) -> (res: Option<ri64>)
    requires rhs.rinto_req(),
    ensures res.is_some() <==> in_SpanMicroseconds(x.val - rhs.rinto_spec().val), res.is_some() ==> res.unwrap().val == x.val - rhs.rinto_spec().val
{ unimplemented!() }
#[verifier::external_body]
pub fn verif_checked_mul_SpanMicroseconds<R: RInto<ri64>>(x: ri64, rhs: R) -> (res: Option<ri64>)
    requires rhs.rinto_req(),
    ensures res.is_some() <==> in_SpanMicroseconds(x.val * rhs.rinto_spec().val), res.is_some() ==> res.unwrap().val == x.val * rhs.rinto_spec().val
{ unimplemented!() }
pub type SpanNanoseconds = ri64;
pub open spec fn SpanNanoseconds_MIN() -> int { -9223372036854775807 }
pub open spec fn SpanNanoseconds_MAX() -> int { 9223372036854775807 }
pub open spec fn in_SpanNanoseconds(v: int) -> bool { -9223372036854775807 <= v <= 9223372036854775807 }
#[verifier::external_body]
pub fn verif_try_rfrom_SpanNanoseconds_8(r: ri8) -> (res: Result<ri64, Error>)
    ensures res.is_ok() <==> in_SpanNanoseconds(r.val as int), res.is_ok() ==> res.unwrap().val == r.val
{ unimplemented!() }
#[verifier::external_body]
pub fn verif_try_rfrom_SpanNanoseconds_16(r: ri16) -> (res: Result<ri64, Error>)
    ensures res.is_ok() <==> in_SpanNanoseconds(r.val as int), res.is_ok() ==> res.unwrap().val == r.val
{ unimplemented!() }
#[verifier::external_body]
pub fn verif_try_rfrom_SpanNanoseconds_32(r: ri32) -> (res: Result<ri64, Error>)
    ensures res.is_ok() <==> in_SpanNanoseconds(r.val as int), res.is_ok() ==> res.unwrap().val == r.val
{ unimplemented!() }
#[verifier::external_body]
pub fn verif_try_rfrom_SpanNanoseconds_64(r: ri64) -> (res: Result<ri64, Error>)
    ensures res.is_ok() <==> in_SpanNanoseconds(r.val as int), res.is_ok() ==> res.unwrap().val == r.val
{ unimplemented!() }
#[verifier::external_body]
pub fn verif_try_rfrom_SpanNanoseconds_128(r: ri128) -> (res: Result<ri64, Error>)
    ensures res.is_ok() <==> in_SpanNanoseconds(r.val as int), res.is_ok() ==> res.unwrap().val == r.val
{ unimplemented!() }
#[verifier::external_body]
pub fn verif_try_new_SpanNanoseconds(v: i64) -> (res: Result<ri64, Error>)
    ensures res.is_ok() <==> in_SpanNanoseconds(v as int), res.is_ok() ==> res.unwrap().val == v
{ unimplemented!() }
#[verifier::external_body]
pub fn verif_try_new128_SpanNanoseconds(v: i128) -> (res: Result<ri64, Error>)
    ensures res.is_ok() <==> in_SpanNanoseconds(v as int), res.is_ok() ==> res.unwrap().val == v
{ unimplemented!() }
// `SpanNanoseconds::MIN` / `SpanNanoseconds::MAX` (associated consts of type i128)
pub fn verif_MIN_SpanNanoseconds() -> (r: i128) ensures r == SpanNanoseconds_MIN() { -9223372036854775807 }
pub fn verif_MAX_SpanNanoseconds() -> (r: i128) ensures r == SpanNanoseconds_MAX() { 9223372036854775807 }
// `x.try_checked_mul("what", rhs)` with x: SpanNanoseconds -- Ok iff the exact product lies within SpanNanoseconds::MIN..=MAX
#[verifier::external_body]
pub fn verif_try_checked_mul_SpanNanoseconds<R: RInto<ri64>>(x: ri64, rhs: R) -> (res: Result<ri64, Error>)
    requires rhs.rinto_req(),
    ensures res.is_ok() <==> in_SpanNanoseconds(x.val * rhs.rinto_spec().val), res.is_ok() ==> res.unwrap().val == x.val * rhs.rinto_spec().val
{ unimplemented!() }
// `x.try_checked_add/sub("what", rhs)` and `x.checked_add/sub/mul(rhs)` with x: SpanNanoseconds -- fail iff the exact result leaves SpanNanoseconds::MIN..=MAX
#[verifier::external_body]
pub fn verif_try_checked_add_SpanNanoseconds<R: RInto<ri64>>(x: ri64, rhs: R) -> (res: Result<ri64, Error>)
    requires rhs.rinto_req(),
    ensures res.is_ok() <==> in_SpanNanoseconds(x.val + rhs.rinto_spec().val), res.is_ok() ==> res.unwrap().val == x.val + rhs.rinto_spec().val
{ unimplemented!() }
#[verifier::external_body]
pub fn verif_try_checked_sub_SpanNanoseconds<R: RInto<ri64>>(x: ri64, rhs: R) -> (res: Result<ri64, Error>)
    requires rhs.rinto_req(),
    ensures res.is_ok() <==> in_SpanNanoseconds(x.val - rhs.rinto_spec().val), res.is_ok() ==> res.unwrap().val == x.val - rhs.rinto_spec().val
{ unimplemented!() }
#[verifier::external_body]
pub fn verif_checked_add_SpanNanoseconds<R: RInto<ri64>>(x: ri64, rhs: R) -> (res: Option<ri64>)
    requires rhs.rinto_req(),
    ensures res.is_some() <==> in_SpanNanoseconds(x.val + rhs.rinto_spec().val), res.is_some() ==> res.unwrap().val == x.val + rhs.rinto_spec().val
{ unimplemented!() }
#[verifier::external_body]
pub fn verif_checked_sub_SpanNanoseconds<R: RInto<ri64>>(x: ri64, rhs: R) -> (res: Option<ri64>)
    requires rhs.rinto_req(),
    ensures res.is_some() <==> in_SpanNanoseconds(x.val - rhs.rinto_spec().val), res.is_some() ==> res.unwrap().val == x.val - rhs.rinto_spec().val
{ unimplemented!() }
#[verifier::external_body]
pub fn verif_checked_mul_SpanNanoseconds<R: RInto<ri64>>(x: ri64, rhs: R) -> (res: Option<ri64>)
    requires rhs.rinto_req(),
    ensures res.is_some() <==> in_SpanNanoseconds(x.val * rhs.rinto_spec().val), res.is_some() ==> res.unwrap().val == x.val * rhs.rinto_spec().val
{ unimplemented!() }
pub type SpanZoneOffset = ri32;
pub open spec fn SpanZoneOffset_MIN() -> int { -93599 }
pub open spec fn SpanZoneOffset_MAX() -> int { 93599 }
pub open spec fn in_SpanZoneOffset(v: int) -> bool { -93599 <= v <= 93599 }
#[verifier::external_body]
pub fn verif_try_rfrom_SpanZoneOffset_8(r: ri8) -> (res: Result<ri32, Error>)
    ensures res.is_ok() <==> in_SpanZoneOffset(r.val as int), res.is_ok() ==> res.unwrap().val == r.val
{ unimplemented!() }
#[verifier::external_body]
pub fn verif_try_rfrom_SpanZoneOffset_16(r: ri16) -> (res: Result<ri32, Error>)
    ensures res.is_ok() <==> in_SpanZoneOffset(r.val as int), res.is_ok() ==> res.unwrap().val == r.val
{ unimplemented!() }
#[verifier::external_body]
pub fn verif_try_rfrom_SpanZoneOffset_32(r: ri32) -> (res: Result<ri32, Error>)
    ensures res.is_ok() <==> in_SpanZoneOffset(r.val as int), res.is_ok() ==> res.unwrap().val == r.val
{ unimplemented!() }
#[verifier::external_body]
pub fn verif_try_rfrom_SpanZoneOffset_64(r: ri64) -> (res: Result<ri32, Error>)
    ensures res.is_ok() <==> in_SpanZoneOffset(r.val as int), res.is_ok() ==> res.unwrap().val == r.val
{ unimplemented!() }
#[verifier::external_body]
pub fn verif_try_rfrom_SpanZoneOffset_128(r: ri128) -> (res: Result<ri32, Error>)
    ensures res.is_ok() <==> in_SpanZoneOffset(r.val as int), res.is_ok() ==> res.unwrap().val == r.val
{ unimplemented!() }
#[verifier::external_body]
pub fn verif_try_new_SpanZoneOffset(v: i64) -> (res: Result<ri32, Error>)
    ensures res.is_ok() <==> in_SpanZoneOffset(v as int), res.is_ok() ==> res.unwrap().val == v
{ unimplemented!() }
#[verifier::external_body]
pub fn verif_try_new128_SpanZoneOffset(v: i128) -> (res: Result<ri32, Error>)
    ensures res.is_ok() <==> in_SpanZoneOffset(v as int), res.is_ok() ==> res.unwrap().val == v
{ unimplemented!() }
// `SpanZoneOffset::MIN` / `SpanZoneOffset::MAX` (associated consts of type i128)
pub fn verif_MIN_SpanZoneOffset() -> (r: i128) ensures r == SpanZoneOffset_MIN() { -93599 }
pub fn verif_MAX_SpanZoneOffset() -> (r: i128) ensures r == SpanZoneOffset_MAX() { 93599 }
// `x.try_checked_mul("what", rhs)` with x: SpanZoneOffset -- Ok iff the exact product lies within SpanZoneOffset::MIN..=MAX
#[verifier::external_body]
pub fn verif_try_checked_mul_SpanZoneOffset<R: RInto<ri32>>(x: ri32, rhs: R) -> (res: Result<ri32, Error>)
    requires rhs.rinto_req(),
    ensures res.is_ok() <==> in_SpanZoneOffset(x.val * rhs.rinto_spec().val), res.is_ok() ==> res.unwrap().val == x.val * rhs.rinto_spec().val
{ unimplemented!() }
// `x.try_checked_add/sub("what", rhs)` and `x.checked_add/sub/mul(rhs)` with x: SpanZoneOffset -- fail iff the exact result leaves SpanZoneOffset::MIN..=MAX
#[verifier::external_body]
pub fn verif_try_checked_add_SpanZoneOffset<R: RInto<ri32>>(x: ri32, rhs: R) -> (res: Result<ri32, Error>)
    requires rhs.rinto_req(),
    ensures res.is_ok() <==> in_SpanZoneOffset(x.val + rhs.rinto_spec().val), res.is_ok() ==> res.unwrap().val == x.val + rhs.rinto_spec().val
{ unimplemented!() }
#[verifier::external_body]
pub fn verif_try_checked_sub_SpanZoneOffset<R: RInto<ri32>>(x: ri32, rhs: R) -> (res: Result<ri32, Error>)
    requires rhs.rinto_req(),
    ensures res.is_ok() <==> in_SpanZoneOffset(x.val - rhs.rinto_spec().val), res.is_ok() ==> res.unwrap().val == x.val - rhs.rinto_spec().val
{ unimplemented!() }
#[verifier::external_body]
pub fn verif_checked_add_SpanZoneOffset<R: RInto<ri32>>(x: ri32, rhs: R) -> (res: Option<ri32>)
    requires rhs.rinto_req(),
    ensures res.is_some() <==> in_SpanZoneOffset(x.val + rhs.rinto_spec().val), res.is_some() ==> res.unwrap().val == x.val + rhs.rinto_spec().val
{ unimplemented!() }
#[verifier::external_body]
pub fn verif_checked_sub_SpanZoneOffset<R: RInto<ri32>>(x: ri32, rhs: R) -> (res: Option<ri32>)
    requires rhs.rinto_req(),
    ensures res.is_some() <==> in_SpanZoneOffset(x.val - rhs.rinto_spec().val), res.is_some() ==> res.unwrap().val == x.val - rhs.rinto_spec().val
{ unimplemented!() }
#[verifier::external_body]
pub fn verif_checked_mul_SpanZoneOffset<R: RInto<ri32>>(x: ri32, rhs: R) -> (res: Option<ri32>)
    requires rhs.rinto_req(),
    ensures res.is_some() <==> in_SpanZoneOffset(x.val * rhs.rinto_spec().val), res.is_some() ==> res.unwrap().val == x.val * rhs.rinto_spec().val
{ unimplemented!() }
pub type FractionalNanosecond = ri32;
pub open spec fn FractionalNanosecond_MIN() -> int { -999999999 }
pub open spec fn FractionalNanosecond_MAX() -> int { 999999999 }
pub open spec fn in_FractionalNanosecond(v: int) -> bool { -999999999 <= v <= 999999999 }
#[verifier::external_body]
pub fn verif_try_rfrom_FractionalNanosecond_8(r: ri8) -> (res: Result<ri32, Error>)
    ensures res.is_ok() <==> in_FractionalNanosecond(r.val as int), res.is_ok() ==> res.unwrap().val == r.val
{ unimplemented!() }
#[verifier::external_body]
pub fn verif_try_rfrom_FractionalNanosecond_16(r: ri16) -> (res: Result<ri32, Error>)
    ensures res.is_ok() <==> in_FractionalNanosecond(r.val as int), res.is_ok() ==> res.unwrap().val == r.val
{ unimplemented!() }
#[verifier::external_body]
pub fn verif_try_rfrom_FractionalNanosecond_32(r: ri32) -> (res: Result<ri32, Error>)
    ensures res.is_ok() <==> in_FractionalNanosecond(r.val as int), res.is_ok() ==> res.unwrap().val == r.val
{ unimplemented!() }
#[verifier::external_body]
pub fn verif_try_rfrom_FractionalNanosecond_64(r: ri64) -> (res: Result<ri32, Error>)
    ensures res.is_ok() <==> in_FractionalNanosecond(r.val as int), res.is_ok() ==> res.unwrap().val == r.val
{ unimplemented!() }
#[verifier::external_body]
pub fn verif_try_rfrom_FractionalNanosecond_128(r: ri128) -> (res: Result<ri32, Error>)
    ensures res.is_ok() <==> in_FractionalNanosecond(r.val as int), res.is_ok() ==> res.unwrap().val == r.val
{ unimplemented!() }
#[verifier::external_body]
pub fn verif_try_new_FractionalNanosecond(v: i64) -> (res: Result<ri32, Error>)
    ensures res.is_ok() <==> in_FractionalNanosecond(v as int), res.is_ok() ==> res.unwrap().val == v
{ unimplemented!() }
#[verifier::external_body]
pub fn verif_try_new128_FractionalNanosecond(v: i128) -> (res: Result<ri32, Error>)
    ensures res.is_ok() <==> in_FractionalNanosecond(v as int), res.is_ok() ==> res.unwrap().val == v
{ unimplemented!() }
// `FractionalNanosecond::MIN` / `FractionalNanosecond::MAX` (associated consts of type i128)
pub fn verif_MIN_FractionalNanosecond() -> (r: i128) ensures r == FractionalNanosecond_MIN() { -999999999 }
pub fn verif_MAX_FractionalNanosecond() -> (r: i128) ensures r == FractionalNanosecond_MAX() { 999999999 }
// `x.try_checked_mul("what", rhs)` with x: FractionalNanosecond -- Ok iff the exact product lies within FractionalNanosecond::MIN..=MAX
#[verifier::external_body]
pub fn verif_try_checked_mul_FractionalNanosecond<R: RInto<ri32>>(x: ri32, rhs: R) -> (res: Result<ri32, Error>)
    requires rhs.rinto_req(),
    ensures res.is_ok() <==> in_FractionalNanosecond(x.val * rhs.rinto_spec().val), res.is_ok() ==> res.unwrap().val == x.val * rhs.rinto_spec().val
{ unimplemented!() }
// `x.try_checked_add/sub("what", rhs)` and `x.checked_add/sub/mul(rhs)` with x: FractionalNanosecond -- fail iff the exact result leaves FractionalNanosecond::MIN..=MAX
#[verifier::external_body]
pub fn verif_try_checked_add_FractionalNanosecond<R: RInto<ri32>>(x: ri32, rhs: R) -> (res: Result<ri32, Error>)
    requires rhs.rinto_req(),
    ensures res.is_ok() <==> in_FractionalNanosecond(x.val + rhs.rinto_spec().val), res.is_ok() ==> res.unwrap().val == x.val + rhs.rinto_spec().val
{ unimplemented!() }
#[verifier::external_body]
pub fn verif_try_checked_sub_FractionalNanosecond<R: RInto<ri32>>(x: ri32, rhs: R) -> (res: Result<ri32, Error>)
    requires rhs.rinto_req(),
    ensures res.is_ok() <==> in_FractionalNanosecond(x.val - rhs.rinto_spec().val), res.is_ok() ==> res.unwrap().val == x.val - rhs.rinto_spec().val
{ unimplemented!() }
#[verifier::external_body]
pub fn verif_checked_add_FractionalNanosecond<R: RInto<ri32>>(x: ri32, rhs: R) -> (res: Option<ri32>)
    requires rhs.rinto_req(),
    ensures res.is_some() <==> in_FractionalNanosecond(x.val + rhs.rinto_spec().val), res.is_some() ==> res.unwrap().val == x.val + rhs.rinto_spec().val
{ unimplemented!() }
#[verifier::external_body]
pub fn verif_checked_sub_FractionalNanosecond<R: RInto<ri32>>(x: ri32, rhs: R) -> (res: Option<ri32>)
    requires rhs.rinto_req(),
    ensures res.is_some() <==> in_FractionalNanosecond(x.val - rhs.rinto_spec().val), res.is_some() ==> res.unwrap().val == x.val - rhs.rinto_spec().val
{ unimplemented!() }
#[verifier::external_body]
pub fn verif_checked_mul_FractionalNanosecond<R: RInto<ri32>>(x: ri32, rhs: R) -> (res: Option<ri32>)
    requires rhs.rinto_req(),
    ensures res.is_some() <==> in_FractionalNanosecond(x.val * rhs.rinto_spec().val), res.is_some() ==> res.unwrap().val == x.val * rhs.rinto_spec().val
{ unimplemented!() }
pub type ZonedDayNanoseconds = ri64;
pub open spec fn ZonedDayNanoseconds_MIN() -> int { 1000000000 }
pub open spec fn ZonedDayNanoseconds_MAX() -> int { 604800000000000 }
pub open spec fn in_ZonedDayNanoseconds(v: int) -> bool { 1000000000 <= v <= 604800000000000 }
#[verifier::external_body]
pub fn verif_try_rfrom_ZonedDayNanoseconds_8(r: ri8) -> (res: Result<ri64, Error>)
    ensures res.is_ok() <==> in_ZonedDayNanoseconds(r.val as int), res.is_ok() ==> res.unwrap().val == r.val
{ unimplemented!() }
#[verifier::external_body]
pub fn verif_try_rfrom_ZonedDayNanoseconds_16(r: ri16) -> (res: Result<ri64, Error>)
    ensures res.is_ok() <==> in_ZonedDayNanoseconds(r.val as int), res.is_ok() ==> res.unwrap().val == r.val
{ unimplemented!() }
#[verifier::external_body]
pub fn verif_try_rfrom_ZonedDayNanoseconds_32(r: ri32) -> (res: Result<ri64, Error>)
    ensures res.is_ok() <==> in_ZonedDayNanoseconds(r.val as int), res.is_ok() ==> res.unwrap().val == r.val
{ unimplemented!() }
#[verifier::external_body]
pub fn verif_try_rfrom_ZonedDayNanoseconds_64(r: ri64) -> (res: Result<ri64, Error>)
    ensures res.is_ok() <==> in_ZonedDayNanoseconds(r.val as int), res.is_ok() ==> res.unwrap().val == r.val
{ unimplemented!() }
#[verifier::external_body]
pub fn verif_try_rfrom_ZonedDayNanoseconds_128(r: ri128) -> (res: Result<ri64, Error>)
    ensures res.is_ok() <==> in_ZonedDayNanoseconds(r.val as int), res.is_ok() ==> res.unwrap().val == r.val
{ unimplemented!() }
#[verifier::external_body]
pub fn verif_try_new_ZonedDayNanoseconds(v: i64) -> (res: Result<ri64, Error>)
    ensures res.is_ok() <==> in_ZonedDayNanoseconds(v as int), res.is_ok() ==> res.unwrap().val == v
{ unimplemented!() }
#[verifier::external_body]
pub fn verif_try_new128_ZonedDayNanoseconds(v: i128) -> (res: Result<ri64, Error>)
    ensures res.is_ok() <==> in_ZonedDayNanoseconds(v as int), res.is_ok() ==> res.unwrap().val == v
{ unimplemented!() }
// `ZonedDayNanoseconds::MIN` / `ZonedDayNanoseconds::MAX` (associated consts of type i128)
pub fn verif_MIN_ZonedDayNanoseconds() -> (r: i128) ensures r == ZonedDayNanoseconds_MIN() { 1000000000 }
pub fn verif_MAX_ZonedDayNanoseconds() -> (r: i128) ensures r == ZonedDayNanoseconds_MAX() { 604800000000000 }
// `x.try_checked_mul("what", rhs)` with x: ZonedDayNanoseconds -- Ok iff the exact product lies within ZonedDayNanoseconds::MIN..=MAX
#[verifier::external_body]
pub fn verif_try_checked_mul_ZonedDayNanoseconds<R: RInto<ri64>>(x: ri64, rhs: R) -> (res: Result<ri64, Error>)
    requires rhs.rinto_req(),
    ensures res.is_ok() <==> in_ZonedDayNanoseconds(x.val * rhs.rinto_spec().val), res.is_ok() ==> res.unwrap().val == x.val * rhs.rinto_spec().val
{ unimplemented!() }
// `x.try_checked_add/sub("what", rhs)` and `x.checked_add/sub/mul(rhs)` with x: ZonedDayNanoseconds -- fail iff the exact result leaves ZonedDayNanoseconds::MIN..=MAX
#[verifier::external_body]
pub fn verif_try_checked_add_ZonedDayNanoseconds<R: RInto<ri64>>(x: ri64, rhs: R) -> (res: Result<ri64, Error>)
    requires rhs.rinto_req(),
    ensures res.is_ok() <==> in_ZonedDayNanoseconds(x.val + rhs.rinto_spec().val), res.is_ok() ==> res.unwrap().val == x.val + rhs.rinto_spec().val
{ unimplemented!() }
#[verifier::external_body]
pub fn verif_try_checked_sub_ZonedDayNanoseconds<R: RInto<ri64>>(x: ri64, rhs: R) -> (res: Result<ri64, Error>)
    requires rhs.rinto_req(),
    ensures res.is_ok() <==> in_ZonedDayNanoseconds(x.val - rhs.rinto_spec().val), res.is_ok() ==> res.unwrap().val == x.val - rhs.rinto_spec().val
{ unimplemented!() }
#[verifier::external_body]
pub fn verif_checked_add_ZonedDayNanoseconds<R: RInto<ri64>>(x: ri64, rhs: R) -> (res: Option<ri64>)
    requires rhs.rinto_req(),
    ensures res.is_some() <==> in_ZonedDayNanoseconds(x.val + rhs.rinto_spec().val), res.is_some() ==> res.unwrap().val == x.val + rhs.rinto_spec().val
{ unimplemented!() }
#[verifier::external_body]
pub fn verif_checked_sub_ZonedDayNanoseconds<R: RInto<ri64>>(x: ri64, rhs: R) -> (res: Option<ri64>)
    requires rhs.rinto_req(),
    ensures res.is_some() <==> in_ZonedDayNanoseconds(x.val - rhs.rinto_spec().val), res.is_some() ==> res.unwrap().val == x.val - rhs.rinto_spec().val
{ unimplemented!() }
#[verifier::external_body]
pub fn verif_checked_mul_ZonedDayNanoseconds<R: RInto<ri64>>(x: ri64, rhs: R) -> (res: Option<ri64>)
    requires rhs.rinto_req(),
    ensures res.is_some() <==> in_ZonedDayNanoseconds(x.val * rhs.rinto_spec().val), res.is_some() ==> res.unwrap().val == x.val * rhs.rinto_spec().val
{ unimplemented!() }
#[allow(non_camel_case_types)]
pub trait TryRInto_SpanYears: Sized {
    spec fn try_rinto_val(self) -> int;
    fn try_rinto(self, what: &'static str) -> (res: Result<ri16, Error>)
        ensures res.is_ok() <==> in_SpanYears(self.try_rinto_val()), res.is_ok() ==> res.unwrap().val == self.try_rinto_val();
}
impl TryRInto_SpanYears for ri8 {
    open spec fn try_rinto_val(self) -> int { self.val as int }
    fn try_rinto(self, what: &'static str) -> (res: Result<ri16, Error>) { verif_try_rfrom_SpanYears_8(self) }
}
impl TryRInto_SpanYears for ri16 {
    open spec fn try_rinto_val(self) -> int { self.val as int }
    fn try_rinto(self, what: &'static str) -> (res: Result<ri16, Error>) { verif_try_rfrom_SpanYears_16(self) }
}
impl TryRInto_SpanYears for ri32 {
    open spec fn try_rinto_val(self) -> int { self.val as int }
    fn try_rinto(self, what: &'static str) -> (res: Result<ri16, Error>) { verif_try_rfrom_SpanYears_32(self) }
}
impl TryRInto_SpanYears for ri64 {
    open spec fn try_rinto_val(self) -> int { self.val as int }
    fn try_rinto(self, what: &'static str) -> (res: Result<ri16, Error>) { verif_try_rfrom_SpanYears_64(self) }
}
impl TryRInto_SpanYears for ri128 {
    open spec fn try_rinto_val(self) -> int { self.val as int }
    fn try_rinto(self, what: &'static str) -> (res: Result<ri16, Error>) { verif_try_rfrom_SpanYears_128(self) }
}
#[allow(non_camel_case_types)]
pub trait TryRInto_SpanMonths: Sized {
    spec fn try_rinto_val(self) -> int;
    fn try_rinto(self, what: &'static str) -> (res: Result<ri32, Error>)
        ensures res.is_ok() <==> in_SpanMonths(self.try_rinto_val()), res.is_ok() ==> res.unwrap().val == self.try_rinto_val();
}
impl TryRInto_SpanMonths for ri8 {
    open spec fn try_rinto_val(self) -> int { self.val as int }
    fn try_rinto(self, what: &'static str) -> (res: Result<ri32, Error>) { verif_try_rfrom_SpanMonths_8(self) }
}
impl TryRInto_SpanMonths for ri16 {
    open spec fn try_rinto_val(self) -> int { self.val as int }
    fn try_rinto(self, what: &'static str) -> (res: Result<ri32, Error>) { verif_try_rfrom_SpanMonths_16(self) }
}
impl TryRInto_SpanMonths for ri32 {
    open spec fn try_rinto_val(self) -> int { self.val as int }
    fn try_rinto(self, what: &'static str) -> (res: Result<ri32, Error>) { verif_try_rfrom_SpanMonths_32(self) }
}
impl TryRInto_SpanMonths for ri64 {
    open spec fn try_rinto_val(self) -> int { self.val as int }
    fn try_rinto(self, what: &'static str) -> (res: Result<ri32, Error>) { verif_try_rfrom_SpanMonths_64(self) }
}
impl TryRInto_SpanMonths for ri128 {
    open spec fn try_rinto_val(self) -> int { self.val as int }
    fn try_rinto(self, what: &'static str) -> (res: Result<ri32, Error>) { verif_try_rfrom_SpanMonths_128(self) }
}
#[allow(non_camel_case_types)]
pub trait TryRInto_SpanWeeks: Sized {
    spec fn try_rinto_val(self) -> int;
    fn try_rinto(self, what: &'static str) -> (res: Result<ri32, Error>)
        ensures res.is_ok() <==> in_SpanWeeks(self.try_rinto_val()), res.is_ok() ==> res.unwrap().val == self.try_rinto_val();
}
impl TryRInto_SpanWeeks for ri8 {
    open spec fn try_rinto_val(self) -> int { self.val as int }
    fn try_rinto(self, what: &'static str) -> (res: Result<ri32, Error>) { verif_try_rfrom_SpanWeeks_8(self) }
}
impl TryRInto_SpanWeeks for ri16 {
    open spec fn try_rinto_val(self) -> int { self.val as int }
    fn try_rinto(self, what: &'static str) -> (res: Result<ri32, Error>) { verif_try_rfrom_SpanWeeks_16(self) }
}
impl TryRInto_SpanWeeks for ri32 {
    open spec fn try_rinto_val(self) -> int { self.val as int }
    fn try_rinto(self, what: &'static str) -> (res: Result<ri32, Error>) { verif_try_rfrom_SpanWeeks_32(self) }
}
impl TryRInto_SpanWeeks for ri64 {
    open spec fn try_rinto_val(self) -> int { self.val as int }
    fn try_rinto(self, what: &'static str) -> (res: Result<ri32, Error>) { verif_try_rfrom_SpanWeeks_64(self) }
}
impl TryRInto_SpanWeeks for ri128 {
    open spec fn try_rinto_val(self) -> int { self.val as int }
    fn try_rinto(self, what: &'static str) -> (res: Result<ri32, Error>) { verif_try_rfrom_SpanWeeks_128(self) }
}
#[allow(non_camel_case_types)]
pub trait TryRInto_SpanDays: Sized {
    spec fn try_rinto_val(self) -> int;
    fn try_rinto(self, what: &'static str) -> (res: Result<ri32, Error>)
        ensures res.is_ok() <==> in_SpanDays(self.try_rinto_val()), res.is_ok() ==> res.unwrap().val == self.try_rinto_val();
}
impl TryRInto_SpanDays for ri8 {
    open spec fn try_rinto_val(self) -> int { self.val as int }
    fn try_rinto(self, what: &'static str) -> (res: Result<ri32, Error>) { verif_try_rfrom_SpanDays_8(self) }
}
impl TryRInto_SpanDays for ri16 {
    open spec fn try_rinto_val(self) -> int { self.val as int }
    fn try_rinto(self, what: &'static str) -> (res: Result<ri32, Error>) { verif_try_rfrom_SpanDays_16(self) }
}
impl TryRInto_SpanDays for ri32 {
    open spec fn try_rinto_val(self) -> int { self.val as int }
    fn try_rinto(self, what: &'static str) -> (res: Result<ri32, Error>) { verif_try_rfrom_SpanDays_32(self) }
}
impl TryRInto_SpanDays for ri64 {
    open spec fn try_rinto_val(self) -> int { self.val as int }
    fn try_rinto(self, what: &'static str) -> (res: Result<ri32, Error>) { verif_try_rfrom_SpanDays_64(self) }
}
impl TryRInto_SpanDays for ri128 {
    open spec fn try_rinto_val(self) -> int { self.val as int }
    fn try_rinto(self, what: &'static str) -> (res: Result<ri32, Error>) { verif_try_rfrom_SpanDays_128(self) }
}
#[allow(non_camel_case_types)]
pub trait TryRInto_SpanHours: Sized {
    spec fn try_rinto_val(self) -> int;
    fn try_rinto(self, what: &'static str) -> (res: Result<ri32, Error>)
        ensures res.is_ok() <==> in_SpanHours(self.try_rinto_val()), res.is_ok() ==> res.unwrap().val == self.try_rinto_val();
}
impl TryRInto_SpanHours for ri8 {
    open spec fn try_rinto_val(self) -> int { self.val as int }
    fn try_rinto(self, what: &'static str) -> (res: Result<ri32, Error>) { verif_try_rfrom_SpanHours_8(self) }
}
impl TryRInto_SpanHours for ri16 {
    open spec fn try_rinto_val(self) -> int { self.val as int }
    fn try_rinto(self, what: &'static str) -> (res: Result<ri32, Error>) { verif_try_rfrom_SpanHours_16(self) }
}
impl TryRInto_SpanHours for ri32 {
    open spec fn try_rinto_val(self) -> int { self.val as int }
    fn try_rinto(self, what: &'static str) -> (res: Result<ri32, Error>) { verif_try_rfrom_SpanHours_32(self) }
}
impl TryRInto_SpanHours for ri64 {
    open spec fn try_rinto_val(self) -> int { self.val as int }
    fn try_rinto(self, what: &'static str) -> (res: Result<ri32, Error>) { verif_try_rfrom_SpanHours_64(self) }
}
impl TryRInto_SpanHours for ri128 {
    open spec fn try_rinto_val(self) -> int { self.val as int }
    fn try_rinto(self, what: &'static str) -> (res: Result<ri32, Error>) { verif_try_rfrom_SpanHours_128(self) }
}
#[allow(non_camel_case_types)]
pub trait TryRInto_SpanMinutes: Sized {
    spec fn try_rinto_val(self) -> int;
    fn try_rinto(self, what: &'static str) -> (res: Result<ri64, Error>)
        ensures res.is_ok() <==> in_SpanMinutes(self.try_rinto_val()), res.is_ok() ==> res.unwrap().val == self.try_rinto_val();
}
impl TryRInto_SpanMinutes for ri8 {
    open spec fn try_rinto_val(self) -> int { self.val as int }
    fn try_rinto(self, what: &'static str) -> (res: Result<ri64, Error>) { verif_try_rfrom_SpanMinutes_8(self) }
}
impl TryRInto_SpanMinutes for ri16 {
    open spec fn try_rinto_val(self) -> int { self.val as int }
    fn try_rinto(self, what: &'static str) -> (res: Result<ri64, Error>) { verif_try_rfrom_SpanMinutes_16(self) }
}
impl TryRInto_SpanMinutes for ri32 {
    open spec fn try_rinto_val(self) -> int { self.val as int }
    fn try_rinto(self, what: &'static str) -> (res: Result<ri64, Error>) { verif_try_rfrom_SpanMinutes_32(self) }
}
impl TryRInto_SpanMinutes for ri64 {
    open spec fn try_rinto_val(self) -> int { self.val as int }
    fn try_rinto(self, what: &'static str) -> (res: Result<ri64, Error>) { verif_try_rfrom_SpanMinutes_64(self) }
}
impl TryRInto_SpanMinutes for ri128 {
    open spec fn try_rinto_val(self) -> int { self.val as int }
    fn try_rinto(self, what: &'static str) -> (res: Result<ri64, Error>) { verif_try_rfrom_SpanMinutes_128(self) }
}
#[allow(non_camel_case_types)]
pub trait TryRInto_SpanSeconds: Sized {
    spec fn try_rinto_val(self) -> int;
    fn try_rinto(self, what: &'static str) -> (res: Result<ri64, Error>)
        ensures res.is_ok() <==> in_SpanSeconds(self.try_rinto_val()), res.is_ok() ==> res.unwrap().val == self.try_rinto_val();
}
impl TryRInto_SpanSeconds for ri8 {
    open spec fn try_rinto_val(self) -> int { self.val as int }
    fn try_rinto(self, what: &'static str) -> (res: Result<ri64, Error>) { verif_try_rfrom_SpanSeconds_8(self) }
}
impl TryRInto_SpanSeconds for ri16 {
    open spec fn try_rinto_val(self) -> int { self.val as int }
    fn try_rinto(self, what: &'static str) -> (res: Result<ri64, Error>) { verif_try_rfrom_SpanSeconds_16(self) }
}
impl TryRInto_SpanSeconds for ri32 {
    open spec fn try_rinto_val(self) -> int { self.val as int }
    fn try_rinto(self, what: &'static str) -> (res: Result<ri64, Error>) { verif_try_rfrom_SpanSeconds_32(self) }
}
impl TryRInto_SpanSeconds for ri64 {
    open spec fn try_rinto_val(self) -> int { self.val as int }
    fn try_rinto(self, what: &'static str) -> (res: Result<ri64, Error>) { verif_try_rfrom_SpanSeconds_64(self) }
}
impl TryRInto_SpanSeconds for ri128 {
    open spec fn try_rinto_val(self) -> int { self.val as int }
    fn try_rinto(self, what: &'static str) -> (res: Result<ri64, Error>) { verif_try_rfrom_SpanSeconds_128(self) }
}
#[allow(non_camel_case_types)]
pub trait TryRInto_SpanMilliseconds: Sized {
    spec fn try_rinto_val(self) -> int;
    fn try_rinto(self, what: &'static str) -> (res: Result<ri64, Error>)
        ensures res.is_ok() <==> in_SpanMilliseconds(self.try_rinto_val()), res.is_ok() ==> res.unwrap().val == self.try_rinto_val();
}
impl TryRInto_SpanMilliseconds for ri8 {
    open spec fn try_rinto_val(self) -> int { self.val as int }
    fn try_rinto(self, what: &'static str) -> (res: Result<ri64, Error>) { verif_try_rfrom_SpanMilliseconds_8(self) }
}
impl TryRInto_SpanMilliseconds for ri16 {
    open spec fn try_rinto_val(self) -> int { self.val as int }
    fn try_rinto(self, what: &'static str) -> (res: Result<ri64, Error>) { verif_try_rfrom_SpanMilliseconds_16(self) }
}
impl TryRInto_SpanMilliseconds for ri32 {
    open spec fn try_rinto_val(self) -> int { self.val as int }
    fn try_rinto(self, what: &'static str) -> (res: Result<ri64, Error>) { verif_try_rfrom_SpanMilliseconds_32(self) }
}
impl TryRInto_SpanMilliseconds for ri64 {
    open spec fn try_rinto_val(self) -> int { self.val as int }
    fn try_rinto(self, what: &'static str) -> (res: Result<ri64, Error>) { verif_try_rfrom_SpanMilliseconds_64(self) }
}
impl TryRInto_SpanMilliseconds for ri128 {
    open spec fn try_rinto_val(self) -> int { self.val as int }
    fn try_rinto(self, what: &'static str) -> (res: Result<ri64, Error>) { verif_try_rfrom_SpanMilliseconds_128(self) }
}
#[allow(non_camel_case_types)]
pub trait TryRInto_SpanMicroseconds: Sized {
    spec fn try_rinto_val(self) -> int;
    fn try_rinto(self, what: &'static str) -> (res: Result<ri64, Error>)
        ensures res.is_ok() <==> in_SpanMicroseconds(self.try_rinto_val()), res.is_ok() ==> res.unwrap().val == self.try_rinto_val();
}
impl TryRInto_SpanMicroseconds for ri8 {
    open spec fn try_rinto_val(self) -> int { self.val as int }
    fn try_rinto(self, what: &'static str) -> (res: Result<ri64, Error>) { verif_try_rfrom_SpanMicroseconds_8(self) }
}
impl TryRInto_SpanMicroseconds for ri16 {
    open spec fn try_rinto_val(self) -> int { self.val as int }
    fn try_rinto(self, what: &'static str) -> (res: Result<ri64, Error>) { verif_try_rfrom_SpanMicroseconds_16(self) }
}
impl TryRInto_SpanMicroseconds for ri32 {
    open spec fn try_rinto_val(self) -> int { self.val as int }
    fn try_rinto(self, what: &'static str) -> (res: Result<ri64, Error>) { verif_try_rfrom_SpanMicroseconds_32(self) }
}
impl TryRInto_SpanMicroseconds for ri64 {
    open spec fn try_rinto_val(self) -> int { self.val as int }
    fn try_rinto(self, what: &'static str) -> (res: Result<ri64, Error>) { verif_try_rfrom_SpanMicroseconds_64(self) }
}
impl TryRInto_SpanMicroseconds for ri128 {
    open spec fn try_rinto_val(self) -> int { self.val as int }
    fn try_rinto(self, what: &'static str) -> (res: Result<ri64, Error>) { verif_try_rfrom_SpanMicroseconds_128(self) }
}
#[allow(non_camel_case_types)]
pub trait TryRInto_SpanNanoseconds: Sized {
    spec fn try_rinto_val(self) -> int;
    fn try_rinto(self, what: &'static str) -> (res: Result<ri64, Error>)
        ensures res.is_ok() <==> in_SpanNanoseconds(self.try_rinto_val()), res.is_ok() ==> res.unwrap().val == self.try_rinto_val();
}
impl TryRInto_SpanNanoseconds for ri8 {
    open spec fn try_rinto_val(self) -> int { self.val as int }
    fn try_rinto(self, what: &'static str) -> (res: Result<ri64, Error>) { verif_try_rfrom_SpanNanoseconds_8(self) }
}
impl TryRInto_SpanNanoseconds for ri16 {
    open spec fn try_rinto_val(self) -> int { self.val as int }
    fn try_rinto(self, what: &'static str) -> (res: Result<ri64, Error>) { verif_try_rfrom_SpanNanoseconds_16(self) }
}
impl TryRInto_SpanNanoseconds for ri32 {
    open spec fn try_rinto_val(self) -> int { self.val as int }
    fn try_rinto(self, what: &'static str) -> (res: Result<ri64, Error>) { verif_try_rfrom_SpanNanoseconds_32(self) }
}
impl TryRInto_SpanNanoseconds for ri64 {
    open spec fn try_rinto_val(self) -> int { self.val as int }
    fn try_rinto(self, what: &'static str) -> (res: Result<ri64, Error>) { verif_try_rfrom_SpanNanoseconds_64(self) }
}
impl TryRInto_SpanNanoseconds for ri128 {
    open spec fn try_rinto_val(self) -> int { self.val as int }
    fn try_rinto(self, what: &'static str) -> (res: Result<ri64, Error>) { verif_try_rfrom_SpanNanoseconds_128(self) }
}
#[allow(non_camel_case_types)]
pub trait TryRInto_SpanZoneOffset: Sized {
    spec fn try_rinto_val(self) -> int;
    fn try_rinto(self, what: &'static str) -> (res: Result<ri32, Error>)
        ensures res.is_ok() <==> in_SpanZoneOffset(self.try_rinto_val()), res.is_ok() ==> res.unwrap().val == self.try_rinto_val();
}
impl TryRInto_SpanZoneOffset for ri8 {
    open spec fn try_rinto_val(self) -> int { self.val as int }
    fn try_rinto(self, what: &'static str) -> (res: Result<ri32, Error>) { verif_try_rfrom_SpanZoneOffset_8(self) }
}
impl TryRInto_SpanZoneOffset for ri16 {
    open spec fn try_rinto_val(self) -> int { self.val as int }
    fn try_rinto(self, what: &'static str) -> (res: Result<ri32, Error>) { verif_try_rfrom_SpanZoneOffset_16(self) }
}
impl TryRInto_SpanZoneOffset for ri32 {
    open spec fn try_rinto_val(self) -> int { self.val as int }
    fn try_rinto(self, what: &'static str) -> (res: Result<ri32, Error>) { verif_try_rfrom_SpanZoneOffset_32(self) }
}
impl TryRInto_SpanZoneOffset for ri64 {
    open spec fn try_rinto_val(self) -> int { self.val as int }
    fn try_rinto(self, what: &'static str) -> (res: Result<ri32, Error>) { verif_try_rfrom_SpanZoneOffset_64(self) }
}
impl TryRInto_SpanZoneOffset for ri128 {
    open spec fn try_rinto_val(self) -> int { self.val as int }
    fn try_rinto(self, what: &'static str) -> (res: Result<ri32, Error>) { verif_try_rfrom_SpanZoneOffset_128(self) }
}

// ---- include lib/rangeint_ext_civiladd.vrs ----
// Hand-written extension of the rangeint model (lib/rangeint.vrs) for unit `civiladd`.
// Same style as the generated file: `#[verifier::external_body]` + exact `ensures` (release-mode meaning of src/util/rangeint.rs);
// every external_body spec below is an obligation for Kani on the real operation.  Functions WITH a body are verified here
// against the generated per-alias functions (no new trusted spec).

// ---- (E1) rangeint::Composite / composite! in release mode: `composite!((a, b) => { e })` is `{ let a = a.val; let b = b.val; Composite { val: e } }`,
//           `Composite<iN>::to_rint()` is `riN::new_unchecked(val)` (no bound is consulted)
pub struct Composite<T> { pub val: T }
impl Composite<i8> {
    pub fn to_rint(self) -> (r: ri8) ensures r.val == self.val { ri8 { val: self.val } }
}

// ---- (E2) wrapping arithmetic on primitive-range integers (`NoUnits`, `NoUnits128`: IS_PRIMITIVE): two's complement wrap of the representation
impl ri64 {
    #[verifier::external_body]
    pub fn wrapping_add<R: RInto<ri64>>(self, rhs: R) -> (r: ri64)
        requires rhs.rinto_req(),
        ensures r.val == wrap64(self.val + rhs.rinto_spec().val)
    { unimplemented!() }
    #[verifier::external_body]
    pub fn wrapping_mul<R: RInto<ri64>>(self, rhs: R) -> (r: ri64)
        requires rhs.rinto_req(),
        ensures r.val == wrap64(self.val * rhs.rinto_spec().val)
    { unimplemented!() }
}
impl ri128 {
    #[verifier::external_body]
    pub fn wrapping_add<R: RInto<ri128>>(self, rhs: R) -> (r: ri128)
        requires rhs.rinto_req(),
        ensures r.val == wrap128(self.val + rhs.rinto_spec().val)
    { unimplemented!() }
    #[verifier::external_body]
    pub fn wrapping_sub<R: RInto<ri128>>(self, rhs: R) -> (r: ri128)
        requires rhs.rinto_req(),
        ensures r.val == wrap128(self.val - rhs.rinto_spec().val)
    { unimplemented!() }
}
/// the value in -2^63 .. 2^63 congruent to x modulo 2^64
pub open spec fn wrap64(x: int) -> int { (x + 0x8000_0000_0000_0000) % 0x1_0000_0000_0000_0000 - 0x8000_0000_0000_0000 }
/// the value in -2^127 .. 2^127 congruent to x modulo 2^128
pub open spec fn wrap128(x: int) -> int {
    (x + 0x8000_0000_0000_0000_0000_0000_0000_0000) % (2 * 0x8000_0000_0000_0000_0000_0000_0000_0000int) - 0x8000_0000_0000_0000_0000_0000_0000_0000
}

// ---- (E3) method forms of the generated per-alias bound checks, for chained calls `a.try_checked_add(..)?.try_checked_add(..)?`
//           (verified against the generated functions: nothing new is trusted)
impl ri32 {
    pub fn verif_m_try_checked_add_UnixEpochDay<R: RInto<ri32>>(self, rhs: R) -> (res: Result<ri32, Error>)
        requires rhs.rinto_req(),
        ensures res.is_ok() <==> in_UnixEpochDay(self.val + rhs.rinto_spec().val), res.is_ok() ==> res.unwrap().val == self.val + rhs.rinto_spec().val
    { verif_try_checked_add_UnixEpochDay(self, rhs) }
    pub fn verif_m_try_checked_sub_UnixEpochDay<R: RInto<ri32>>(self, rhs: R) -> (res: Result<ri32, Error>)
        requires rhs.rinto_req(),
        ensures res.is_ok() <==> in_UnixEpochDay(self.val - rhs.rinto_spec().val), res.is_ok() ==> res.unwrap().val == self.val - rhs.rinto_spec().val
    { verif_try_checked_sub_UnixEpochDay(self, rhs) }
}
impl ri16 {
    pub fn verif_m_try_checked_add_Year<R: RInto<ri16>>(self, rhs: R) -> (res: Result<ri16, Error>)
        requires rhs.rinto_req(),
        ensures res.is_ok() <==> in_Year(self.val + rhs.rinto_spec().val), res.is_ok() ==> res.unwrap().val == self.val + rhs.rinto_spec().val
    { verif_try_checked_add_Year(self, rhs) }
    pub fn verif_m_try_checked_sub_Year<R: RInto<ri16>>(self, rhs: R) -> (res: Result<ri16, Error>)
        requires rhs.rinto_req(),
        ensures res.is_ok() <==> in_Year(self.val - rhs.rinto_spec().val), res.is_ok() ==> res.unwrap().val == self.val - rhs.rinto_spec().val
    { verif_try_checked_sub_Year(self, rhs) }
}

// ---- (E4) `x.without_bounds()` for x narrower than 128 bits is `ri64::rfrom(x)` = NoUnits (src/util/rangeint.rs:2147-2181);
//           the generated model's `without_bounds` keeps the receiver's width, so the call is rewritten to this one (verified: a widening)
impl ri32 {
    pub fn verif_without_bounds64(self) -> (r: ri64) ensures r.val == self.val { ri64 { val: self.val as i64 } }
}
impl ri64 {
    pub fn verif_without_bounds64(self) -> (r: ri64) ensures r.val == self.val { self }
}

// ---- (E5) `i64::from(x)` / `x.into()` (argument `impl Into<i64>` of `T::try_new`) for a ranged integer x: widening for ri8..ri64,
//           `x.val as i64` for ri128 in release mode -- truncation is a precondition here (an obligation for the caller).  Verified bodies.
pub trait VerifIntoI64: Sized {
    spec fn into_i64_req(self) -> bool;
    spec fn into_i64_spec(self) -> i64;
    fn verif_into_i64(self) -> (r: i64) requires self.into_i64_req() ensures r == self.into_i64_spec();
}
impl VerifIntoI64 for ri32 {
    open spec fn into_i64_req(self) -> bool { true }
    open spec fn into_i64_spec(self) -> i64 { self.val as i64 }
    fn verif_into_i64(self) -> (r: i64) { self.val as i64 }
}
impl VerifIntoI64 for ri64 {
    open spec fn into_i64_req(self) -> bool { true }
    open spec fn into_i64_spec(self) -> i64 { self.val }
    fn verif_into_i64(self) -> (r: i64) { self.val }
}
impl VerifIntoI64 for ri128 {
    open spec fn into_i64_req(self) -> bool { i64::MIN <= self.val <= i64::MAX }
    open spec fn into_i64_spec(self) -> i64 { self.val as i64 }
    fn verif_into_i64(self) -> (r: i64) { self.val as i64 }
}

// ---- include lib/greg.vrs ----
// Proleptic Gregorian calendar, defined from first principles (property C01).
// Nothing in this file comes from jiff's code.
pub open spec fn is_leap(y: int) -> bool { y % 4 == 0 && (y % 100 != 0 || y % 400 == 0) }
pub open spec fn dim(y: int, m: int) -> int {
    if m == 2 { if is_leap(y) { 29 } else { 28 } }
    else if m == 4 || m == 6 || m == 9 || m == 11 { 30 } else { 31 }
}
pub open spec fn diy(y: int) -> int { if is_leap(y) { 366 } else { 365 } }
pub open spec fn valid_ymd(y: int, m: int, d: int) -> bool {
    1 <= m <= 12 && 1 <= d <= dim(y, m)
}
pub open spec fn in_range_ymd(y: int, m: int, d: int) -> bool {
    -9999 <= y <= 9999 && valid_ymd(y, m, d)
}
// successor of a date, component-wise
pub open spec fn next_y(y: int, m: int, d: int) -> int { if d == dim(y, m) && m == 12 { y + 1 } else { y } }
pub open spec fn next_m(y: int, m: int, d: int) -> int { if d == dim(y, m) { if m == 12 { 1 } else { m + 1 } } else { m } }
pub open spec fn next_d(y: int, m: int, d: int) -> int { if d == dim(y, m) { 1 } else { d + 1 } }
pub open spec fn prev_y(y: int, m: int, d: int) -> int { if d == 1 && m == 1 { y - 1 } else { y } }
pub open spec fn prev_m(y: int, m: int, d: int) -> int { if d == 1 { if m == 1 { 12 } else { m - 1 } } else { m } }
pub open spec fn prev_d(y: int, m: int, d: int) -> int { if d == 1 { dim(prev_y(y, m, d), prev_m(y, m, d)) } else { d - 1 } }

// Closed form of "days since 1970-01-01".  lemma_rd_epoch + lemma_rd_succ show it is THE
// Gregorian day count (the unique function that is 0 at the epoch and +1 on successor).
pub open spec fn rd(y: int, m: int, d: int) -> int {
    let yy = if m <= 2 { y - 1 } else { y };
    let mm = if m <= 2 { m + 12 } else { m };
    365 * yy + yy / 4 - yy / 100 + yy / 400 + (153 * (mm - 3) + 2) / 5 + d - 1 - 719468
}
#[verifier::spinoff_prover]
pub proof fn lemma_rd_epoch()
    ensures rd(1970, 1, 1) == 0, rd(-9999, 1, 1) == -4371587, rd(9999, 12, 31) == 2932896,
{}
/// (153(mm-3)+2)/5 for the shifted month number mm = 3..14 (March..February)
pub open spec fn moff(mm: int) -> int {
    if mm == 3 { 0 } else if mm == 4 { 31 } else if mm == 5 { 61 } else if mm == 6 { 92 } else if mm == 7 { 122 } else if mm == 8 { 153 }
    else if mm == 9 { 184 } else if mm == 10 { 214 } else if mm == 11 { 245 } else if mm == 12 { 275 } else if mm == 13 { 306 } else { 337 }
}
#[verifier::spinoff_prover]
pub proof fn lemma_moff(mm: int)
    requires 3 <= mm <= 14,
    ensures (153 * (mm - 3) + 2) / 5 == moff(mm),
{
    if mm == 3 {} else if mm == 4 {} else if mm == 5 {} else if mm == 6 {} else if mm == 7 {} else if mm == 8 {}
    else if mm == 9 {} else if mm == 10 {} else if mm == 11 {} else if mm == 12 {} else if mm == 13 {} else {}
}
/// stepping from y-1 to y changes floor(y/k) by one exactly when k divides y
#[verifier::spinoff_prover]
pub proof fn lemma_div_step(y: int, k: int)
    requires k > 1,
    ensures y / k - (y - 1) / k == (if y % k == 0 { 1int } else { 0int }),
{
    let q = y / k; let r = y % k;
    vstd::arithmetic::div_mod::lemma_fundamental_div_mod(y, k);
    vstd::arithmetic::div_mod::lemma_mod_bound(y, k);
    assert(y == k * q + r && 0 <= r < k);
    if r == 0 {
        assert(y - 1 == (q - 1) * k + (k - 1)) by (nonlinear_arith) requires y == k * q + r, r == 0;
        vstd::arithmetic::div_mod::lemma_fundamental_div_mod_converse(y - 1, k, q - 1, k - 1);
    } else {
        assert(y - 1 == q * k + (r - 1)) by (nonlinear_arith) requires y == k * q + r;
        vstd::arithmetic::div_mod::lemma_fundamental_div_mod_converse(y - 1, k, q, r - 1);
    }
}
#[verifier::spinoff_prover]
pub proof fn lemma_divides_chain(y: int, a: int, b: int)
    requires a > 0, b > 0, y % (a * b) == 0,
    ensures y % a == 0,
{
    let q = y / (a * b);
    assert(a * b > 0) by (nonlinear_arith) requires a > 0, b > 0;
    vstd::arithmetic::div_mod::lemma_fundamental_div_mod(y, a * b);
    assert(y == (q * b) * a + 0) by (nonlinear_arith) requires y == (a * b) * q + y % (a * b), y % (a * b) == 0;
    vstd::arithmetic::div_mod::lemma_fundamental_div_mod_converse(y, a, q * b, 0);
}
/// how the three leap-year quotients change from y-1 to y
#[verifier::spinoff_prover]
pub proof fn lemma_leap_step(y: int)
    ensures y / 4 - (y - 1) / 4 == (if y % 4 == 0 { 1int } else { 0int }),
            y / 100 - (y - 1) / 100 == (if y % 100 == 0 { 1int } else { 0int }),
            y / 400 - (y - 1) / 400 == (if y % 400 == 0 { 1int } else { 0int }),
            y % 400 == 0 ==> y % 100 == 0, y % 100 == 0 ==> y % 4 == 0,
{
    lemma_div_step(y, 4); lemma_div_step(y, 100); lemma_div_step(y, 400);
    if y % 400 == 0 { lemma_divides_chain(y, 100, 4); }
    if y % 100 == 0 { lemma_divides_chain(y, 4, 25); }
}
/// rd with the month term replaced by the table
pub open spec fn rd_lin(y: int, m: int, d: int) -> int {
    let yy = if m <= 2 { y - 1 } else { y };
    let mm = if m <= 2 { m + 12 } else { m };
    365 * yy + yy / 4 - yy / 100 + yy / 400 + moff(mm) + d - 1 - 719468
}
#[verifier::spinoff_prover]
pub proof fn lemma_rd_lin(y: int, m: int, d: int)
    requires 1 <= m <= 12,
    ensures rd(y, m, d) == rd_lin(y, m, d),
{
    lemma_moff(if m <= 2 { m + 12 } else { m });
}
#[verifier::spinoff_prover]
pub proof fn lemma_rd_succ(y: int, m: int, d: int)
    requires valid_ymd(y, m, d),
    ensures valid_ymd(next_y(y, m, d), next_m(y, m, d), next_d(y, m, d)),
            rd(next_y(y, m, d), next_m(y, m, d), next_d(y, m, d)) == rd(y, m, d) + 1,
{
    lemma_rd_lin(y, m, d);
    lemma_rd_lin(next_y(y, m, d), next_m(y, m, d), next_d(y, m, d));
    lemma_leap_step(y);
}
#[verifier::spinoff_prover]
pub proof fn lemma_rd_pred(y: int, m: int, d: int)
    requires valid_ymd(y, m, d),
    ensures valid_ymd(prev_y(y, m, d), prev_m(y, m, d), prev_d(y, m, d)),
            rd(prev_y(y, m, d), prev_m(y, m, d), prev_d(y, m, d)) == rd(y, m, d) - 1,
{
    lemma_rd_lin(y, m, d);
    lemma_rd_lin(prev_y(y, m, d), prev_m(y, m, d), prev_d(y, m, d));
    lemma_leap_step(y);
}
// day-of-year (1-based) and its relation to rd
pub open spec fn days_before_month(y: int, m: int) -> int
    decreases m
{
    if m <= 1 { 0 } else { days_before_month(y, m - 1) + dim(y, m - 1) }
}
pub open spec fn doy(y: int, m: int, d: int) -> int { days_before_month(y, m) + d }
pub open spec fn dbm_tab(y: int, m: int) -> int {
    let l = if is_leap(y) { 1int } else { 0int };
    if m == 1 { 0 } else if m == 2 { 31 } else if m == 3 { 59 + l } else if m == 4 { 90 + l } else if m == 5 { 120 + l } else if m == 6 { 151 + l }
    else if m == 7 { 181 + l } else if m == 8 { 212 + l } else if m == 9 { 243 + l } else if m == 10 { 273 + l } else if m == 11 { 304 + l } else { 334 + l }
}
#[verifier::spinoff_prover]
pub proof fn lemma_dbm(y: int, m: int)
    requires 1 <= m <= 12,
    ensures days_before_month(y, m) == dbm_tab(y, m),
    decreases m
{
    if m > 1 { lemma_dbm(y, m - 1); }
}
#[verifier::spinoff_prover]
pub proof fn lemma_doy_rd(y: int, m: int, d: int)
    requires 1 <= m <= 12,
    ensures rd(y, m, d) == rd(y, 1, 1) + doy(y, m, d) - 1,
{
    lemma_dbm(y, m);
    lemma_rd_lin(y, m, d);
    lemma_rd_lin(y, 1, 1);
    lemma_leap_step(y);
}
#[verifier::spinoff_prover]
pub proof fn lemma_rd_year(y: int)
    ensures rd(y + 1, 1, 1) == rd(y, 1, 1) + diy(y),
{
    lemma_rd_lin(y, 1, 1); lemma_rd_lin(y + 1, 1, 1);
    lemma_leap_step(y);
}
// rd is strictly monotone in (y,m,d) lexicographic order on valid dates => injective.
#[verifier::spinoff_prover]
pub proof fn lemma_rd_month_mono(y: int, m1: int, d1: int, m2: int, d2: int)
    requires valid_ymd(y, m1, d1), valid_ymd(y, m2, d2), m1 < m2,
    ensures rd(y, m1, d1) < rd(y, m2, d2),
{
    lemma_doy_rd(y, m1, d1); lemma_doy_rd(y, m2, d2);
    lemma_dbm(y, m1); lemma_dbm(y, m2);
}
#[verifier::spinoff_prover]
pub proof fn lemma_rd_year_mono(y1: int, y2: int)
    requires y1 <= y2,
    ensures rd(y2, 1, 1) - rd(y1, 1, 1) >= 365 * (y2 - y1),
    decreases y2 - y1
{
    if y1 < y2 { lemma_rd_year_mono(y1, y2 - 1); lemma_rd_year(y2 - 1); }
}
#[verifier::spinoff_prover]
pub proof fn lemma_rd_mono(y1: int, m1: int, d1: int, y2: int, m2: int, d2: int)
    requires valid_ymd(y1, m1, d1), valid_ymd(y2, m2, d2),
             y1 < y2 || (y1 == y2 && (m1 < m2 || (m1 == m2 && d1 < d2))),
    ensures rd(y1, m1, d1) < rd(y2, m2, d2),
{
    if y1 < y2 {
        lemma_doy_rd(y1, m1, d1); lemma_doy_rd(y2, m2, d2);
        lemma_rd_year_mono(y1 + 1, y2); lemma_rd_year(y1);
        lemma_dbm(y1, m1); lemma_dbm(y2, m2);
    } else if m1 < m2 {
        lemma_rd_month_mono(y1, m1, d1, m2, d2);
    }
}
#[verifier::spinoff_prover]
pub proof fn lemma_rd_inj(y1: int, m1: int, d1: int, y2: int, m2: int, d2: int)
    requires valid_ymd(y1, m1, d1), valid_ymd(y2, m2, d2), rd(y1, m1, d1) == rd(y2, m2, d2),
    ensures y1 == y2 && m1 == m2 && d1 == d2,
{
    if y1 < y2 || (y1 == y2 && (m1 < m2 || (m1 == m2 && d1 < d2))) { lemma_rd_mono(y1, m1, d1, y2, m2, d2); }
    else if y2 < y1 || (y1 == y2 && (m2 < m1 || (m1 == m2 && d2 < d1))) { lemma_rd_mono(y2, m2, d2, y1, m1, d1); }
}
// ISO weekday 1=Monday..7=Sunday of day number e; day 0 (1970-01-01) is a Thursday (4), cyclic successor.
pub open spec fn wd(e: int) -> int { (e + 3) % 7 + 1 }
#[verifier::spinoff_prover]
pub proof fn lemma_wd()
    ensures wd(0) == 4, forall|e: int| #[trigger] wd(e + 1) == (if wd(e) == 7 { 1int } else { wd(e) + 1 }),
{}

// ---- lemmas over plain integers used by the units (moved here from itime_views.vrs so that units without the itime structs can include them)
pub open spec fn nth_first_day(y: int, m: int, w: int) -> int { 1 + (w - wd(rd(y, m, 1))) % 7 }
pub open spec fn nth_last_day(y: int, m: int, w: int) -> int { dim(y, m) - (wd(rd(y, m, dim(y, m))) - w) % 7 }
/// x == 7*q + r with 0 <= r < 7 determines x % 7
#[verifier::spinoff_prover]
pub proof fn lemma_mod7(x: int, q: int, r: int)
    requires x == 7 * q + r, 0 <= r < 7,
    ensures x % 7 == r,
{
    assert(x == q * 7 + r);
    vstd::arithmetic::div_mod::lemma_fundamental_div_mod_converse(x, 7, q, r);
}
#[verifier::spinoff_prover]
pub proof fn lemma_wd_arith(e: int, w: int, k: int)
    requires 1 <= w <= 7,
    ensures wd(e + (w - wd(e)) % 7 + 7 * k) == w, wd(e - (wd(e) - w) % 7 - 7 * k) == w,
            0 <= (w - wd(e)) % 7 <= 6, 0 <= (wd(e) - w) % 7 <= 6,
{
    let a = (e + 3) % 7; let q = (e + 3) / 7;
    vstd::arithmetic::div_mod::lemma_fundamental_div_mod(e + 3, 7);
    vstd::arithmetic::div_mod::lemma_mod_bound(e + 3, 7);
    assert(e + 3 == 7 * q + a && 0 <= a < 7 && wd(e) == a + 1);
    // forward
    let x1 = w - wd(e); let t1 = x1 % 7; let p1 = x1 / 7;
    vstd::arithmetic::div_mod::lemma_fundamental_div_mod(x1, 7);
    vstd::arithmetic::div_mod::lemma_mod_bound(x1, 7);
    assert(x1 == 7 * p1 + t1 && 0 <= t1 < 7);
    lemma_mod7(e + t1 + 7 * k + 3, q + k - p1, w - 1);
    // backward
    let x2 = wd(e) - w; let t2 = x2 % 7; let p2 = x2 / 7;
    vstd::arithmetic::div_mod::lemma_fundamental_div_mod(x2, 7);
    vstd::arithmetic::div_mod::lemma_mod_bound(x2, 7);
    assert(x2 == 7 * p2 + t2 && 0 <= t2 < 7);
    lemma_mod7(e - t2 - 7 * k + 3, q - k + p2, w - 1);
}
#[verifier::spinoff_prover]
pub proof fn lemma_nth_day(y: int, m: int, w: int, k: int)
    requires 1 <= m <= 12, 1 <= w <= 7,
    ensures 1 <= nth_first_day(y, m, w) <= 7, wd(rd(y, m, nth_first_day(y, m, w) + 7 * k)) == w,
            0 <= dim(y, m) - nth_last_day(y, m, w) <= 6, wd(rd(y, m, nth_last_day(y, m, w) - 7 * k)) == w,
{
    let e1 = rd(y, m, 1);
    let e2 = rd(y, m, dim(y, m));
    lemma_wd_arith(e1, w, k);
    lemma_wd_arith(e2, w, k);
    assert(rd(y, m, nth_first_day(y, m, w) + 7 * k) == e1 + (w - wd(e1)) % 7 + 7 * k);
    assert(rd(y, m, nth_last_day(y, m, w) - 7 * k) == e2 - (wd(e2) - w) % 7 - 7 * k);
}
#[verifier::spinoff_prover]
pub proof fn lemma_rd_bounds(y: int, m: int, d: int)
    requires in_range_ymd(y, m, d),
    ensures -4371587 <= rd(y, m, d) <= 2932896,
            (rd(y, m, d) == -4371587 <==> (y == -9999 && m == 1 && d == 1)),
            (rd(y, m, d) == 2932896 <==> (y == 9999 && m == 12 && d == 31)),
{
    lemma_rd_epoch();
    if !(y == -9999 && m == 1 && d == 1) { lemma_rd_mono(-9999, 1, 1, y, m, d); }
    if !(y == 9999 && m == 12 && d == 31) { lemma_rd_mono(y, m, d, 9999, 12, 31); }
}
#[verifier::spinoff_prover]
pub proof fn lemma_year_of_rd(y: int, m: int, d: int)
    requires valid_ymd(y, m, d),
    ensures rd(y, 1, 1) <= rd(y, m, d) < rd(y + 1, 1, 1),
{
    lemma_doy_rd(y, m, d); lemma_rd_year(y);
    lemma_dbm(y, m);
}

#[verifier::rlimit(200)]
#[verifier::spinoff_prover]
pub proof fn lemma_mulshift(k: u64)
    requires k <= 36524,
    ensures ({ let n = 4 * k + 3; (2939745 * n) / 4294967296 == n / 1461 }),
            ({ let n = 4 * k + 3; ((2939745 * n) % 4294967296) / 2939745 / 4 == (n % 1461) / 4 }),
{
    assert(k <= 36524 ==> ({ let n = (4 * k + 3) as u64; (2939745 * n) / 4294967296 == n / 1461 })) by (bit_vector);
    assert(k <= 36524 ==> ({ let n = (4 * k + 3) as u64; ((2939745 * n) % 4294967296) / 2939745 / 4 == (n % 1461) / 4 })) by (bit_vector);
}
#[verifier::spinoff_prover]
pub proof fn lemma_month(ny: u32)
    requires ny < 366,
    ensures ({
        let n3 = 2141 * ny + 197913;
        let m = n3 / 65536;
        let d = (n3 % 65536) / 2141;
        3 <= m <= 14 && d <= 30 && ny as int == (153 * (m as int - 3) + 2) / 5 + d as int
        && (m == 14 ==> d <= 28) && ((m == 4 || m == 6 || m == 9 || m == 11) ==> d <= 29)
        && (ny >= 306 <==> m >= 13) && (m == 14 && d == 28 ==> ny == 365)
    }),
{
    assert(ny < 366 ==> ({
        let n3 = (2141 * ny + 197913) as u32;
        let m = n3 / 65536;
        let d = (n3 % 65536) / 2141;
        3 <= m && m <= 14 && d <= 30 && ny == (153 * (m - 3) + 2) / 5 + d
        && (m == 14 ==> d <= 28) && ((m == 4 || m == 6 || m == 9 || m == 11) ==> d <= 29)
        && (ny >= 306 <==> m >= 13) && (m == 14 && d == 28 ==> ny == 365)
    })) by (bit_vector);
}
// q = (4n+3)/P, r = ((4n+3)%P)/4 with P = 4p+1  ==> n == p*q + q/4 + r, and (r == p ==> q%4 == 3)
#[verifier::spinoff_prover]
pub proof fn lemma_cycle(n: int, p: int)
    requires n >= 0, p > 0,
    ensures ({
        let big = 4 * p + 1;
        let q = (4 * n + 3) / big;
        let r = ((4 * n + 3) % big) / 4;
        n == p * q + q / 4 + r && 0 <= r <= p && (r == p ==> q % 4 == 3)
    }),
{
    let big = 4 * p + 1;
    let n1 = 4 * n + 3;
    let q = n1 / big;
    let r1 = n1 % big;
    let r = r1 / 4;
    assert(n1 == big * q + r1) by { vstd::arithmetic::div_mod::lemma_fundamental_div_mod(n1, big); }
    assert(0 <= r1 < big) by { vstd::arithmetic::div_mod::lemma_mod_bound(n1, big); }
    let a = q / 4; let b = q % 4;
    let t = r1 % 4;
    assert(q == 4 * a + b);
    assert(r1 == 4 * r + t);
    assert(big * q == 4 * p * q + q) by (nonlinear_arith) requires big == 4 * p + 1;
    assert(4 * n + 3 == 4 * (p * q) + 4 * a + b + 4 * r + t) by (nonlinear_arith)
        requires n1 == big * q + r1, big * q == 4 * p * q + q, q == 4 * a + b, r1 == 4 * r + t, n1 == 4 * n + 3;
    assert(b + t == 3);
}

/// the arithmetic heart of Neri-Schneider's to_date, over plain integers
#[verifier::spinoff_prover]
pub proof fn lemma_ns_final(e: int, c: int, z: int, ny: int, mm: int, dd: int)
    requires
        -4371587 <= e <= 2932896,
        228 <= c <= 428, 0 <= z <= 99, 0 <= ny <= 365,
        e + 12699422 == 36524 * c + c / 4 + (365 * z + z / 4 + ny),
        3 <= mm <= 14, 0 <= dd <= 30,
        ny == moff(mm) + dd,
        mm == 14 ==> dd <= 28, (mm == 4 || mm == 6 || mm == 9 || mm == 11) ==> dd <= 29,
        (ny >= 306) <==> (mm >= 13),
        mm == 14 && dd == 28 ==> ny == 365,
        // ny == 365 only in the last year of a 4-year cycle, and the 4-year cycle's 1461st day only in the last of a 400-year cycle
        ny == 365 ==> z % 4 == 3,
        (365 * z + z / 4 + ny) == 36524 ==> c % 4 == 3,
    ensures ({
        let yy = 100 * c + z - 32800;
        let j = if ny >= 306 { 1int } else { 0int };
        let year = yy + j;
        let month = if ny >= 306 { mm - 12 } else { mm };
        let day = dd + 1;
        -9999 <= year <= 9999 && valid_ymd(year, month, day) && rd(year, month, day) == e
    }),
{
    let yy = 100 * c + z - 32800;
    let j = if ny >= 306 { 1int } else { 0int };
    let year = yy + j;
    let month = if ny >= 306 { mm - 12 } else { mm };
    let day = dd + 1;
    let big = 100 * c + z;
    assert(big / 4 == 25 * c + z / 4);
    assert(big / 100 == c);
    assert(big / 400 == c / 4);
    assert(yy / 4 == big / 4 - 8200);
    assert(yy / 100 == big / 100 - 328);
    assert(yy / 400 == big / 400 - 82);
    lemma_rd_lin(year, month, day);
    // leap status of the March-based year yy+1 decides whether Feb 29 (mm == 14, dd == 28) exists
    if mm == 14 && dd == 28 {
        let y1 = yy + 1;
        assert(z % 4 == 3);
        assert(y1 % 4 == 0);
        if z == 99 { assert((365 * z + z / 4 + ny) == 36524); assert(c % 4 == 3); assert(y1 % 400 == 0); }
        else { assert(y1 % 100 != 0); }
    }
}

// constants of src/util/t.rs
pub const MONTHS_PER_YEAR: Constant = Constant(12);
pub const NANOS_PER_MICRO: Constant = Constant(1_000);
pub const NANOS_PER_MILLI: Constant = Constant(1_000_000);
pub const NANOS_PER_SECOND: Constant = Constant(1_000_000_000);
pub const NANOS_PER_MINUTE: Constant = Constant(60_000_000_000);
pub const NANOS_PER_HOUR: Constant = Constant(3_600_000_000_000);
pub const NANOS_PER_CIVIL_DAY: Constant = Constant(86_400_000_000_000);
pub const SECONDS_PER_CIVIL_DAY: Constant = Constant(86_400);
pub open spec fn DAY_NS() -> int { 86_400_000_000_000 }

pub trait VerifCtx: Sized { fn verif_with_context(self) -> Self; }
impl<T> VerifCtx for Result<T, Error> {
    #[verifier::external_body]
    fn verif_with_context(self) -> (r: Self) ensures r.is_ok() == self.is_ok(), self.is_ok() ==> r.unwrap() == self.unwrap() { unimplemented!() }
}

// ---- lemmas of lib/itime_views.vrs that do not mention the itime structs (copied: that file cannot be included without IDate)

// ---- opaque callees (contracts proved elsewhere: itime.vrs / Kani c01_civil) ----
pub mod itime {
    use super::*;
    #[verifier::external_body]
    pub fn days_in_month(year: i16, month: i8) -> (r: i8) requires 1 <= month <= 12 ensures r == dim(year as int, month as int) { unimplemented!() }
}
pub open spec fn wdn(w: Weekday) -> int {
    match w { Weekday::Monday => 1, Weekday::Tuesday => 2, Weekday::Wednesday => 3, Weekday::Thursday => 4, Weekday::Friday => 5, Weekday::Saturday => 6, Weekday::Sunday => 7 }
}
impl Weekday {
    #[verifier::external_body]
    pub fn next(self) -> (r: Weekday) ensures wdn(r) == (if wdn(self) == 7 { 1int } else { wdn(self) + 1 }) { unimplemented!() }
    #[verifier::external_body]
    pub fn previous(self) -> (r: Weekday) ensures wdn(r) == (if wdn(self) == 1 { 7int } else { wdn(self) - 1 }) { unimplemented!() }
    /// days from `other` to `self`, 0..=6
    #[verifier::external_body]
    pub fn since_ranged(self, other: Weekday) -> (r: ri8) ensures r.val == (wdn(self) - wdn(other)) % 7 { unimplemented!() }
}
impl Date {
    pub open spec fn wf(&self) -> bool { in_range_ymd(self.year.val as int, self.month.val as int, self.day.val as int) }
    pub open spec fn rd(&self) -> int { rd(self.year.val as int, self.month.val as int, self.day.val as int) }
    pub open spec fn is_next_of(&self, p: &Date) -> bool {
        self.year.val == next_y(p.year.val as int, p.month.val as int, p.day.val as int)
        && self.month.val == next_m(p.year.val as int, p.month.val as int, p.day.val as int)
        && self.day.val == next_d(p.year.val as int, p.month.val as int, p.day.val as int)
    }
    #[verifier::external_body]
    pub fn to_unix_epoch_day(self) -> (r: UnixEpochDay) requires self.wf() ensures r.val == self.rd() { unimplemented!() }
    #[verifier::external_body]
    pub fn from_unix_epoch_day(epoch_day: UnixEpochDay) -> (r: Date) requires in_UnixEpochDay(epoch_day.val as int) ensures r.wf() && r.rd() == epoch_day.val { unimplemented!() }
    #[verifier::external_body]
    pub fn weekday(self) -> (r: Weekday) requires self.wf() ensures wdn(r) == wd(self.rd()) { unimplemented!() }
}
impl vstd::std_specs::cmp::PartialEqSpecImpl for Date {
    open spec fn obeys_eq_spec() -> bool { true }
    open spec fn eq_spec(&self, other: &Date) -> bool { self.day.val == other.day.val && self.month.val == other.month.val && self.year.val == other.year.val }
}

// ---- Span: opaque, with a view of ten signed integers (C12, span.vrs: get_<unit>_ranged returns sign * magnitude) ----
#[verifier::external_body]
#[derive(Clone, Copy)]
pub struct Span { _p: () }
pub uninterp spec fn span_years(s: Span) -> int;
pub uninterp spec fn span_months(s: Span) -> int;
pub uninterp spec fn span_weeks(s: Span) -> int;
pub uninterp spec fn span_days(s: Span) -> int;
pub uninterp spec fn span_hours(s: Span) -> int;
pub uninterp spec fn span_minutes(s: Span) -> int;
pub uninterp spec fn span_seconds(s: Span) -> int;
pub uninterp spec fn span_milliseconds(s: Span) -> int;
pub uninterp spec fn span_microseconds(s: Span) -> int;
pub uninterp spec fn span_nanoseconds(s: Span) -> int;
/// hours..nanoseconds in nanoseconds
pub open spec fn span_time_ns(s: Span) -> int {
    span_hours(s) * 3_600_000_000_000 + span_minutes(s) * 60_000_000_000 + span_seconds(s) * 1_000_000_000
    + span_milliseconds(s) * 1_000_000 + span_microseconds(s) * 1_000 + span_nanoseconds(s)
}
pub open spec fn span_time_zero(s: Span) -> bool {
    span_hours(s) == 0 && span_minutes(s) == 0 && span_seconds(s) == 0 && span_milliseconds(s) == 0 && span_microseconds(s) == 0 && span_nanoseconds(s) == 0
}
pub open spec fn span_cal_zero(s: Span) -> bool { span_years(s) == 0 && span_months(s) == 0 && span_weeks(s) == 0 && span_days(s) == 0 }
/// type invariant of Span (span.vrs: `wf` ==> sv_in_limits(view) && sv_one_sign(view))
pub open spec fn span_wf(s: Span) -> bool {
    &&& in_SpanYears(span_years(s)) && in_SpanMonths(span_months(s)) && in_SpanWeeks(span_weeks(s)) && in_SpanDays(span_days(s))
    &&& in_SpanHours(span_hours(s)) && in_SpanMinutes(span_minutes(s)) && in_SpanSeconds(span_seconds(s))
    &&& in_SpanMilliseconds(span_milliseconds(s)) && in_SpanMicroseconds(span_microseconds(s)) && in_SpanNanoseconds(span_nanoseconds(s))
    &&& ((span_years(s) >= 0 && span_months(s) >= 0 && span_weeks(s) >= 0 && span_days(s) >= 0 && span_hours(s) >= 0 && span_minutes(s) >= 0
          && span_seconds(s) >= 0 && span_milliseconds(s) >= 0 && span_microseconds(s) >= 0 && span_nanoseconds(s) >= 0)
         || (span_years(s) <= 0 && span_months(s) <= 0 && span_weeks(s) <= 0 && span_days(s) <= 0 && span_hours(s) <= 0 && span_minutes(s) <= 0
          && span_seconds(s) <= 0 && span_milliseconds(s) <= 0 && span_microseconds(s) <= 0 && span_nanoseconds(s) <= 0))
}
impl Span {
    #[verifier::external_body]
    pub fn get_years_ranged(&self) -> (r: SpanYears) requires span_wf(*self) ensures r.val == span_years(*self) { unimplemented!() }
    #[verifier::external_body]
    pub fn get_months_ranged(&self) -> (r: SpanMonths) requires span_wf(*self) ensures r.val == span_months(*self) { unimplemented!() }
    #[verifier::external_body]
    pub fn get_weeks_ranged(&self) -> (r: SpanWeeks) requires span_wf(*self) ensures r.val == span_weeks(*self) { unimplemented!() }
    #[verifier::external_body]
    pub fn get_days_ranged(&self) -> (r: SpanDays) requires span_wf(*self) ensures r.val == span_days(*self) { unimplemented!() }
    #[verifier::external_body]
    pub fn get_hours_ranged(&self) -> (r: SpanHours) requires span_wf(*self) ensures r.val == span_hours(*self) { unimplemented!() }
    #[verifier::external_body]
    pub fn get_minutes_ranged(&self) -> (r: SpanMinutes) requires span_wf(*self) ensures r.val == span_minutes(*self) { unimplemented!() }
    #[verifier::external_body]
    pub fn get_seconds_ranged(&self) -> (r: SpanSeconds) requires span_wf(*self) ensures r.val == span_seconds(*self) { unimplemented!() }
    #[verifier::external_body]
    pub fn get_milliseconds_ranged(&self) -> (r: SpanMilliseconds) requires span_wf(*self) ensures r.val == span_milliseconds(*self) { unimplemented!() }
    #[verifier::external_body]
    pub fn get_microseconds_ranged(&self) -> (r: SpanMicroseconds) requires span_wf(*self) ensures r.val == span_microseconds(*self) { unimplemented!() }
    #[verifier::external_body]
    pub fn get_nanoseconds_ranged(&self) -> (r: SpanNanoseconds) requires span_wf(*self) ensures r.val == span_nanoseconds(*self) { unimplemented!() }
    #[verifier::external_body]
    pub fn is_zero(&self) -> (r: bool) requires span_wf(*self) ensures r == (span_cal_zero(*self) && span_time_zero(*self)) { unimplemented!() }
    /// `self.units().contains_only(Unit::Day)`: days is the only non-zero unit
    #[verifier::external_body]
    pub fn verif_units_contains_only_day(&self) -> (r: bool) requires span_wf(*self)
        ensures r == (span_days(*self) != 0 && span_years(*self) == 0 && span_months(*self) == 0 && span_weeks(*self) == 0 && span_time_zero(*self)) { unimplemented!() }
    /// `self.units().only_time().is_empty()`: hours..nanoseconds are all zero
    #[verifier::external_body]
    pub fn verif_units_only_time_is_empty(&self) -> (r: bool) requires span_wf(*self) ensures r == span_time_zero(*self) { unimplemented!() }
    /// weeks, days and the time units in nanoseconds, 24-hour days (years and months are ignored)
    #[verifier::external_body]
    pub fn to_invariant_nanoseconds(&self) -> (r: ri128) requires span_wf(*self)
        ensures r.val == span_time_ns(*self) + span_days(*self) * 86_400_000_000_000 + span_weeks(*self) * 604_800_000_000_000 { unimplemented!() }
    /// Some(error) iff a calendar unit (years..days) is non-zero
    #[verifier::external_body]
    pub fn smallest_non_time_non_zero_unit_error(&self) -> (r: Option<Error>) requires span_wf(*self) ensures r.is_some() <==> !span_cal_zero(*self) { unimplemented!() }
    /// `self.only_lower(Unit::Day).to_invariant_nanoseconds()`
    #[verifier::external_body]
    pub fn verif_only_lower_day_to_invariant_nanoseconds(&self) -> (r: ri128) requires span_wf(*self) ensures r.val == span_time_ns(*self) { unimplemented!() }
}
/// UnitSet (span.vrs): only what DateTime::checked_add_span asks of it -- "no calendar unit is set", "no time unit is set"
#[verifier::external_body]
#[derive(Clone, Copy)]
pub struct UnitSet { _p: () }
impl UnitSet {
    pub uninterp spec fn cal_empty(&self) -> bool;
    pub uninterp spec fn time_empty(&self) -> bool;
    #[verifier::external_body]
    pub fn only_calendar(self) -> (r: UnitSet) ensures r.cal_empty() == self.cal_empty(), r.time_empty() { unimplemented!() }
    #[verifier::external_body]
    pub fn only_time(self) -> (r: UnitSet) ensures r.time_empty() == self.time_empty(), r.cal_empty() { unimplemented!() }
    #[verifier::external_body]
    pub fn is_empty(&self) -> (r: bool) ensures r == (self.cal_empty() && self.time_empty()) { unimplemented!() }
}
impl Span {
    #[verifier::external_body]
    pub fn units(&self) -> (r: UnitSet) requires span_wf(*self) ensures r.cal_empty() == span_cal_zero(*self), r.time_empty() == span_time_zero(*self) { unimplemented!() }
    /// units below `unit` zeroed (contract stated for Unit::Day, the only use here)
    #[verifier::external_body]
    pub fn without_lower(&self, unit: Unit) -> (r: Span) requires span_wf(*self), unit == Unit::Day
        ensures span_wf(r), span_years(r) == span_years(*self), span_months(r) == span_months(*self), span_weeks(r) == span_weeks(*self), span_days(r) == span_days(*self), span_time_zero(r) { unimplemented!() }
    /// units `unit` and above zeroed (contract stated for Unit::Day)
    #[verifier::external_body]
    pub fn only_lower(&self, unit: Unit) -> (r: Span) requires span_wf(*self), unit == Unit::Day
        ensures span_wf(r), span_cal_zero(r), span_hours(r) == span_hours(*self), span_minutes(r) == span_minutes(*self), span_seconds(r) == span_seconds(*self),
                span_milliseconds(r) == span_milliseconds(*self), span_microseconds(r) == span_microseconds(*self), span_nanoseconds(r) == span_nanoseconds(*self) { unimplemented!() }
}
/// `Span::new().days_ranged(d)`
#[verifier::external_body]
pub fn verif_span_days(d: SpanDays) -> (r: Span) requires in_SpanDays(d.val as int)
    ensures span_wf(r), span_days(r) == d.val, span_years(r) == 0, span_months(r) == 0, span_weeks(r) == 0, span_time_zero(r) { unimplemented!() }

// ---- Time: opaque, view = nanoseconds since midnight (accessor facts: Kani group c10_views / itime.vrs) ----
#[verifier::external_body]
#[derive(Clone, Copy)]
pub struct Time { _p: () }
impl Time {
    pub uninterp spec fn nod(&self) -> int;
    pub open spec fn wf(&self) -> bool { 0 <= self.nod() < 86_400_000_000_000 }
    #[verifier::external_body]
    pub fn to_nanosecond(&self) -> (r: CivilDayNanosecond) requires self.wf() ensures r.val == self.nod() { unimplemented!() }
    #[verifier::external_body]
    pub fn from_nanosecond(nanosecond: CivilDayNanosecond) -> (r: Time) requires in_CivilDayNanosecond(nanosecond.val as int) ensures r.nod() == nanosecond.val, r.wf() { unimplemented!() }
    #[verifier::external_body]
    pub fn to_second(&self) -> (r: CivilDaySecond) requires self.wf() ensures r.val == self.nod() / 1_000_000_000 { unimplemented!() }
    #[verifier::external_body]
    pub fn from_second(second: CivilDaySecond) -> (r: Time) requires in_CivilDaySecond(second.val as int) ensures r.nod() == second.val * 1_000_000_000, r.wf() { unimplemented!() }
    #[verifier::external_body]
    pub fn subsec_nanosecond(self) -> (r: i32) requires self.wf() ensures r == self.nod() % 1_000_000_000 { unimplemented!() }
}
#[verifier::external_body]
pub fn verif_i128_try_from_u128(x: u128) -> (r: Result<i128, core::num::TryFromIntError>) ensures r.is_ok() <==> x <= i128::MAX, r.is_ok() ==> r.unwrap() == x { unimplemented!() }
// std::time::Duration: opaque, view = total nanoseconds
#[verifier::external_body]
#[derive(Clone, Copy)]
pub struct UnsignedDuration { _p: () }
impl UnsignedDuration {
    pub uninterp spec fn ns(&self) -> int;
    #[verifier::external_body]
    pub fn as_nanos(&self) -> (r: u128) ensures r == self.ns(), 0 <= self.ns() <= 18_446_744_073_709_551_615 * 1_000_000_000 + 999_999_999 { unimplemented!() }
}
// SignedDuration: the integer core is unit `sdur`
#[derive(Clone, Copy)]
pub struct SignedDuration { pub secs: i64, pub nanos: i32 }
impl SignedDuration {
    pub open spec fn wf(self) -> bool { -999_999_999 <= self.nanos <= 999_999_999 && !(self.secs > 0 && self.nanos < 0) && !(self.secs < 0 && self.nanos > 0) }
    pub open spec fn tot(self) -> int { self.secs as int * 1_000_000_000 + self.nanos as int }
    #[verifier::external_body]
    pub fn as_hours(&self) -> (r: i64) ensures r == tdiv(self.secs as int, 3600) { unimplemented!() }
    #[verifier::external_body]
    pub fn as_secs(&self) -> (r: i64) ensures r == self.secs { unimplemented!() }
    #[verifier::external_body]
    pub fn subsec_nanos(&self) -> (r: i32) ensures r == self.nanos { unimplemented!() }
    #[verifier::external_body]
    pub fn as_nanos(&self) -> (r: i128) requires self.wf() ensures r == self.tot() { unimplemented!() }
    #[verifier::external_body]
    pub fn from_hours(hours: i64) -> (r: SignedDuration) requires i64::MIN <= hours * 3600 <= i64::MAX ensures r.secs == hours * 3600, r.nanos == 0, r.wf() { unimplemented!() }
}

// ---- C08 specification of Date + Span ----
/// year and month after adding years and months with carry
pub open spec fn add_ym_total(m: int, months: int) -> int { (m - 1) + months }
pub open spec fn add_y(y: int, m: int, years: int, months: int) -> int { y + years + add_ym_total(m, months) / 12 }
pub open spec fn add_m(m: int, months: int) -> int { add_ym_total(m, months) % 12 + 1 }
pub open spec fn imin(a: int, b: int) -> int { if a < b { a } else { b } }
/// the day count of the result
pub open spec fn date_add_target(d: Date, s: Span) -> int {
    let y = add_y(d.year.val as int, d.month.val as int, span_years(s), span_months(s));
    let m = add_m(d.month.val as int, span_months(s));
    let dd = imin(d.day.val as int, dim(y, m));
    rd(y, m, dd) + 7 * span_weeks(s) + span_days(s) + tdiv(span_time_ns(s), 86_400_000_000_000)
}
pub open spec fn date_add_ok(d: Date, s: Span) -> bool {
    -9999 <= add_y(d.year.val as int, d.month.val as int, span_years(s), span_months(s)) <= 9999
    && -4371587 <= date_add_target(d, s) <= 2932896
}
/// the nth weekday `w` strictly after (n > 0) / before (n < 0) day e
pub open spec fn nth_weekday_rd(e: int, n: int, w: int) -> int {
    if n > 0 { e + 1 + (w - wd(e + 1)) % 7 + 7 * (n - 1) } else { e - 1 - (wd(e - 1) - w) % 7 - 7 * (-n - 1) }
}
/// signs and sizes of the carries computed from a well-formed (one-sign, within limits) span
#[verifier::spinoff_prover]
pub proof fn lemma_span_carries(s: Span, m: int)
    requires span_wf(s), 1 <= m <= 12,
    ensures ({
        let c = add_ym_total(m, span_months(s)) / 12;
        let t = tdiv(span_time_ns(s), 86_400_000_000_000);
        &&& (span_months(s) >= 0 ==> c >= 0) && (span_months(s) <= 0 ==> c <= 0) && -19998 <= c <= 19998
        &&& (span_time_ns(s) >= 0 ==> t >= 0) && (span_time_ns(s) <= 0 ==> t <= 0) && -40_000_000 < t < 40_000_000
        &&& (span_hours(s) >= 0 && span_minutes(s) >= 0 && span_seconds(s) >= 0 && span_milliseconds(s) >= 0 && span_microseconds(s) >= 0 && span_nanoseconds(s) >= 0 ==> span_time_ns(s) >= 0)
        &&& (span_hours(s) <= 0 && span_minutes(s) <= 0 && span_seconds(s) <= 0 && span_milliseconds(s) <= 0 && span_microseconds(s) <= 0 && span_nanoseconds(s) <= 0 ==> span_time_ns(s) <= 0)
        &&& (span_time_zero(s) ==> t == 0)
        &&& -0x4000_0000_0000_0000_0000 <= span_time_ns(s) <= 0x4000_0000_0000_0000_0000
    }),
{
}
/// weekday of the neighbouring day numbers
#[verifier::spinoff_prover]
pub proof fn lemma_wd_step(e: int)
    ensures 1 <= wd(e) <= 7,
            wd(e + 1) == (if wd(e) == 7 { 1int } else { wd(e) + 1 }), wd(e - 1) == (if wd(e) == 1 { 7int } else { wd(e) - 1 }),
{
    let a = (e + 3) % 7; let q = (e + 3) / 7;
    vstd::arithmetic::div_mod::lemma_fundamental_div_mod(e + 3, 7);
    vstd::arithmetic::div_mod::lemma_mod_bound(e + 3, 7);
    assert(e + 3 == 7 * q + a && 0 <= a < 7);
    if a == 6 { lemma_mod7(e + 1 + 3, q + 1, 0); } else { lemma_mod7(e + 1 + 3, q, a + 1); }
    if a == 0 { lemma_mod7(e - 1 + 3, q - 1, 6); } else { lemma_mod7(e - 1 + 3, q, a - 1); }
}
#[verifier::spinoff_prover]
pub proof fn lemma_nth(e: int, n: int, w: int)
    requires 1 <= w <= 7, n != 0,
    ensures wd(nth_weekday_rd(e, n, w)) == w, 1 <= wd(e) <= 7,
            wd(e + 1) == (if wd(e) == 7 { 1int } else { wd(e) + 1 }), wd(e - 1) == (if wd(e) == 1 { 7int } else { wd(e) - 1 }),
            0 <= (w - wd(e + 1)) % 7 <= 6, 0 <= (wd(e - 1) - w) % 7 <= 6,
{
    lemma_wd_step(e);
    lemma_wd_arith(e + 1, w, n - 1); lemma_wd_arith(e - 1, w, -n - 1);
    if n > 0 {
        assert(nth_weekday_rd(e, n, w) == (e + 1) + (w - wd(e + 1)) % 7 + 7 * (n - 1));
    } else {
        assert(nth_weekday_rd(e, n, w) == (e - 1) - (wd(e - 1) - w) % 7 - 7 * (-n - 1));
    }
}
#[verifier::spinoff_prover]
pub proof fn lemma_tdiv_chain(s: int)
    ensures tdiv(tdiv(s, 3600), 24) == tdiv(s, 86400),
{
    if s >= 0 {
        vstd::arithmetic::div_mod::lemma_div_denominator(s, 3600, 24);
    } else {
        vstd::arithmetic::div_mod::lemma_div_denominator(-s, 3600, 24);
    }
}
/// clamping the day to the target month's length gives a valid date
pub proof fn lemma_clamp_valid(y0: int, m0: int, d0: int, y: int, m: int)
    requires in_range_ymd(y0, m0, d0), -9999 <= y <= 9999, 1 <= m <= 12,
    ensures in_range_ymd(y, m, imin(d0, dim(y, m))),
{}
pub proof fn lemma_wrap64_id(x: int)
    requires i64::MIN <= x <= i64::MAX,
    ensures wrap64(x) == x,
{}
impl DateTime {
    pub open spec fn wf(&self) -> bool { self.date.wf() && self.time.wf() }
    /// nanoseconds since 1970-01-01T00:00:00 on the civil timeline
    pub open spec fn civil_ns(&self) -> int { self.date.rd() * 86_400_000_000_000 + self.time.nod() }
}
/// C08: the datetime sum on day counts and nanoseconds of day
pub open spec fn dt_add_total(dt: DateTime, s: Span) -> int {
    let y = add_y(dt.date.year.val as int, dt.date.month.val as int, span_years(s), span_months(s));
    let m = add_m(dt.date.month.val as int, span_months(s));
    let dd = imin(dt.date.day.val as int, dim(y, m));
    (rd(y, m, dd) + 7 * span_weeks(s) + span_days(s)) * 86_400_000_000_000 + dt.time.nod() + span_time_ns(s)
}
pub open spec fn dt_add_ok(dt: DateTime, s: Span) -> bool {
    -9999 <= add_y(dt.date.year.val as int, dt.date.month.val as int, span_years(s), span_months(s)) <= 9999
    && -4371587 <= dt_add_total(dt, s) / 86_400_000_000_000 <= 2932896
}
/// seconds arithmetic == nanoseconds arithmetic when both operands are whole seconds
#[verifier::spinoff_prover]
pub proof fn lemma_secs_ns(k: int)
    ensures (k * 1_000_000_000) / 86_400_000_000_000 == k / 86_400, (k * 1_000_000_000) % 86_400_000_000_000 == (k % 86_400) * 1_000_000_000,
{
    let q = k / 86_400; let r = k % 86_400;
    assert(k * 1_000_000_000 == 86_400_000_000_000 * q + r * 1_000_000_000);
    vstd::arithmetic::div_mod::lemma_fundamental_div_mod_converse(k * 1_000_000_000, 86_400_000_000_000, q, r * 1_000_000_000);
}

// ==== extracted from /repo ====
#[derive(Clone, Copy, Debug, Eq, PartialEq, Structural)]


pub enum Weekday {
    Monday = 1,
    Tuesday = 2,
    Wednesday = 3,
    Thursday = 4,
    Friday = 5,
    Saturday = 6,
    Sunday = 7,
}

#[derive(Clone, Copy, Debug, Eq, PartialEq, Structural)]
pub enum Unit {
    
    
    Year = 9,
    
    
    Month = 8,
    
    Week = 7,
    
    
    Day = 6,
    
    Hour = 5,
    
    
    Minute = 4,
    
    Second = 3,
    
    Millisecond = 2,
    
    Microsecond = 1,
    
    Nanosecond = 0,
}

#[derive(Clone, Copy)]
pub struct Date {
    pub year: Year,
    pub month: Month,
    pub day: Day,
}

impl PartialEq for Date {
// @fn <Date as PartialEq>::eq @src src/civil/date.rs:2227

    fn eq(&self, other: &Date) -> bool
{
        
        
        
        self.day.get() == other.day.get()
            && self.month.get() == other.month.get()
            && self.year.get() == other.year.get()
    }
}

impl Date {
// @fn Date::new_ranged_unchecked @src src/civil/date.rs:2125
#[verifier::spinoff_prover]

    pub fn new_ranged_unchecked(
        year: Year,
        month: Month,
        day: Day,
    ) -> (r: Date)
    ensures
        r.year == year, r.month == month, r.day == day,
{
        Date { year, month, day }
    }
}

impl Date {
// @fn Date::year_ranged @src src/civil/date.rs:2142
#[verifier::spinoff_prover]

    pub fn verif_try_checked_add_year_ranged<R: RInto<Year>>(x: Year, rhs: R) -> (res: Result<Year, Error>) requires rhs.rinto_req() ensures res.is_ok() <==> in_Year(x.val + rhs.rinto_spec().val), res.is_ok() ==> res.unwrap().val == x.val + rhs.rinto_spec().val { verif_try_checked_add_Year(x, rhs) } pub fn verif_try_checked_sub_year_ranged<R: RInto<Year>>(x: Year, rhs: R) -> (res: Result<Year, Error>) requires rhs.rinto_req() ensures res.is_ok() <==> in_Year(x.val - rhs.rinto_spec().val), res.is_ok() ==> res.unwrap().val == x.val - rhs.rinto_spec().val { verif_try_checked_sub_Year(x, rhs) } pub fn year_ranged(self) -> (r: Year)
    ensures
        r == self.year,
{
        self.year
    }
}

impl Date {
// @fn Date::month_ranged @src src/civil/date.rs:2147
#[verifier::spinoff_prover]

    pub fn month_ranged(self) -> (r: Month)
    ensures
        r == self.month,
{
        self.month
    }
}

impl Date {
// @fn Date::day_ranged @src src/civil/date.rs:2152
#[verifier::spinoff_prover]

    pub fn day_ranged(self) -> (r: Day)
    ensures
        r == self.day,
{
        self.day
    }
}

impl Date {
// @fn Date::days_in_month_ranged @src src/civil/date.rs:2157
#[verifier::spinoff_prover]

    pub fn days_in_month_ranged(self) -> (r: Day)
    requires
        1 <= self.month.val <= 12,
    ensures
        r.val == dim(self.year.val as int, self.month.val as int),
{
        days_in_month(self.year_ranged(), self.month_ranged())
    }
}

impl Date {
// @fn Date::month @src src/civil/date.rs:500
#[verifier::spinoff_prover]

    pub fn month(self) -> (r: i8)
    ensures
        r == self.month.val,
{
        self.month_ranged().get()
    }
}

impl Date {
// @fn Date::day @src src/civil/date.rs:517
#[verifier::spinoff_prover]

    pub fn day(self) -> (r: i8)
    ensures
        r == self.day.val,
{
        self.day_ranged().get()
    }
}

impl Date {
// @fn Date::days_in_month @src src/civil/date.rs:674

    pub fn days_in_month(self) -> (r: i8) requires 1 <= self.month.val <= 12 ensures r == dim(self.year.val as int, self.month.val as int)
{
        self.days_in_month_ranged().get()
    }
}

// @fn saturate_day_in_month @src src/civil/date.rs:3658
#[verifier::spinoff_prover]

pub fn saturate_day_in_month(year: Year, month: Month, day: Day) -> (r: Day)
    requires
        1 <= month.val <= 12,
    ensures
        r.val == imin(day.val as int, dim(year.val as int, month.val as int)),
{
    day.min(days_in_month(year, month))
}

// @fn month_add_overflowing @src src/civil/date.rs:3641
#[verifier::spinoff_prover]
pub fn month_add_overflowing(
    month: Month,
    span: SpanMonths,
) -> (r: (Month, SpanYears))
    requires
        1 <= month.val <= 12, in_SpanMonths(span.val as int),
    ensures
        1 <= r.0.val <= 12,
    r.1.val * 12 + r.0.val - 1 == (month.val - 1) + span.val,
    r.1.val == add_ym_total(month.val as int, span.val as int) / 12, r.0.val == add_m(month.val as int, span.val as int),
{
    let month = SpanMonths::rfrom(month);
    let total = month - C(1) + span;
    let years = total / C(12);
    let month = (total % C(12)) + C(1);
    (month.rinto(), years.rinto())
}

// @fn month_add_one @src src/civil/date.rs:3617
#[verifier::spinoff_prover]
pub fn month_add_one(
    year0: Year,
    month0: Month,
    delta: Sign,
) -> (r: Result<(Year, Month), Error>)
    requires
        in_Year(year0.val as int), 1 <= month0.val <= 12, -1 <= delta.val <= 1,
    ensures
        r.is_ok() <==> -9999 * 12 <= year0.val * 12 + (month0.val - 1) + delta.val <= 9999 * 12 + 11,
    r.is_ok() ==> 1 <= r.unwrap().1.val <= 12 && r.unwrap().0.val * 12 + (r.unwrap().1.val - 1) == year0.val * 12 + (month0.val - 1) + delta.val,
{
    let mut year = year0; let mut month = month0;

    month += delta;
    if month < C(1) {
        year -= C(1);
        month += MONTHS_PER_YEAR;
    } else if month > MONTHS_PER_YEAR {
        year += C(1);
        month -= MONTHS_PER_YEAR;
    }
    let year = verif_try_rfrom_Year_16(year)?;
    let month = verif_try_rfrom_Month_8(month)?;
    Ok((year, month))
}

impl Date {
// @fn Date::constrain_ranged @src src/civil/date.rs:2134
#[verifier::spinoff_prover]

    pub fn constrain_ranged(year: Year, month: Month, day: Day) -> (r: Date)
    requires
        in_Year(year.val as int), 1 <= month.val <= 12, 1 <= day.val <= 31,
    ensures
        r.wf(), r.year == year, r.month == month, r.day.val == imin(day.val as int, dim(year.val as int, month.val as int)),
{
        let (year, month, mut day) =
            (year.rinto(), month.rinto(), day.rinto());
        day = saturate_day_in_month(year, month, day);
        Date { year, month, day }
    }
}

impl Date {
// @fn Date::tomorrow @src src/civil/date.rs:777
#[verifier::spinoff_prover]

    pub fn tomorrow(self) -> (r: Result<Date, Error>)
    requires
        self.wf(),
    ensures
        r.is_ok() <==> !(self.year.val == 9999 && self.month.val == 12 && self.day.val == 31),
    r.is_ok() <==> self.rd() + 1 <= 2932896,
    r.is_ok() ==> r.unwrap().wf() && r.unwrap().is_next_of(&self) && r.unwrap().rd() == self.rd() + 1,
{
        proof { lemma_rd_succ(self.year.val as int, self.month.val as int, self.day.val as int); lemma_rd_bounds(self.year.val as int, self.month.val as int, self.day.val as int); }

        if self.day() >= 28 && self.day() == self.days_in_month() {
            if self.month() == 12 {
                let year = Date::verif_try_checked_add_year_ranged(self.year_ranged(),C(1))?;
                let month = Month::new_unchecked(1);
                let day = Day::new_unchecked(1);
                return Ok(Date::new_ranged_unchecked(year, month, day));
            }
            let year = self.year_ranged();
            let month = Month::new_unchecked(self.month() + 1);
            let day = Day::new_unchecked(1);
            return Ok(Date::new_ranged_unchecked(year, month, day));
        }
        let year = self.year_ranged();
        let month = self.month_ranged();
        let day = Day::new_unchecked(self.day() + 1);
        Ok(Date::new_ranged_unchecked(year, month, day))
    }
}

impl Date {
// @fn Date::yesterday @src src/civil/date.rs:816
#[verifier::spinoff_prover]

    pub fn yesterday(self) -> (r: Result<Date, Error>)
    requires
        self.wf(),
    ensures
        r.is_ok() <==> !(self.year.val == -9999 && self.month.val == 1 && self.day.val == 1),
    r.is_ok() <==> self.rd() - 1 >= -4371587,
    r.is_ok() ==> r.unwrap().wf() && self.is_next_of(&r.unwrap()) && r.unwrap().rd() == self.rd() - 1,
{
        proof { lemma_rd_pred(self.year.val as int, self.month.val as int, self.day.val as int); lemma_rd_bounds(self.year.val as int, self.month.val as int, self.day.val as int); }

        if self.day() == 1 {
            if self.month() == 1 {
                let year = Date::verif_try_checked_sub_year_ranged(self.year_ranged(),C(1))?;
                let month = Month::new_unchecked(12);
                let day = Day::new_unchecked(31);
                return Ok(Date::new_ranged_unchecked(year, month, day));
            }
            let year = self.year_ranged();
            let month = Month::new_unchecked(self.month() - 1);
            let day = days_in_month(year, month);
            return Ok(Date::new_ranged_unchecked(year, month, day));
        }
        let year = self.year_ranged();
        let month = self.month_ranged();
        let day = Day::new_unchecked(self.day() - 1);
        Ok(Date::new_ranged_unchecked(year, month, day))
    }
}

impl Date {
// @fn Date::until_days_ranged @src src/civil/date.rs:2162
#[verifier::spinoff_prover]

    pub fn until_days_ranged(self, other: Date) -> (r: SpanDays)
    requires
        self.wf(), other.wf(),
    ensures
        r.val == other.rd() - self.rd(),
{
        if self == other {
            return C(0).rinto();
        }
        let start = self.to_unix_epoch_day();
        let end = other.to_unix_epoch_day();
        (end - start).rinto()
    }
}

impl Date {
// @fn Date::checked_add_span @src src/civil/date.rs:1460
#[verifier::spinoff_prover]

    pub fn checked_add_span(self, span: Span) -> (r: Result<Date, Error>)
    requires
        self.wf(), span_wf(span),
    ensures
        r.is_ok() <==> date_add_ok(self, span),
    r.is_ok() ==> r.unwrap().wf() && r.unwrap().rd() == date_add_target(self, span),
{
        hide(rd);
        proof {
            lemma_span_carries(span, self.month.val as int);
            lemma_rd_bounds(self.year.val as int, self.month.val as int, self.day.val as int);
        }

        if span.is_zero() {
            return Ok(self);
        }
        if span.verif_units_contains_only_day() {
            let span_days = span.get_days_ranged();
            return if span_days == C(-1) {
                self.yesterday()
            } else if span_days == C(1) {
                self.tomorrow()
            } else {
                let epoch_days = self.to_unix_epoch_day();
                let days = epoch_days.verif_m_try_checked_add_UnixEpochDay(
                    UnixEpochDay::rfrom(span.get_days_ranged()),
                )?;
                Ok(Date::from_unix_epoch_day(days))
            };
        }

        let (month, years) =
            month_add_overflowing(self.month, span.get_months_ranged());
        let year = self
            .year
            .verif_m_try_checked_add_Year( years)?
            .verif_m_try_checked_add_Year( span.get_years_ranged())?;
        let date = Date::constrain_ranged(year, month, self.day);
        let epoch_days = date.to_unix_epoch_day();
        proof {
            let y = add_y(self.year.val as int, self.month.val as int, span_years(span), span_months(span));
            let m = add_m(self.month.val as int, span_months(span));
            assert(year.val == y && month.val == m);
            assert(epoch_days.val == rd(y, m, imin(self.day.val as int, dim(y, m))));
            lemma_rd_bounds(y, m, imin(self.day.val as int, dim(y, m)));
            let t = tdiv(span_time_ns(span), 86_400_000_000_000);
            assert(date_add_target(self, span) == epoch_days.val + 7 * span_weeks(span) + span_days(span) + t);
            if span_weeks(span) > 0 || span_days(span) > 0 || t > 0 { assert(span_weeks(span) >= 0 && span_days(span) >= 0 && t >= 0); }
            if span_weeks(span) < 0 || span_days(span) < 0 || t < 0 { assert(span_weeks(span) <= 0 && span_days(span) <= 0 && t <= 0); }
        }

        let mut days = epoch_days.verif_m_try_checked_add_UnixEpochDay(
                C(7) * UnixEpochDay::rfrom(span.get_weeks_ranged()),
            )?.verif_m_try_checked_add_UnixEpochDay(
                UnixEpochDay::rfrom(span.get_days_ranged()),
            )?;
        if !span.verif_units_only_time_is_empty() {
            let time_days = span.verif_only_lower_day_to_invariant_nanoseconds()
                .div_ceil(NANOS_PER_CIVIL_DAY);
            days = days.verif_m_try_checked_add_UnixEpochDay( time_days)?;
        }
        Ok(Date::from_unix_epoch_day(days))
    }
}

impl Date {
// @fn Date::checked_add_duration @src src/civil/date.rs:1508
#[verifier::spinoff_prover]

    pub fn checked_add_duration(
        self,
        duration: SignedDuration,
    ) -> (r: Result<Date, Error>)
    requires
        self.wf(),
    ensures
        r.is_ok() <==> -4371587 <= self.rd() + tdiv(duration.secs as int, 86400) <= 2932896,
    r.is_ok() ==> r.unwrap().wf() && r.unwrap().rd() == self.rd() + tdiv(duration.secs as int, 86400),
{
        proof { lemma_tdiv_chain(duration.secs as int); lemma_rd_bounds(self.year.val as int, self.month.val as int, self.day.val as int); }

        
        match duration.as_hours() / 24 {
            0 => Ok(self),
            -1 => self.yesterday(),
            1 => self.tomorrow(),
            days => {
                let days = verif_try_new_SpanDays(days).verif_with_context()?;
                let days = self.to_unix_epoch_day().verif_m_try_checked_add_UnixEpochDay( UnixEpochDay::rfrom(days))?;
                Ok(Date::from_unix_epoch_day(days))
            }
        }
    }
}

impl Date {
// @fn Date::nth_weekday @src src/civil/date.rs:1051
#[verifier::spinoff_prover]

    pub fn nth_weekday(
        self,
        nth: i32,
        weekday: Weekday,
    ) -> (r: Result<Date, Error>)
    requires
        self.wf(), nth != 1043498 && nth != -1043498,
    ensures
        r.is_ok() <==> nth != 0 && -4371587 <= nth_weekday_rd(self.rd(), nth as int, wdn(weekday)) <= 2932896,
    r.is_ok() ==> r.unwrap().wf() && r.unwrap().rd() == nth_weekday_rd(self.rd(), nth as int, wdn(weekday)) && wd(r.unwrap().rd()) == wdn(weekday),
{
        hide(rd); hide(wd);
        proof {
            lemma_rd_bounds(self.year.val as int, self.month.val as int, self.day.val as int);
            assert(1 <= wdn(weekday) <= 7);
            if nth != 0 { lemma_nth(self.rd(), nth as int, wdn(weekday)); }
        }

        

        let nth = verif_try_new_SpanWeeks(nth as i64)?;
        if nth == C(0) {
            Err(verif_err())
        } else if nth > C(0) {
            let nth = nth.max(C(1));
            let weekday_diff = weekday.since_ranged(self.weekday().next());
            let diff = (nth - C(1)) * C(7) + weekday_diff;
            let start = self.tomorrow()?.to_unix_epoch_day();
            let end = start.verif_m_try_checked_add_UnixEpochDay( diff)?;
            Ok(Date::from_unix_epoch_day(end))
        } else {
            let nth: SpanWeeks = nth.min(C(-1)).abs();
            let weekday_diff = self.weekday().previous().since_ranged(weekday);
            let diff = (nth - C(1)) * C(7) + weekday_diff;
            let start = self.yesterday()?.to_unix_epoch_day();
            let end = start.verif_m_try_checked_sub_UnixEpochDay( diff)?;
            Ok(Date::from_unix_epoch_day(end))
        }
    }
}

// @fn days_in_month @src src/civil/date.rs:3667
#[verifier::spinoff_prover]

pub fn days_in_month(year: Year, month: Month) -> (r: Day)
    requires
        1 <= month.val <= 12,
    ensures
        r.val == dim(year.val as int, month.val as int),
{
    let c = Composite { val: { let year = year.val; let month = month.val; itime::days_in_month(year, month) } };
    c.to_rint()
}

impl Time {
// @fn Time::wrapping_add_span @src src/civil/time.rs:709
#[verifier::spinoff_prover]

    pub fn wrapping_add_span(self, span: Span) -> (r: Time)
    requires
        self.wf(), span_wf(span),
    ensures
        r.wf(), r.nod() == (self.nod() + span_time_ns(span)) % 86_400_000_000_000,
{
        proof {
            // exactness of the 64-bit computation: every product and partial sum must be representable (2^64 is not a multiple of 24 h)
            assert(i64::MIN <= span_hours(span) * 3_600_000_000_000 <= i64::MAX);
            assert(i64::MIN <= span_minutes(span) * 60_000_000_000 <= i64::MAX);
            assert(i64::MIN <= span_seconds(span) * 1_000_000_000 <= i64::MAX);
            assert(i64::MIN <= span_milliseconds(span) * 1_000_000 <= i64::MAX);
            assert(i64::MIN <= span_microseconds(span) * 1_000 <= i64::MAX);
            assert(i64::MIN <= self.nod() + span_time_ns(span) <= i64::MAX);
            // given those, the rest is exact: no operation wraps
            let n = self.nod();
            let h = span_hours(span) * 3_600_000_000_000; let mi = span_minutes(span) * 60_000_000_000; let se = span_seconds(span) * 1_000_000_000;
            let ms = span_milliseconds(span) * 1_000_000; let us = span_microseconds(span) * 1_000; let ns = span_nanoseconds(span);
            lemma_wrap64_id(h); lemma_wrap64_id(mi); lemma_wrap64_id(se); lemma_wrap64_id(ms); lemma_wrap64_id(us);
            lemma_wrap64_id(n + h); lemma_wrap64_id(n + h + mi); lemma_wrap64_id(n + h + mi + se); lemma_wrap64_id(n + h + mi + se + ms);
            lemma_wrap64_id(n + h + mi + se + ms + us); lemma_wrap64_id(n + h + mi + se + ms + us + ns);
        }

        let mut sum = self.to_nanosecond().verif_without_bounds64();
        sum = sum.wrapping_add(
            span.get_hours_ranged()
                .verif_without_bounds64()
                .wrapping_mul(NANOS_PER_HOUR),
        );
        sum = sum.wrapping_add(
            span.get_minutes_ranged()
                .verif_without_bounds64()
                .wrapping_mul(NANOS_PER_MINUTE),
        );
        sum = sum.wrapping_add(
            span.get_seconds_ranged()
                .verif_without_bounds64()
                .wrapping_mul(NANOS_PER_SECOND),
        );
        sum = sum.wrapping_add(
            span.get_milliseconds_ranged()
                .verif_without_bounds64()
                .wrapping_mul(NANOS_PER_MILLI),
        );
        sum = sum.wrapping_add(
            span.get_microseconds_ranged()
                .verif_without_bounds64()
                .wrapping_mul(NANOS_PER_MICRO),
        );
        sum = sum.wrapping_add(span.get_nanoseconds_ranged().verif_without_bounds64());
        let civil_day_nanosecond = sum % NANOS_PER_CIVIL_DAY;
        Time::from_nanosecond(civil_day_nanosecond.rinto())
    }
}

impl Time {
// @fn Time::wrapping_add_signed_duration @src src/civil/time.rs:742
#[verifier::spinoff_prover]

    pub fn wrapping_add_signed_duration(self, duration: SignedDuration) -> (r: Time)
    requires
        self.wf(), duration.wf(),
    ensures
        r.wf(), r.nod() == (self.nod() + duration.tot()) % 86_400_000_000_000,
{
        let start = NoUnits128::rfrom(self.to_nanosecond());
        let duration = NoUnits128::new_unchecked(duration.as_nanos());
        let end = start.wrapping_add(duration) % NANOS_PER_CIVIL_DAY;
        Time::from_nanosecond(end.rinto())
    }
}

impl Time {
// @fn Time::wrapping_add_unsigned_duration @src src/civil/time.rs:750
#[verifier::spinoff_prover]

    pub fn wrapping_add_unsigned_duration(
        self,
        duration: UnsignedDuration,
    ) -> (r: Time)
    requires
        self.wf(),
    ensures
        r.wf(), r.nod() == (self.nod() + duration.ns()) % 86_400_000_000_000,
{
        let start = NoUnits128::rfrom(self.to_nanosecond());
        
        let duration = verif_i128_try_from_u128(duration.as_nanos()).unwrap();
        let duration = NoUnits128::new_unchecked(duration);
        let duration = duration % NANOS_PER_CIVIL_DAY;
        let end = start.wrapping_add(duration) % NANOS_PER_CIVIL_DAY;
        Time::from_nanosecond(end.rinto())
    }
}

impl Time {
// @fn Time::wrapping_sub_unsigned_duration @src src/civil/time.rs:805
#[verifier::spinoff_prover]

    pub fn wrapping_sub_unsigned_duration(
        self,
        duration: UnsignedDuration,
    ) -> (r: Time)
    requires
        self.wf(),
    ensures
        r.wf(), r.nod() == (self.nod() - duration.ns()) % 86_400_000_000_000,
{
        let start = NoUnits128::rfrom(self.to_nanosecond());
        
        let duration = verif_i128_try_from_u128(duration.as_nanos()).unwrap();
        let duration = NoUnits128::new_unchecked(duration);
        let end = start.wrapping_sub(duration) % NANOS_PER_CIVIL_DAY;
        Time::from_nanosecond(end.rinto())
    }
}

impl Time {
// @fn Time::checked_add_span @src src/civil/time.rs:940
#[verifier::spinoff_prover]

    pub fn checked_add_span(self, span: Span) -> (r: Result<Time, Error>)
    requires
        self.wf(), span_wf(span),
    ensures
        r.is_ok() <==> span_cal_zero(span) && 0 <= self.nod() + span_time_ns(span) < 86_400_000_000_000,
    r.is_ok() ==> r.unwrap().wf() && r.unwrap().nod() == self.nod() + span_time_ns(span),
{
        let (time, span) = self.overflowing_add(span)?;
        if let Some(err) = span.smallest_non_time_non_zero_unit_error() {
            return Err(err);
        }
        Ok(time)
    }
}

impl Time {
// @fn Time::checked_add_duration @src src/civil/time.rs:949
#[verifier::spinoff_prover]

    pub fn checked_add_duration(
        self,
        duration: SignedDuration,
    ) -> (r: Result<Time, Error>)
    requires
        self.wf(), duration.wf(),
    ensures
        r.is_ok() <==> 0 <= self.nod() + duration.tot() < 86_400_000_000_000,
    r.is_ok() ==> r.unwrap().wf() && r.unwrap().nod() == self.nod() + duration.tot(),
{
        let original = duration;
        let start = NoUnits128::rfrom(self.to_nanosecond());
        let duration = NoUnits128::new_unchecked(duration.as_nanos());
        
        
        
        let end = verif_try_checked_add_NoUnits128(start,duration).unwrap();
        let end = verif_try_rfrom_CivilDayNanosecond_128(end)
            .verif_with_context()?;
        Ok(Time::from_nanosecond(end))
    }
}

impl Time {
// @fn Time::overflowing_add @src src/civil/time.rs:1101
#[verifier::spinoff_prover]

    pub fn overflowing_add(
        self,
        span: Span,
    ) -> (r: Result<(Time, Span), Error>)
    requires
        self.wf(), span_wf(span),
    ensures
        r.is_ok() <==> span_cal_zero(span) && in_SpanDays((self.nod() + span_time_ns(span)) / 86_400_000_000_000),
    r.is_ok() ==> r.unwrap().0.wf() && r.unwrap().0.nod() == (self.nod() + span_time_ns(span)) % 86_400_000_000_000
        && span_wf(r.unwrap().1) && span_days(r.unwrap().1) == (self.nod() + span_time_ns(span)) / 86_400_000_000_000
        && span_years(r.unwrap().1) == 0 && span_months(r.unwrap().1) == 0 && span_weeks(r.unwrap().1) == 0 && span_time_zero(r.unwrap().1),
{
        proof { lemma_span_carries(span, 1); }

        if let Some(err) = span.smallest_non_time_non_zero_unit_error() {
            return Err(err);
        }
        let span_nanos = span.to_invariant_nanoseconds();
        let time_nanos = self.to_nanosecond();
        let sum = span_nanos + time_nanos;
        proof {
            // the floor quotient by one civil day of a value within +-2^78 + one day fits an i64 by a wide margin
            let v = sum.val as int;
            assert(-0x4000_0000_0000_0000_0000 <= v <= 0x4000_0000_0000_0000_0000 + 86_400_000_000_000);
            assert(-4_000_000_000 <= v / 86_400_000_000_000 <= 4_000_000_000);
        }

        let days = verif_try_new_SpanDays(sum.div_floor(NANOS_PER_CIVIL_DAY).verif_into_i64())?;
        let time_nanos = sum.rem_floor(NANOS_PER_CIVIL_DAY);
        let time = Time::from_nanosecond(time_nanos.rinto());
        Ok((time, verif_span_days(days)))
    }
}

impl Time {
// @fn Time::overflowing_add_duration @src src/civil/time.rs:1125
#[verifier::spinoff_prover]

    pub fn overflowing_add_duration(
        self,
        duration: SignedDuration,
    ) -> (r: Result<(Time, SignedDuration), Error>)
    requires
        self.wf(), duration.wf(),
    ensures
        r.is_ok() <==> in_SpanDays((self.nod() + duration.tot()) / 86_400_000_000_000),
    r.is_ok() ==> r.unwrap().0.wf() && r.unwrap().0.nod() == (self.nod() + duration.tot()) % 86_400_000_000_000
        && r.unwrap().1.wf() && r.unwrap().1.nanos == 0 && r.unwrap().1.secs == ((self.nod() + duration.tot()) / 86_400_000_000_000) * 86_400,
{
        if self.subsec_nanosecond() != 0 || duration.subsec_nanos() != 0 {
            return self.overflowing_add_duration_general(duration);
        }
        let start = NoUnits::rfrom(self.to_second());
        let duration_secs = NoUnits::new_unchecked(duration.as_secs());
        proof { lemma_secs_ns(start.val as int + duration_secs.val as int); }

        
        
        
        let Some(sum) = verif_checked_add_NoUnits(start,duration_secs) else {
            return self.overflowing_add_duration_general(duration);
        };
        let days = verif_try_new_SpanDays(sum.div_floor(SECONDS_PER_CIVIL_DAY).verif_into_i64())?;
        let time_secs = sum.rem_floor(SECONDS_PER_CIVIL_DAY);
        let time = Time::from_second(time_secs.rinto());
        
        let hours = days.verif_into_i64().checked_mul(24).unwrap();
        Ok((time, SignedDuration::from_hours(hours)))
    }
}

impl Time {
// @fn Time::overflowing_add_duration_general @src src/civil/time.rs:1157
#[verifier::spinoff_prover]

    
    pub fn overflowing_add_duration_general(
        self,
        duration: SignedDuration,
    ) -> (r: Result<(Time, SignedDuration), Error>)
    requires
        self.wf(), duration.wf(),
    ensures
        r.is_ok() <==> in_SpanDays((self.nod() + duration.tot()) / 86_400_000_000_000),
    r.is_ok() ==> r.unwrap().0.wf() && r.unwrap().0.nod() == (self.nod() + duration.tot()) % 86_400_000_000_000
        && r.unwrap().1.wf() && r.unwrap().1.nanos == 0 && r.unwrap().1.secs == ((self.nod() + duration.tot()) / 86_400_000_000_000) * 86_400,
{
        let start = NoUnits128::rfrom(self.to_nanosecond());
        let duration = NoUnits96::new_unchecked(duration.as_nanos());
        
        
        
        let sum = verif_try_checked_add_NoUnits128(start,duration).unwrap();
        let days = verif_try_new_SpanDays(sum.div_floor(NANOS_PER_CIVIL_DAY).verif_into_i64())?;
        let time_nanos = sum.rem_floor(NANOS_PER_CIVIL_DAY);
        let time = Time::from_nanosecond(time_nanos.rinto());
        
        let hours = days.verif_into_i64().checked_mul(24).unwrap();
        Ok((time, SignedDuration::from_hours(hours)))
    }
}

#[derive(Clone, Copy)] pub struct DateTime {
    pub date: Date,
    pub time: Time,
}


impl DateTime {
// @fn DateTime::from_parts @src src/civil/datetime.rs:407
#[verifier::spinoff_prover]

    pub const fn from_parts(date: Date, time: Time) -> (r: DateTime)
    ensures
        r.date == date, r.time == time,
{
        DateTime { date, time }
    }
}

impl DateTime {
// @fn DateTime::date @src src/civil/datetime.rs:1242
#[verifier::spinoff_prover]

    pub fn date(self) -> (r: Date)
    ensures
        r == self.date,
{
        self.date
    }
}

impl DateTime {
// @fn DateTime::time @src src/civil/datetime.rs:1257
#[verifier::spinoff_prover]

    pub fn time(self) -> (r: Time)
    ensures
        r == self.time,
{
        self.time
    }
}

impl DateTime {
// @fn DateTime::checked_add_span_general @src src/civil/datetime.rs:1725
#[verifier::spinoff_prover]

    
    pub fn checked_add_span_general(self, span: &Span) -> (r: Result<DateTime, Error>)
    requires
        self.wf(), span_wf(*span),
    ensures
        r.is_ok() <==> dt_add_ok(self, *span),
    r.is_ok() ==> r.unwrap().wf() && r.unwrap().civil_ns() == dt_add_total(self, *span),
{
        hide(rd); hide(dim);
        proof {
            lemma_span_carries(*span, self.date.month.val as int);
            let y = add_y(self.date.year.val as int, self.date.month.val as int, span_years(*span), span_months(*span));
            let m = add_m(self.date.month.val as int, span_months(*span));
            let dd = imin(self.date.day.val as int, dim(y, m));
            if -9999 <= y <= 9999 { lemma_clamp_valid(self.date.year.val as int, self.date.month.val as int, self.date.day.val as int, y, m); lemma_rd_bounds(y, m, dd); }
        }

        let (old_date, old_time) = (self.date(), self.time());
        let span_date = span.without_lower(Unit::Day);
        let span_time = span.only_lower(Unit::Day);

        let (new_time, leftovers) =
            old_time.overflowing_add(span_time).verif_with_context()?;
        let new_date = old_date.checked_add_span(span_date).verif_with_context()?;
        let new_date = new_date.checked_add_span(leftovers).verif_with_context()?;
        proof {
            let nd = new_date;
            assert(tdiv(0, 86_400_000_000_000) == 0);
            assert(add_y(nd.year.val as int, nd.month.val as int, 0, 0) == nd.year.val && add_m(nd.month.val as int, 0) == nd.month.val);
        }

        Ok(DateTime::from_parts(new_date, new_time))
    }
}

impl DateTime {
// @fn DateTime::checked_add_span @src src/civil/datetime.rs:1691
#[verifier::spinoff_prover]

    pub fn checked_add_span(self, span: Span) -> (r: Result<DateTime, Error>)
    requires
        self.wf(), span_wf(span),
    ensures
        r.is_ok() <==> dt_add_ok(self, span),
    r.is_ok() ==> r.unwrap().wf() && r.unwrap().civil_ns() == dt_add_total(self, span),
{
        hide(rd); hide(dim);
        proof {
            lemma_span_carries(span, self.date.month.val as int);
            lemma_rd_bounds(self.date.year.val as int, self.date.month.val as int, self.date.day.val as int);
            assert(tdiv(0, 86_400_000_000_000) == 0);
            let d = self.date;
            assert(add_y(d.year.val as int, d.month.val as int, 0, 0) == d.year.val && add_m(d.month.val as int, 0) == d.month.val);
            reveal(dim);
            assert(imin(d.day.val as int, dim(d.year.val as int, d.month.val as int)) == d.day.val);
        }

        let (old_date, old_time) = (self.date(), self.time());
        let units = span.units();
        match (units.only_calendar().is_empty(), units.only_time().is_empty())
        {
            (true, true) => Ok(self),
            (false, true) => {
                let new_date =
                    old_date.checked_add_span(span).verif_with_context()?;
                Ok(DateTime::from_parts(new_date, old_time))
            }
            (true, false) => {
                let (new_time, leftovers) =
                    old_time.overflowing_add(span).verif_with_context()?;
                let new_date =
                    old_date.checked_add_span(leftovers).verif_with_context()?;
                Ok(DateTime::from_parts(new_date, new_time))
            }
            (false, false) => self.checked_add_span_general(&span),
        }
    }
}

impl DateTime {
// @fn DateTime::checked_add_duration @src src/civil/datetime.rs:1748
#[verifier::spinoff_prover]

    pub fn checked_add_duration(
        self,
        duration: SignedDuration,
    ) -> (r: Result<DateTime, Error>)
    requires
        self.wf(), duration.wf(),
    ensures
        r.is_ok() <==> -4371587 <= (self.civil_ns() + duration.tot()) / 86_400_000_000_000 <= 2932896,
    r.is_ok() ==> r.unwrap().wf() && r.unwrap().civil_ns() == self.civil_ns() + duration.tot(),
{
        hide(rd);
        proof { lemma_rd_bounds(self.date.year.val as int, self.date.month.val as int, self.date.day.val as int); }

        let (date, time) = (self.date(), self.time());
        let (new_time, leftovers) = time.overflowing_add_duration(duration)?;
        let new_date = date.checked_add_duration(leftovers).verif_with_context()?;
        Ok(DateTime::from_parts(new_date, new_time))
    }
}

// ==== end extracted ====


} // verus!
fn main() {}
